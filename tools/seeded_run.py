#!/usr/bin/env python3
"""Apply a seeded change to /repo, run the given checks, undo it, and record what was caught.
usage: tools/seeded_run.py seeded/<dir> <ID> [<ID> ...]"""
import json, os, subprocess, sys, time
d = sys.argv[1].rstrip("/")
ids = sys.argv[2:]
root = os.path.dirname(os.path.dirname(os.path.abspath(__file__)))
patch = os.path.join(root, d, "patch.diff")
assert subprocess.run(["git", "-C", "/repo", "status", "--porcelain", "--untracked-files=no"], capture_output=True, text=True).stdout.strip() == "", "/repo not clean"
subprocess.run(["git", "-C", "/repo", "apply", patch], check=True)
res = {}
try:
    for i in ids:
        t0 = time.time()
        p = subprocess.run([os.path.join(root, "check"), i], capture_output=True, text=True, cwd=root)
        v = [l for l in p.stdout.split("\n") if l.startswith("VIOLATION") or l.startswith("KNOWN-FINDING")]
        res[i] = {"exit": p.returncode, "lines": v, "wall_s": round(time.time() - t0)}
        print(i, p.returncode, v)
finally:
    subprocess.run(["git", "-C", "/repo", "checkout", "--", "."], check=True)
    # generated Gallina files follow the source: bring them back to the clean tree
    import glob
    # evidence files written while the patch was applied describe the patched tree: restore the committed ones
    subprocess.run(["git", "-C", root, "checkout", "--", "evidence"], capture_output=True)
    for t in sorted(glob.glob(os.path.join(root, "tools", "translate_*.py"))):
        if not t.endswith("translate_mutation.py"):
            subprocess.run(["python3", t], capture_output=True)
mp = os.path.join(root, d, "meta.json")
m = json.load(open(mp)) if os.path.exists(mp) else {}
m.setdefault("checks_run_against_it", {}).update(res)
json.dump(m, open(mp, "w"), indent=1)
