#!/usr/bin/env python3
"""Second tie for C18: regenerate coq/Gen/ChecksumGen.v from the Checksum accumulator of
sim/elvis-core/src/protocols/utility.rs (translator library: tools/rs2gallina.py).

Both cargo configurations are translated: feature compute_checksum on (definitions g_Checksum_<fn>) and off
(g_Checksum_<fn>_off); add_u8 / add_u32 carry no cfg attribute and are instantiated in both.
Proofs/ChecksumGen.v proves the generated definitions equal to the hand model Model/Checksum.v.
Exit 0 and the path on stdout; exit 2 with the construct and line when the source leaves the subset."""
import os
import sys

sys.path.insert(0, os.path.dirname(os.path.abspath(__file__)))
import rs2gallina as R  # noqa: E402

SRC = "/repo/sim/elvis-core/src/protocols/utility.rs"
OUT = os.path.join(os.path.dirname(os.path.dirname(os.path.abspath(__file__))), "coq", "Gen", "ChecksumGen.v")
FNS = ["new", "add_u16", "add_u8", "add_u32", "accumulate_remainder", "as_u16"]


def build(paths):
    data = open(paths[0], "rb").read()
    mod = R.Module(paths[0], data.decode())
    body, notes = [], []
    for on, suffix in ((True, ""), (False, "_off")):
        tr = R.Translator([mod], {"compute_checksum": on}, suffix)
        tr.first_fn = 0 if on else 10
        if on:
            tr.emit_adt("Checksum")
        else:
            tr.emitted_adts.add("Checksum")
        tr.out.append("(* ---- cargo feature compute_checksum %s ---- *)" % ("ON" if on else "OFF"))
        for fn in FNS:
            if fn == "new" and not on:
                continue                      # no cfg attribute and no callee: one instance is enough
            tr.translate(mod, impl_type="Checksum", name=fn)
        body += tr.out
        notes += [n for n in tr.notes if n not in notes]
    notes.append("an `impl Iterator<Item = u8>` argument is the list of the bytes it will yield (finite, fused)")
    return R.header("translate_checksum.py", [(paths[0], data)], notes) + "\n\n".join(body) + "\n"


if __name__ == "__main__":
    R.frontend_main("translate_checksum.py", build, [SRC], OUT)
