#!/usr/bin/env python3
"""C13 structural correspondence: the action table of Model/Startup.v against the Rust sources.

For every `impl Protocol for X` in the built-in protocol and application sources, the body of `async fn start`
is reduced to the ordered (lexical) list of the calls that matter to the start barrier:

  Tap      session.start(machine)                      Pci arms its taps
  Listen   .listen(..)                                 synchronous udp/tcp/ipv4/arp/socket listen
  Notify   notify_init.notify_one()                    SocketAPI releases pending new_socket() calls
  Socket   new_socket(..).await / TcpListener::bind(..).await   waits for the local SocketAPI only
  Open     open / open_and_listen / open_for_sending / connect / connect_by_name  (.await; may resolve through ARP)
  Spawn+   tokio::spawn / JoinSet::spawn of a helper that may send;  Spawn- of one that cannot
  Wait     initialized.wait().await                    the barrier
  Send     .send(..) / .write(..).await / close / scrape_user_behavior
  Input    accept / recv / recv_msg / read / read_exact / ip_address / join handles (.await on input);
           Input! when the awaited result is unwrapped (`.await.unwrap()`): Err(Shutdown) panics the start
  Sleep    sleep(..).await and helpers that only sleep
  Shut:<st> shutdown.shut_down() (E) / shut_down_with_status(ExitStatus::Status(k)) (S<k>)

Every `.await` in a start body must belong to a call classified above (anything else makes the correspondence
"no longer check"), the barrier wait must be a top-level statement of the body (no branch or loop around it, no
`return` before it), and the list must equal the row of `builtin_table` printed by the extracted model
(`ocaml/bin/startup table`).  The lexical list covers every path: a path executes a subsequence of it that
contains the (top-level) barrier wait (lemma `ffbw_subseq` in Proofs/StartupFacts.v).

usage: c13_action_table.py              print the table extracted from the sources
       c13_action_table.py --coq       print it as the Gallina rows of builtin_table
       c13_action_table.py --check F   compare with the table in file F (lines `Name: tok tok ...`)
"""
import glob
import os
import re
import sys

SRC_GLOBS = [
    "/repo/sim/elvis-core/src/protocols/**/*.rs",
    "/repo/sim/elvis/src/applications/*.rs",
]

OPEN = {"open", "open_and_listen", "open_for_sending", "connect", "connect_by_name"}
INPUT = {"accept", "recv", "recv_msg", "read", "read_exact", "ip_address", "join_next", "pop", "changed", "notified"}
SLEEP = {"sleep", "sleep_until", "play_video_segments", "process_http_response"}
SEND = {"send", "write", "close", "send_pci", "scrape_user_behavior"}


def strip_comments_strings(src):
    """Blank comments, string and char literals (same length, newlines kept)."""
    out = []
    i, n = 0, len(src)
    while i < n:
        c = src[i]
        if src.startswith("//", i):
            j = src.find("\n", i)
            j = n if j < 0 else j
            out.append(" " * (j - i))
            i = j
        elif src.startswith("/*", i):
            j = src.find("*/", i + 2)
            j = n if j < 0 else j + 2
            out.append("".join(ch if ch == "\n" else " " for ch in src[i:j]))
            i = j
        elif c == '"':
            j = i + 1
            while j < n and src[j] != '"':
                j += 2 if src[j] == "\\" else 1
            out.append('"' + "".join(ch if ch == "\n" else " " for ch in src[i + 1:j]) + '"')
            i = j + 1
        elif c == "'" and re.match(r"'(\\.|[^\\'])'", src[i:i + 4]):
            m = re.match(r"'(\\.|[^\\'])'", src[i:i + 4])
            out.append(" " * m.end())
            i += m.end()
        else:
            out.append(c)
            i += 1
    return "".join(out)


def matching(src, i, open_c, close_c):
    d = 0
    while i < len(src):
        if src[i] == open_c:
            d += 1
        elif src[i] == close_c:
            d -= 1
            if d == 0:
                return i
        i += 1
    raise ValueError("unbalanced")


def start_bodies():
    files = []
    for g in SRC_GLOBS:
        files += sorted(glob.glob(g, recursive=True))
    rows = []
    for p in files:
        raw = open(p, errors="replace").read()
        src = strip_comments_strings(raw)
        for m in re.finditer(r"impl\s+Protocol\s+for\s+(\w+)", src):
            name = m.group(1)
            s = src.find("async fn start", m.end())
            nxt = re.search(r"impl\s+Protocol\s+for\s+\w+", src[m.end():])
            if s < 0 or (nxt and s > m.end() + nxt.start()):
                rows.append((name, p, 0, None))
                continue
            b = src.find("{", src.find("->", s))
            e = matching(src, b, "{", "}")
            rows.append((name, p, src.count("\n", 0, s) + 1, (src, b, e)))
    return rows


CALL = re.compile(r"([A-Za-z_][A-Za-z0-9_]*(?:::[A-Za-z_][A-Za-z0-9_]*)*)\s*(?:::<[^>()]*>)?\s*\(")


def classify(path, qual, src, pos, awaited=True):
    """token for a call named `path` (last segment `qual`) at src[pos], or None if irrelevant.
    Calls that only matter as suspension points (input, sleep, socket creation) count only when awaited, so that
    RwLock::read()/write() are not mistaken for stream reads and writes."""
    before = src[max(0, pos - 40):pos]
    if qual == "wait" and re.search(r"\binitializ(ed|e)\s*\.\s*$", before):
        return "Wait"
    if qual == "start" and re.search(r"\bsession\s*\.\s*$", before):
        return "Tap"
    if qual == "listen":
        return "Listen"
    if qual == "notify_one":
        return "Notify"
    if qual == "new_socket" or path.endswith("TcpListener::bind"):
        return "Socket"
    if qual in OPEN:
        return "Open"
    if qual in SEND:
        if qual == "write":
            # RwLock::write() takes no argument; TcpStream::write(message) does
            o = src.index("(", pos)
            if src[o + 1:matching(src, o, "(", ")")].strip() == "":
                return None
        return "Send"
    if qual in INPUT:
        return "Input" if awaited else None
    if qual in SLEEP:
        return "Sleep" if awaited else None
    if qual == "shut_down":
        return "Shut:E"
    if qual == "shut_down_with_status":
        close = matching(src, src.index("(", pos), "(", ")")
        arg = src[pos:close]
        k = re.search(r"Status\s*\(\s*(\d+)\s*\)", arg)
        if k:
            return "Shut:S" + k.group(1)
        if "TimedOut" in arg:
            return "Shut:T"
        return "Shut:E"
    return None


def awaited_callee(src, await_pos):
    """name of the call whose value `.await` at await_pos is applied to (skipping .unwrap()/.expect(..)/?)."""
    i = await_pos
    while True:
        j = i
        while j > 0 and src[j - 1].isspace():
            j -= 1
        if j > 0 and src[j - 1] == "?":
            i = j - 1
            continue
        if j > 0 and src[j - 1] == ")":
            # find the matching '('
            d, k = 0, j - 1
            while k >= 0:
                if src[k] == ")":
                    d += 1
                elif src[k] == "(":
                    d -= 1
                    if d == 0:
                        break
                k -= 1
            m = re.search(r"([A-Za-z_][A-Za-z0-9_]*(?:::[A-Za-z_][A-Za-z0-9_]*)*)\s*(?:::<[^>()]*>)?\s*$", src[:k])
            if not m:
                return None, k
            nm = m.group(1)
            if nm.split("::")[-1] in ("unwrap", "expect"):
                # `.unwrap()` applied to something: continue to the left of the dot
                i = m.start()
                while i > 0 and src[i - 1].isspace():
                    i -= 1
                if i > 0 and src[i - 1] == ".":
                    i -= 1
                continue
            return nm, m.start()
        m = re.search(r"([A-Za-z_][A-Za-z0-9_]*)\s*$", src[:j])
        return (m.group(1) if m else None), j


def actions_of(src, b, e):
    """(tokens, problems) of one start body src[b..e]."""
    problems = []
    toks = []
    # spawn regions: tokio::spawn( ... ) and <x>.spawn( ... )
    spawns = []
    for m in re.finditer(r"\bspawn\s*\(", src[b:e]):
        o = b + m.end() - 1
        spawns.append((b + m.start(), matching(src, o, "(", ")")))

    def in_spawn(p):
        return any(s < p <= c for s, c in spawns)

    # every await must be classified
    awaits = [b + m.start() for m in re.finditer(r"\.\s*await\b", src[b:e])]
    awaited_at = set()
    for a in awaits:
        nm, at = awaited_callee(src, a)
        awaited_at.add(at)
        if nm is None:
            problems.append("cannot find the callee of an .await (line +%d)" % src.count("\n", b, a))
            continue
        q = nm.split("::")[-1]
        if in_spawn(a):
            continue
        if classify(nm, q, src, at) is None:
            problems.append("unclassified awaited call `%s` (line +%d)" % (nm, src.count("\n", b, a)))
    depth_at_wait = None
    loop_or_branch = False
    for m in CALL.finditer(src, b, e):
        pos = m.start()
        name = m.group(1)
        q = name.split("::")[-1]
        if in_spawn(pos):
            continue
        if q == "spawn":
            s, c = next((s, c) for s, c in spawns if s <= pos + len(name) and pos <= c)
            inner = [classify(mm.group(1), mm.group(1).split("::")[-1], src, mm.start(), mm.start() in awaited_at)
                     for mm in CALL.finditer(src, s + 6, c)]
            inner_aw = []
            for a in awaits:
                if s < a <= c:
                    nm, at = awaited_callee(src, a)
                    inner_aw.append(classify(nm, nm.split("::")[-1], src, at) if nm else None)
            may = any(t in ("Open", "Send") for t in inner) or any(t is None or t in ("Open", "Send") for t in inner_aw)
            toks.append("Spawn+" if may else "Spawn-")
            continue
        t = classify(name, q, src, pos, pos in awaited_at)
        if t is None:
            continue
        if t == "Input":
            # is the awaited result unwrapped (`.await.unwrap()`, `.await?`)?  then Err(Shutdown) makes start panic
            a = min(x for x in awaits if x > pos)
            tail = src[a:a + 60]
            if re.match(r"\.\s*await\s*(\?|\.\s*(unwrap|expect)\s*\()", tail):
                t = "Input!"
        if t == "Wait":
            depth_at_wait = src.count("{", b, pos) - src.count("}", b, pos)
            # the statement must start at body level: only `let`/expression statements, depth 1
        toks.append(t)
    nwait = toks.count("Wait")
    if nwait != 1:
        problems.append("expected exactly one initialized.wait(), found %d" % nwait)
    elif depth_at_wait != 1:
        problems.append("initialized.wait() is not a top-level statement of start (brace depth %s)" % depth_at_wait)
    else:
        w = [m.start() for m in CALL.finditer(src, b, e) if m.group(1).split("::")[-1] == "wait"
             and classify(m.group(1), "wait", src, m.start()) == "Wait"][0]
        if re.search(r"\breturn\b", src[b:w]):
            problems.append("`return` before initialized.wait()")
    return toks, problems


def extract():
    table = []
    problems = []
    for name, p, line, body in start_bodies():
        if body is None:
            problems.append("%s (%s): no `async fn start` found" % (name, p))
            continue
        toks, pr = actions_of(*body)
        table.append((name, p, line, toks))
        problems += ["%s (%s:%d): %s" % (name, p, line, x) for x in pr]
    names = [t[0] for t in table]
    for n in set(names):
        if names.count(n) > 1:
            problems.append("two impl Protocol for %s" % n)
    return table, problems


COQ_TOK = {"Tap": "ATapStart", "Listen": "AListen", "Notify": "ANotifyInit", "Socket": "ANewSocket", "Open": "AOpen",
           "Spawn+": "ASpawn true", "Spawn-": "ASpawn false", "Wait": "ABarrierWait", "Send": "ASend",
           "Input": "AInput false", "Input!": "AInput true", "Sleep": "ASleep"}


def coq_action(t):
    if t.startswith("Shut:"):
        s = t[5:]
        return "AShutdown " + ("Exited" if s == "E" else "TimedOut" if s == "T" else "(Status %s)" % s[1:])
    return COQ_TOK[t]


def compare(table, model_lines):
    """problems of the comparison with the model's table (lines `Name: tok tok`)."""
    out = []
    model = {}
    for l in model_lines:
        l = l.strip()
        if not l:
            continue
        n, _, rest = l.partition(":")
        model[n.strip()] = rest.split()
    src = {n: toks for n, _, _, toks in table}
    for n, p, line, toks in table:
        if n not in model:
            out.append("impl Protocol for %s (%s:%d) has no row in builtin_table" % (n, p, line))
        elif model[n] != toks:
            out.append("start of %s (%s:%d) is `%s`, the model's row is `%s`" % (n, p, line, " ".join(toks), " ".join(model[n])))
    for n in model:
        if n not in src:
            out.append("builtin_table has a row %s without an impl Protocol in the sources" % n)
    return out


def main():
    table, problems = extract()
    if "--coq" in sys.argv:
        for n, p, line, toks in table:
            print("  (P%s, [%s]);  (* %s:%d *)" % (n, "; ".join(coq_action(t) for t in toks), os.path.relpath(p, "/repo/sim"), line))
    elif "--check" in sys.argv:
        f = sys.argv[sys.argv.index("--check") + 1]
        problems += compare(table, open(f).read().split("\n"))
    else:
        for n, p, line, toks in table:
            print("%s: %s" % (n, " ".join(toks)))
    for x in problems:
        print("PROBLEM " + x, file=sys.stderr)
    return 1 if problems else 0


if __name__ == "__main__":
    sys.exit(main())
