#!/usr/bin/env python3
"""Regenerate /verif/MANIFEST.json from the table below (claimed properties and their level texts)."""
import json, os
ROOT = os.path.dirname(os.path.dirname(os.path.abspath(__file__)))
props = [json.loads(l) for l in open(os.path.join(ROOT, "properties.jsonl"))]

TECH = "Rocq (Coq 8.16.1) proof over a hand-written Gallina model + differential lock-step (extracted OCaml model vs the Rust code)"
CLAIMS = {
 "C01": ("proof", "C01_safety proved in Coq for the two-endpoint TCP system: for EVERY closed-system trace (all interleavings of writes, reads, closes, ticks, emit, deliver-any/drop/dup, fair rounds; all ISNs; MTU >= 100; streams < 2^31-2^17) the implementation model has not panicked and delivered is a prefix of submitted in both directions; C01_sender_consistent (every segment carries the slice of the stream at its sequence number). The model is lock-stepped label by label against the real Tcb; liveness (delivery, acknowledgement, silence after a loss-free tail) is checked by the implementation-side oracle on three kinds of fair tails and proved only for a canonical round (partial).",
         "Coq kernel; TcpNet composition mirrors the harness (tick = flush + advance_time, last read at deletion), not tcp_session.rs; one incarnation per endpoint pair."),
 "C02": ("proof", "Socket receive side modelled from socket.rs: recv(n) <= n, conservation of bytes across reads and pushes, accept replay, datagram wholeness, stream = concatenation of writes UNDER the explicit FIFO hand-off hypothesis (and a permutation without it) proved; unit lock-step of recv/recv_msg plus full-stack child-process scenarios (TCP/UDP sockets, loss/dup/jitter plans, both runtime flavours) validated by the extracted validators. Write reordering on the multi_thread runtime: recorded known finding.",
         "Coq kernel; tokio scheduling, real time and TCP/IP internals below the socket are not modelled (C01/C04)."),
 "C03": ("proof", "C03_edges: for every TCB state and EVERY segment each operation moves along the RFC 9293 state diagram (table pinned by C03_edge_table), close/timer/emit/send/receive characterised, deletions only by RST or the final ACK; C03_sync and C03_data_before_fin proved for every closed-system trace (corollaries of the C01 invariant). The session table and listen bindings of tcp.rs (open/listen/demux, closed-port reply) are a second Coq model (Model/TcpDemux.v, 19 theorems: unique session per endpoint pair, SYN creates exactly one session, exact before wildcard, no binding -> no session and at most one RFC reset) tied by full-stack trace validation. Release of both endpoints after closes is checked by the harness on loss-free tails (partial).",
         "Coq kernel; ghost SYNs only covered by the per-step theorems; sessions are never removed from the table of tcp.rs (observed, C03c_sessions_never_removed)."),
 "C04": ("proof", "UDP/IPv4 listen tables and the receive pipeline as a Coq model: exact-wins, soundness of lookup (never another port or another specific address), rebind refusal, end-to-end payload/endpoints, unbound dropped, order-insensitivity proved for all binding tables; the real stack is tied by trace validation (child-process scenarios, complete event list checked by the extracted validator with a proved soundness lemma) plus an independent Rust oracle. Partial for arrival orders on the real runtime (tokio scheduling, ARP resolution not modelled).",
         "Coq kernel; datagrams are records (codec round trips are C08); bindings static while datagrams are in flight."),
 "C05": ("proof", "Link model (tap allocation, MTU test, unicast/broadcast routing, single-server throughput + latency timing) with routing, MTU, MAC-distinctness (induction over attach), exactly-once, latency and throughput bounds proved; every recorded trace of the real Network/Pci (virtual time, exact instants) is checked by the extracted validator (soundness proved). Partial: tokio scheduling and Notify order are only exercised.",
         "Coq kernel; loss fixed at 0; variable settings only through their bounds."),
 "C06": ("proof", "ARP protocol model as a labelled transition system: target rule, truthful-table invariant, never-wrong, success after one exchange, bounded failure / no hang, agreement of successful answers proved; agreement of concurrent resolvers proved under no_late_answer and REFUTED in general (recorded known finding c06-failed-cache-race); real stack tied by timed trace validation under paused virtual time. Partial: watch-channel wake-ups not modelled.",
         "Coq kernel; one tap per machine, one network; wire codec is C08."),
 "C07": ("proof", "Refinement of Message to plain byte lists proved in Coq for every operation, every operation history over a pool (induction) and a frame theorem; model tied to message.rs by pool lock-step comparing all slots after every op, plus a structural no-mutation check of the shared buffers.",
         "Coq kernel; hand transcription of message.rs/chunk.rs/slice_range.rs checked by lock-step on sampled histories; Arc sharing itself is not modelled (structural grep + all-slots comparison)."),
 "C08": ("proof", "Encode/decode models of all six codecs with round trips both ways, arithmetic RFC 791/768/9293 specifications proved equal to the encoders, all 64 TCP control combinations by lifted finite sweep; lock-step against the Rust codecs and etherparse as the independent implementation. TCP reserved bits are masked by the decoder: recorded known finding (exact class proved).",
         "Coq kernel; to_be_bytes/shifts modelled arithmetically with characterising lemmas; String::from_utf8 modelled by a UTF-8 validity predicate (lock-stepped)."),
 "C09": ("proof", "Subnet algebra (contains/overlaps/range conversion/CIDR) and longest-prefix-match characterisation proved for all inputs and all add/remove histories; tied to ip_table.rs/subnetting.rs by lock-step with boundary lookups.",
         "Coq kernel; std Ipv4Addr/u32 from_str and BTreeMap are modelled (validated by lock-step only)."),
 "C10": ("proof", "Partition predicate proved for fragment(), pass-through, discard, and closure under arbitrary re-fragmentation chains; the same extracted predicate validates the implementation's fragments.",
         "Coq kernel; Message::cut abstracted to list split (C07); header serialisation not part of this model."),
 "C11": ("proof", "Reassembly invariant proved: completion iff coverage, returned datagram = original for any multiset/order/duplicates/overlaps of pieces, isolation between buffer keys, epoch-guarded expiry across key reuse; tied to reassembly/*.rs by lock-step over whole event histories with an independent byte-map oracle.",
         "Coq kernel; BinaryHeap and FxHashMap modelled (priority-queue lemmas proved for the concrete heap model); the tokio expiry timer is an event at arbitrary times."),
 "C12": ("proof", "Circular comparison primitives proved equal to the mathematical circular order for all pairs < 2^31 apart, mutually consistent and shift-invariant; TCB-level ISN equivariance: paired runs of the real Tcb with shifted ISNs (oracle) and lock-step of the TCB model; equivariance theorem over the model in progress.",
         "Coq kernel; hand model of modular_cmp.rs and tcb.rs tied by lock-step."),
 "C16": ("proof", "Router hop model from ArpRouter::demux (imports the C09 LPM theorems): TTL decrements, one-in-one-out, trajectory length <= TTL for EVERY topology and table assignment, follows-route, payload unchanged, only-destination; recorded traces (frames with bytes) validated by the extracted validator with proved soundness. ARP table shared by all slots: recorded known finding (wrong-slot routes only).",
         "Coq kernel; ARP exchange, task spawning and timers validated by traces only."),
 "C17": ("proof", "Single-endpoint invariant Inv preserved by every TCB operation for ARBITRARY syntactically valid segments; no-crash for all operation sequences (also at system level incl. forged segments); new data never beyond SND.UNA+SND.WND; unacceptable segments (outside the window, or without SYN/RST in SYN-SENT) leave state/data/receive variables unchanged - all proved on the TCB model, which is lock-stepped against tcb.rs on hostile schedules (dev profile; release profile in the thorough tier).",
         "Coq kernel; MTU >= 50, text <= 65515 bytes; window judged against [RCV.NXT-1, RCV.NXT+RCV.WND) as tcb.rs does; TcpNet composition mirrors the harness, not tcp.rs."),
 "C18": ("proof", "One's-complement accumulator proved congruent to the sum mod 65535; emitted IPv4/UDP/TCP checksums verify under RFC 1071 incl. pseudo header and odd lengths; decoders accept iff the field verifies (conforming 0x0000/0xffff included after the fix); every single-bit flip rejected, double flips rejected except exactly the compensating pairs; lock-step in the compute_checksum build against the Rust code and etherparse.",
         "Coq kernel; second harness build with feature compute_checksum."),
 "C20": ("proof", "DNS protocol model on top of the DNS codec model: every returned address is the registered one, accepted replies echo the query's id and name (isolation by per-query socket), cache hits emit no frame, no crash when names are registered; traces of the real client/server replayed label by label through the extracted step function.",
         "Coq kernel; socket/UDP/IP/ARP stack below is C02/C04; liveness only as enabledness."),
 "C19": ("proof", "NDL parser model (incl. the nom combinators used) with the whole-file round trip proved for tab / 4-space / CRLF renderings of every well-formed description, soundness of acceptance and one reject lemma per structural-error class; parser tied to the code by lock-step on rendered trees and mutants of the repository's files; running a valid description is checked by child-process runs against a reference evaluation (testing only). Values containing `]`, four spaces or CR do not round-trip: recorded known finding.",
         "Coq kernel; nom 7 combinators hand-modelled; error message texts not modelled (class + line only); machine_generator/run_internet not modelled (part 2 partial)."),
 "C13": ("proof", "Barrier theorem for all interleavings given per-protocol frame-free-before-wait action lists; the 32 built-in start bodies as a table checked by vm_compute (Forward refuted = recorded known finding) and tied to the source by a structural extractor; first-status / exactly-once / deadline theorems for the run task; full-stack child-process runs validated by the extracted model. Example applications that unwrap after shutdown: recorded known finding.",
         "Coq kernel; tokio Barrier/broadcast/timeout semantics transcribed, not verified; user protocols' discipline is a hypothesis."),
 "C14": ("proof", "Totality (never Panic) of the six decoder models and of the NDL parser model proved for all byte strings / texts; models tied by lock-step on hostile inputs; panic-site inventory makes a new unwrap/expect/unreachable!/assert!/index in the anchored files break the correspondence; part 2 (undecodable frames dropped at their layer, simulation keeps running) by frame injection into a running simulation - trace validation only (partial).",
         "Coq kernel; unchecked integer arithmetic sites are not inventoried; stack-level drop is testing."),
 "C15": ("proof", "Address-generator specs (block/return/fetch), no-panic and the no-double-allocation history theorem proved for all op sequences; DHCP distinctness proved on a protocol model; generator tied to ip_generator.rs by lock-step; the DHCP protocol model is not yet tied to the code by full-stack runs (partial there).",
         "Coq kernel; stored range set read through Debug; DHCP Notify-based waiting and the UDP/IP stack are not modelled."),
}
NOT_YET = "check under construction in this session (model/harness not yet committed); will be claimed when its check exists"

man = {
 "version": 1,
 "setup_cmd": "./setup.sh",
 "hooks": {
   "guard": "cargo feature `verif` of elvis-core (cfg(feature = \"verif\"))",
   "enable": "the harness crate /verif/harness depends on elvis-core with features=[\"verif\"] (path dependency on /repo/sim/elvis-core)",
   "baseline_off_cmd": "cd /repo/sim && (cargo nextest run --workspace --no-fail-fast --tool-config-file pb:/w/lib/nextest.toml --profile pb --test-threads 8 --offline || cargo test --workspace --no-fail-fast --offline)",
   "source_commits": ["0e8e1bda", "34169798", "e68557a9", "6149c986", "e61653a0", "82d1c349"],
   "add_only": True},
 "engines": [{"name": "rocq-model-proof+lockstep", "path": "/verif/check", "serves_properties": sorted(CLAIMS),
              "kind_free_text": "hand-written Gallina models + Coq 8.16.1 theorems; models extracted to OCaml (ExtrOcamlBasic only) and run in lock-step against the real Rust code through the harness crate /verif/harness"}],
 "checks": [], "not_applicable": [],
 "notes": "see DESIGN.md; known_findings.json lists fixed defects (fix: commits in /repo) and recorded findings",
}
for p in props:
    i = p["id"]
    if i in CLAIMS:
        cat, text, note = CLAIMS[i]
        man["checks"].append({
            "property_id": i, "quick_cmd": "./check %s --tier quick" % i, "thorough_cmd": "./check %s --tier thorough" % i,
            "evidence_file": "/verif/evidence/%s.json" % i, "replay_cmd_template": "./check %s --replay {path}" % i,
            "engine": "rocq-model-proof+lockstep",
            "level_claimed": {"category": cat, "text": text, "design_ref": "DESIGN.md section 8 (%s)" % i},
            "level_note": note, "technique": TECH})
    else:
        man["not_applicable"].append({"property_id": i, "reason": NOT_YET})
json.dump(man, open(os.path.join(ROOT, "MANIFEST.json"), "w"), indent=1)
print("claimed:", sorted(CLAIMS))
