#!/usr/bin/env python3
"""Second tie for C09: regenerate coq/Gen/SubnetGen.v from the pure integer functions of
sim/elvis-core/src/protocols/arp/subnetting.rs (Ipv4Mask, Ipv4Net, SubnetInfo, clamp) and the conversions of
sim/elvis-core/src/protocols/ipv4/ipv4_address.rs they call (translator library: tools/rs2gallina.py).

An Ipv4Address is translated as what it is, a newtype over [u8; 4] (list of 4 bytes) with the derived lexicographic
order; Proofs/SubnetGen.v relates it to the u32 view of the hand model Model/Subnet.v.
NOT translated (left to the hand model and the lock-step): cidr_to_ip / Ipv4Net::from_cidr (string parsing),
Debug / Display, TryFrom<Ipv4Address> for Ipv4Mask (its error value is an address, which does not fit Base.Err),
the associated constant Ipv4Net::LOOPBACK (associated constants are outside the subset).
Exit 0 and the path on stdout; exit 2 with the construct and line when the source leaves the subset."""
import os
import sys

sys.path.insert(0, os.path.dirname(os.path.abspath(__file__)))
import rs2gallina as R  # noqa: E402

SRC = "/repo/sim/elvis-core/src/protocols/arp/subnetting.rs"
SRC_ADDR = "/repo/sim/elvis-core/src/protocols/ipv4/ipv4_address.rs"
OUT = os.path.join(os.path.dirname(os.path.dirname(os.path.abspath(__file__))), "coq", "Gen", "SubnetGen.v")

U32 = ("u", 32)
ARR4 = ("arr", ("u", 8), 4)
ADDR = ("adt", "Ipv4Address")
MASK = ("adt", "Ipv4Mask")
NET = ("adt", "Ipv4Net")


def build(paths):
    d_sub, d_addr = open(paths[0], "rb").read(), open(paths[1], "rb").read()
    sub, addr = R.Module(paths[0], d_sub.decode()), R.Module(paths[1], d_addr.decode())
    tr = R.Translator([sub, addr], {}, "")
    # ---- ipv4_address.rs
    tr.out.append("(* ==== ipv4_address.rs ==== *)")
    tr.emit_adt("Ipv4Address")
    tr.translate(addr, impl_type="Ipv4Address", name="new")
    tr.translate(addr, trait=("From", ARR4, ADDR), name="from")
    tr.translate(addr, trait=("From", U32, ADDR), name="from")
    tr.translate(addr, trait=("From", ADDR, U32), name="from")
    tr.translate(addr, trait=("From", ADDR, ARR4), name="from")
    tr.translate(addr, impl_type="Ipv4Address", name="to_u32")
    tr.translate(addr, impl_type="Ipv4Address", name="to_bytes")
    # ---- subnetting.rs
    tr.out.append("(* ==== subnetting.rs ==== *)")
    tr.emit_adt("Ipv4Mask")
    tr.translate(sub, name="clamp")
    for fn in ("from_bitcount", "count_ones", "to_u32", "to_ipv4_address", "ips_in_net", "usable_ips"):
        tr.translate(sub, impl_type="Ipv4Mask", name=fn)
    tr.translate(sub, trait=("From", MASK, U32), name="from")
    tr.translate(sub, trait=("From", MASK, ADDR), name="from")
    tr.translate(sub, trait=("TryFrom", U32, MASK), name="try_from")
    tr.emit_adt("Ipv4Net")
    for fn in ("new", "new_short", "new_1", "id", "broadcast", "mask", "range", "contains", "overlaps"):
        tr.translate(sub, impl_type="Ipv4Net", name=fn)
    tr.translate(sub, trait=("From", ("tup", (ADDR, MASK)), NET), name="from")
    tr.translate(sub, trait=("From", NET, ("tup", (ADDR, MASK))), name="from")
    tr.emit_adt("TryFromRangeError")
    tr.translate(sub, trait=("TryFrom", ("range", ADDR), NET), name="try_from")
    tr.emit_adt("SubnetInfo")
    tr.translate(sub, impl_type="SubnetInfo", name="new")
    notes = tr.notes + ["RangeInclusive<T> is the pair (start, end) of a range that has not been iterated "
                        "(is_empty = !(start <= end); == compares both ends)"]
    return R.header("translate_subnetting.py", [(paths[0], d_sub), (paths[1], d_addr)], notes) + "\n\n".join(tr.out) + "\n"


if __name__ == "__main__":
    R.frontend_main("translate_subnetting.py", build, [SRC, SRC_ADDR], OUT)
