#!/usr/bin/env python3
"""rs2gallina - translator from a small, documented subset of Rust to Gallina (library for the front-ends
tools/translate_checksum.py, tools/translate_subnetting.py, tools/translate_state.py, tools/translate_control.py).

The generated definitions refer only to coq/Model/Base.v (result, do-notation) and coq/Model/RsSem.v (operator
semantics).  The translator NEVER guesses: every construct outside the subset raises Unsupported with the construct
and its source line, and the front-end exits with code 2.

SUBSET (see SUBSET_TEXT below for the text copied into every generated file).
"""
import hashlib
import os
import re
import sys

SUBSET_TEXT = """\
   items      : struct S(T); (newtype, represented by its field) | struct S { f: T, .. } (Record) |
                fieldless enum (Inductive) | inherent impl | impl From<A> for B / TryFrom<A> for B | free fn |
                #[cfg(feature = "..")] / #[cfg(not(feature = ".."))] select one variant per configuration;
                #[derive(PartialEq, PartialOrd, Default)] give ==, <=, ::default() structurally
   types      : u8 u16 u32 u64 (usize = u64) bool () [T; N] (T, U) S Self &T &mut T (references erased)
                Result<T, E> (E an integer or a fieldless enum -> Err n) Option<T>
                impl Iterator<Item = u8> (finite fused iterator = list of the items to come)
                impl Into<T> (instantiated at T; .into() is then std's reflexive From) RangeInclusive<T>
   statements : let [mut] x [: T] = e; | let (a, b) = e; | self.f = e; | self.m(e..); (a &mut self method)
                | assert!(e); | if c { ..; return e; } | while let Some(x) = it.next() { self.m(..); .. } (last)
                | tail expression
   expressions: integer / bool literals, variables, paths, e.f e.0 e[k], S(e) S { f: e, .. } [e, ..] (e, ..)
                + - * (checked: Panic on overflow) / % (Panic on 0) << >> (Panic when amount >= width)
                & | ^ ! == != < <= > >= && || (short-circuit kept when the right operand can panic)
                e as uN (truncation) / bool as uN, if / else, match on integer literals (a | b, binding or _
                last) or on enum variants, a..=b, Ok(e) Err(e) e? r.or(Err(e)), x.into() T::from(x) T::try_from(x)
   intrinsics : wrapping_add/sub/mul overflowing_add/sub saturating_add/sub count_ones count_zeros
                leading_zeros trailing_zeros to_be_bytes uN::from_be_bytes min max it.next() o.unwrap_or(d)
                r.is_empty() r.start() r.end() matches!(e, pats)
   everything else (loops, closures, generics, traits, strings, signed integers, floats, macros, unsafe) is
   rejected with the construct and its line."""


class Unsupported(Exception):
    def __init__(self, msg, line=None):
        Exception.__init__(self, msg)
        self.msg, self.line = msg, line

    def __str__(self):
        return "%s (line %s)" % (self.msg, self.line) if self.line else self.msg


# ------------------------------------------------------------------------------------------------ lexer
class Tok:
    __slots__ = ("k", "v", "line")

    def __init__(self, k, v, line):
        self.k, self.v, self.line = k, v, line

    def __repr__(self):
        return "%s:%r@%d" % (self.k, self.v, self.line)


OPS3 = ("..=", "...", "<<=", ">>=")
OPS2 = ("::", "->", "=>", "==", "!=", "<=", ">=", "&&", "||", "<<", ">>", "+=", "-=", "*=", "/=", "%=", "^=", "&=",
        "|=", "..")
OPS1 = "+-*/%^!&|=<>@.,;:#$?~()[]{}"
INT_SUFFIXES = ("u8", "u16", "u32", "u64", "u128", "usize", "i8", "i16", "i32", "i64", "i128", "isize")


def lex(src):
    toks, i, n, line = [], 0, len(src), 1
    while i < n:
        c = src[i]
        if c == "\n":
            line += 1
            i += 1
        elif c in " \t\r":
            i += 1
        elif src.startswith("//", i):
            j = src.find("\n", i)
            i = n if j < 0 else j
        elif src.startswith("/*", i):
            depth, i = 1, i + 2
            while i < n and depth:
                if src.startswith("/*", i):
                    depth, i = depth + 1, i + 2
                elif src.startswith("*/", i):
                    depth, i = depth - 1, i + 2
                else:
                    if src[i] == "\n":
                        line += 1
                    i += 1
        elif c == '"' or (c == "b" and src.startswith('b"', i)):
            j = i + (2 if c == "b" else 1)
            start = line
            while j < n and src[j] != '"':
                if src[j] == "\\":
                    j += 1
                if j < n and src[j] == "\n":
                    line += 1
                j += 1
            toks.append(Tok("str", src[i:j + 1], start))
            i = j + 1
        elif c == "r" and re.match(r'r#*"', src[i:i + 8]):
            m = re.match(r'r(#*)"', src[i:])
            end = src.find('"' + m.group(1), i + len(m.group(0)))
            if end < 0:
                raise Unsupported("unterminated raw string", line)
            toks.append(Tok("str", src[i:end + 1 + len(m.group(1))], line))
            line += src.count("\n", i, end)
            i = end + 1 + len(m.group(1))
        elif c == "'":
            m = re.match(r"'(\\x[0-9a-fA-F]{2}|\\u\{[0-9a-fA-F]+\}|\\.|[^\\'])'", src[i:i + 12])
            if m:
                toks.append(Tok("char", m.group(0), line))
                i += len(m.group(0))
            else:
                m = re.match(r"'[A-Za-z_][A-Za-z0-9_]*", src[i:])
                if not m:
                    raise Unsupported("stray quote", line)
                toks.append(Tok("life", m.group(0), line))
                i += len(m.group(0))
        elif c.isdigit():
            m = re.match(r"0x[0-9a-fA-F_]+|0b[01_]+|0o[0-7_]+|[0-9][0-9_]*", src[i:])
            txt = m.group(0)
            j = i + len(txt)
            suffix = None
            for s in INT_SUFFIXES:
                if src.startswith(s, j) and not (j + len(s) < n and (src[j + len(s)].isalnum() or src[j + len(s)] == "_")):
                    suffix = s
                    j += len(s)
                    break
            if j < n and (src[j].isalpha() or src[j] == "_"):
                raise Unsupported("numeric literal with unsupported suffix %r" % src[i:j + 6], line)
            if j + 1 < n and src[j] == "." and src[j + 1].isdigit():
                raise Unsupported("floating point literal", line)
            t = txt.replace("_", "")
            val = int(t[2:], 16) if t.startswith("0x") else int(t[2:], 2) if t.startswith("0b") else \
                int(t[2:], 8) if t.startswith("0o") else int(t)
            toks.append(Tok("int", (val, suffix), line))
            i = j
        elif c.isalpha() or c == "_":
            m = re.match(r"[A-Za-z_][A-Za-z0-9_]*", src[i:])
            toks.append(Tok("id", m.group(0), line))
            i += len(m.group(0))
        else:
            for ops in (OPS3, OPS2):
                hit = next((o for o in ops if src.startswith(o, i)), None)
                if hit:
                    break
            if hit:
                toks.append(Tok("op", hit, line))
                i += len(hit)
            elif c in OPS1:
                toks.append(Tok("op", c, line))
                i += 1
            else:
                raise Unsupported("cannot tokenize %r" % src[i:i + 20], line)
    toks.append(Tok("eof", None, line))
    return toks


OPEN = {"(": ")", "[": "]", "{": "}"}


class Cursor:
    """Token cursor shared by the item parser, the type parser and the expression parser."""

    def __init__(self, toks, i=0, end=None):
        self.t, self.i = toks, i
        self.end = len(toks) - 1 if end is None else end

    def peek(self, d=0):
        j = self.i + d
        return self.t[j] if j < self.end else Tok("eof", None, self.t[min(j, len(self.t) - 1)].line)

    def next(self):
        x = self.peek()
        self.i += 1
        return x

    def at(self, k, v=None):
        x = self.peek()
        return x.k == k and (v is None or x.v == v)

    def at_op(self, v):
        return self.at("op", v)

    def at_id(self, v):
        return self.at("id", v)

    def accept(self, k, v=None):
        if self.at(k, v):
            return self.next()
        return None

    def expect(self, k, v=None):
        x = self.next()
        if x.k != k or (v is not None and x.v != v):
            raise Unsupported("expected %s %s, found %s %r" % (k, v if v is not None else "", x.k, x.v), x.line)
        return x

    def skip_balanced(self):
        """At an opening bracket: skip to just after its partner; returns (start, end) token indices of the inside."""
        o = self.next()
        if o.k != "op" or o.v not in OPEN:
            raise Unsupported("expected an opening bracket, found %r" % (o.v,), o.line)
        start, depth = self.i, 1
        while depth:
            x = self.next()
            if x.k == "eof":
                raise Unsupported("unbalanced %s" % o.v, o.line)
            if x.k == "op" and x.v in OPEN:
                depth += 1
            elif x.k == "op" and x.v in (")", "]", "}"):
                depth -= 1
        return start, self.i - 1

    def skip_item_rest(self):
        """Skip the rest of an item we do not look into: up to ';' or a balanced {...} at depth 0."""
        while True:
            x = self.peek()
            if x.k == "eof":
                return
            if x.k == "op" and x.v == ";":
                self.next()
                return
            if x.k == "op" and x.v == "{":
                self.skip_balanced()
                return
            if x.k == "op" and x.v in OPEN:
                self.skip_balanced()
            else:
                self.next()


def text_of(toks, a, b):
    out = []
    for t in toks[a:b]:
        out.append(str(t.v[0]) if t.k == "int" else str(t.v))
    return " ".join(out)


# ------------------------------------------------------------------------------------------------ types
INT_W = {"u8": 8, "u16": 16, "u32": 32, "u64": 64, "usize": 64}


def parse_type(c, self_ty=None, assoc=None):
    """Types are tuples: ('u', w) ('bool',) ('unit',) ('arr', T, n) ('tup', (T..)) ('adt', name) ('result', T, E)
    ('option', T) ('iter', T) ('into', T) ('range', T) ('unk', text)."""
    x = c.peek()
    if c.accept("op", "&") or c.accept("op", "&&"):
        c.accept("life")
        c.accept("id", "mut")
        return parse_type(c, self_ty, assoc)
    if c.accept("op", "("):
        if c.accept("op", ")"):
            return ("unit",)
        ts = [parse_type(c, self_ty, assoc)]
        while c.accept("op", ","):
            if c.at_op(")"):
                break
            ts.append(parse_type(c, self_ty, assoc))
        c.expect("op", ")")
        return ts[0] if len(ts) == 1 else ("tup", tuple(ts))
    if c.accept("op", "["):
        t = parse_type(c, self_ty, assoc)
        if c.accept("op", ";"):
            n = c.expect("int").v[0]
            c.expect("op", "]")
            return ("arr", t, n)
        c.expect("op", "]")
        return ("unk", "slice")
    if c.at_id("impl") or c.at_id("dyn"):
        c.next()
        name = c.expect("id").v
        if name == "Iterator" and c.accept("op", "<"):
            c.expect("id", "Item")
            c.expect("op", "=")
            t = parse_type(c, self_ty, assoc)
            close_angle(c)
            return ("iter", t)
        if name == "Into" and c.accept("op", "<"):
            t = parse_type(c, self_ty, assoc)
            close_angle(c)
            return ("into", t)
        return ("unk", "impl " + name)
    if x.k != "id":
        raise Unsupported("unsupported type syntax at %r" % (x.v,), x.line)
    path = [c.next().v]
    while c.at_op("::") and c.peek(1).k == "id":
        c.next()
        path.append(c.next().v)
    name = path[-1]
    args = []
    if c.at_op("<"):
        c.next()
        while not (c.at_op(">") or c.at_op(">>")):
            if c.at("life"):
                c.next()
            else:
                args.append(parse_type(c, self_ty, assoc))
            if not c.accept("op", ","):
                break
        close_angle(c)
    if path[0] == "Self" and len(path) == 2:
        if assoc and path[1] in assoc:
            return assoc[path[1]]
        return ("unk", "Self::" + path[1])
    if name == "Self":
        if self_ty is None:
            raise Unsupported("Self outside an impl", x.line)
        return self_ty
    if name in INT_W and not args:
        return ("u", INT_W[name])
    if name == "bool":
        return ("bool",)
    if name == "Result" and len(args) == 2:
        return ("result", args[0], args[1])
    if name == "Option" and len(args) == 1:
        return ("option", args[0])
    if name == "RangeInclusive" and len(args) == 1:
        return ("range", args[0])
    if name in ("i8", "i16", "i32", "i64", "i128", "isize", "u128", "f32", "f64", "str", "String", "char"):
        return ("unk", name)
    if args:
        return ("unk", "%s<..>" % name)
    return ("adt", name)


def close_angle(c):
    if c.at_op(">>"):
        # split the token: one '>' consumed, one left
        t = c.peek()
        c.t[c.i] = Tok("op", ">", t.line)
        return
    c.expect("op", ">")


def type_name(t):
    k = t[0]
    if k == "u":
        return {8: "u8", 16: "u16", 32: "u32", 64: "u64"}[t[1]]
    if k in ("bool", "unit"):
        return k
    if k == "arr":
        return "arr%d%s" % (t[2], type_name(t[1]))
    if k == "adt":
        return t[1]
    if k == "tup":
        return "tup_" + "_".join(type_name(x) for x in t[1])
    if k == "range":
        return "range_" + type_name(t[1])
    if k in ("into", "iter", "option"):
        return k + "_" + type_name(t[1])
    if k == "result":
        return "result_" + type_name(t[1])
    return "unk"


def show_type(t):
    if t is None:
        return "_"
    k = t[0]
    if k == "arr":
        return "[%s; %d]" % (show_type(t[1]), t[2])
    if k == "tup":
        return "(%s)" % ", ".join(show_type(x) for x in t[1])
    if k == "result":
        return "Result<%s, %s>" % (show_type(t[1]), show_type(t[2]))
    if k == "option":
        return "Option<%s>" % show_type(t[1])
    if k == "iter":
        return "impl Iterator<Item = %s>" % show_type(t[1])
    if k == "into":
        return "impl Into<%s>" % show_type(t[1])
    if k == "range":
        return "RangeInclusive<%s>" % show_type(t[1])
    if k == "unk":
        return t[1]
    if k == "unit":
        return "()"
    return type_name(t)


# ------------------------------------------------------------------------------------------------ items
class Fn:
    def __init__(self):
        self.name = self.line = self.ret = self.self_mode = None
        self.params, self.cfg, self.body = [], [], None      # body = (start, end) token indices inside the braces
        self.owner = None                                     # the Impl or None
        self.sig = ""


class Impl:
    def __init__(self):
        self.trait = None       # None or (name, (type args..))
        self.for_ty = None
        self.assoc = {}
        self.fns = []
        self.line = None
        self.cfg = []


class Module:
    """Items of one source file."""

    def __init__(self, path, src):
        self.path, self.src = path, src
        self.toks = lex(src)
        self.structs, self.enums, self.impls, self.fns = {}, {}, [], []
        self.order = []
        c = Cursor(self.toks)
        while not c.at("eof"):
            self.item(c, None)

    # attributes in front of an item: returns (cfg conditions, derives)
    def attrs(self, c):
        cfg, derives = [], set()
        while c.at_op("#"):
            line = c.next().line
            c.accept("op", "!")
            a, b = c.skip_balanced()
            txt = text_of(self.toks, a, b)
            m = re.match(r'cfg \( (not \( )?feature = "([^"]+)" \)( \))?$', txt)
            if m:
                cfg.append(("feature", m.group(2), not m.group(1)))
            elif txt == "cfg ( test )":
                cfg.append(("test",))
            elif txt.startswith("cfg ") or txt.startswith("cfg_attr"):
                cfg.append(("other", txt, line))
            elif txt.startswith("derive "):
                derives |= set(re.findall(r"[A-Za-z_][A-Za-z0-9_]*", txt[7:]))
        return cfg, derives

    def item(self, c, impl):
        cfg, derives = self.attrs(c)
        if c.accept("id", "pub"):
            if c.at_op("("):
                c.skip_balanced()
        line = c.peek().line
        quals = []
        while c.peek().k == "id" and c.peek().v in ("const", "async", "unsafe", "extern", "default") and \
                not (c.peek().v == "const" and c.peek(1).k == "id" and c.peek(1).v != "fn"
                     and c.peek(1).v not in ("async", "unsafe", "extern")):
            quals.append(c.next().v)
        x = c.peek()
        if x.k == "id" and x.v == "fn":
            f = self.fn(c, impl, cfg, quals)
            (impl.fns if impl else self.fns).append(f)
            return
        if impl is not None:
            if c.accept("id", "type"):
                name = c.expect("id").v
                c.expect("op", "=")
                impl.assoc[name] = parse_type(c, impl.for_ty, impl.assoc)
                c.expect("op", ";")
                return
            c.skip_item_rest()       # associated consts etc.: not translated
            return
        if x.k == "id" and x.v == "struct":
            c.next()
            name = c.expect("id").v
            if c.at_op("<"):
                c.skip_item_rest()
                self.structs[name] = {"kind": "generic", "line": line}
                return
            if c.accept("op", "("):
                fields = []
                while not c.at_op(")"):
                    self.attrs(c)
                    if c.accept("id", "pub") and c.at_op("("):
                        c.skip_balanced()
                    fields.append((str(len(fields)), parse_type(c)))
                    if not c.accept("op", ","):
                        break
                c.expect("op", ")")
                c.expect("op", ";")
                self.structs[name] = {"kind": "tuple", "fields": fields, "derives": derives, "line": line, "cfg": cfg}
            elif c.accept("op", "{"):
                fields = []
                while not c.at_op("}"):
                    self.attrs(c)
                    if c.accept("id", "pub") and c.at_op("("):
                        c.skip_balanced()
                    fname = c.expect("id").v
                    c.expect("op", ":")
                    fields.append((fname, parse_type(c)))
                    if not c.accept("op", ","):
                        break
                c.expect("op", "}")
                self.structs[name] = {"kind": "record", "fields": fields, "derives": derives, "line": line, "cfg": cfg}
            else:
                c.expect("op", ";")
                self.structs[name] = {"kind": "unit", "fields": [], "derives": derives, "line": line, "cfg": cfg}
            self.order.append(("struct", name))
            return
        if x.k == "id" and x.v == "enum":
            c.next()
            name = c.expect("id").v
            if c.at_op("<"):
                c.skip_item_rest()
                return
            c.expect("op", "{")
            variants, fieldless = [], True
            while not c.at_op("}"):
                self.attrs(c)
                v = c.expect("id")
                variants.append((v.v, v.line))
                if c.at_op("(") or c.at_op("{"):
                    c.skip_balanced()
                    fieldless = False
                if c.accept("op", "="):
                    raise Unsupported("enum %s: explicit discriminant" % name, v.line)
                if not c.accept("op", ","):
                    break
            c.expect("op", "}")
            self.enums[name] = {"variants": variants, "fieldless": fieldless, "derives": derives, "line": line}
            self.order.append(("enum", name))
            return
        if x.k == "id" and x.v == "impl":
            c.next()
            im = Impl()
            im.line, im.cfg = line, cfg
            if c.at_op("<"):
                # generic impl: not translated
                c.skip_item_rest()
                return
            save = c.i
            t1 = self.impl_type(c)
            if c.accept("id", "for"):
                im.trait = t1
                im.for_ty = parse_type(c)
            else:
                c.i = save
                im.for_ty = parse_type(c)
            if c.at_id("where"):
                c.skip_item_rest()
                return
            c.expect("op", "{")
            while not c.at_op("}"):
                self.item(c, im)
            c.expect("op", "}")
            self.impls.append(im)
            return
        # use, mod, trait, type, const, static, macro_rules, extern crate ...: skipped, never translated
        kw = c.next()
        if kw.k == "op" and kw.v == ";":
            return
        if kw.k == "id" and kw.v in ("use", "type", "const", "static", "extern"):
            while not (c.at_op(";") or c.at("eof")):
                if c.peek().k == "op" and c.peek().v in OPEN:
                    c.skip_balanced()
                else:
                    c.next()
            c.accept("op", ";")
            return
        c.skip_item_rest()

    def impl_type(self, c):
        """Trait reference `Name<T, ..>` (or a plain type); returned as (name, (args..))."""
        path = [c.expect("id").v]
        while c.at_op("::") and c.peek(1).k == "id":
            c.next()
            path.append(c.next().v)
        args = []
        if c.accept("op", "<"):
            while not (c.at_op(">") or c.at_op(">>")):
                args.append(parse_type(c))
                if not c.accept("op", ","):
                    break
            close_angle(c)
        return (path[-1], tuple(args))

    def fn(self, c, impl, cfg, quals):
        f = Fn()
        f.owner, f.cfg, f.quals = impl, cfg + (impl.cfg if impl else []), quals
        start = c.i
        c.expect("id", "fn")
        nm = c.expect("id")
        f.name, f.line = nm.v, nm.line
        self_ty = impl.for_ty if impl else None
        assoc = impl.assoc if impl else None
        if c.at_op("<"):
            f.generic = True
            depth = 0
            while True:
                x = c.next()
                if x.k == "op" and x.v == "<":
                    depth += 1
                elif x.k == "op" and x.v == ">":
                    depth -= 1
                elif x.k == "op" and x.v == ">>":
                    depth -= 2
                if depth <= 0:
                    break
        else:
            f.generic = False
        c.expect("op", "(")
        while not c.at_op(")"):
            self.attrs(c)
            # self forms
            if c.at_op("&") and (c.peek(1).k == "id" and c.peek(1).v in ("self", "mut")) and \
                    (c.peek(1).v == "self" or (c.peek(2).k == "id" and c.peek(2).v == "self")):
                c.next()
                if c.accept("id", "mut"):
                    f.self_mode = "mut"
                else:
                    f.self_mode = "ref"
                c.expect("id", "self")
            elif c.at_id("self"):
                c.next()
                f.self_mode = "val"
            elif c.at_id("mut") and c.peek(1).k == "id" and c.peek(1).v == "self":
                c.next()
                c.next()
                f.self_mode = "valmut"
            else:
                c.accept("id", "mut")
                p = c.expect("id")
                c.expect("op", ":")
                f.params.append((p.v, parse_type(c, self_ty, assoc), p.line))
            if not c.accept("op", ","):
                break
        c.expect("op", ")")
        if c.accept("op", "->"):
            f.ret = parse_type(c, self_ty, assoc)
        else:
            f.ret = ("unit",)
        if c.at_id("where"):
            f.generic = True
            while not (c.at_op("{") or c.at_op(";")):
                c.next()
        f.sig = text_of(self.toks, start, c.i)
        if c.accept("op", ";"):
            f.body = None
        else:
            f.body = c.skip_balanced()
        return f


def cfg_holds(cfg, config):
    """config: dict feature -> bool.  A function under #[cfg(test)] or an unknown cfg never matches."""
    for cond in cfg:
        if cond[0] == "feature":
            if cond[1] not in config:
                raise Unsupported("cfg on feature %r, which the front-end does not configure" % cond[1])
            if config[cond[1]] != cond[2]:
                return False
        else:
            return False
    return True


def git_blob_hash(data):
    return hashlib.sha1(b"blob %d\0" % len(data) + data).hexdigest()


# ------------------------------------------------------------------------------------------------ expression parser
class N:
    """AST node: kind k, source line, and kind-specific attributes."""

    def __init__(self, k, line, **kw):
        self.k, self.line = k, line
        self.__dict__.update(kw)


BIN_LEVELS = [("||",), ("&&",), ("==", "!=", "<", ">", "<=", ">="), ("|",), ("^",), ("&",), ("<<", ">>"),
              ("+", "-"), ("*", "/", "%")]
ASSIGN_OPS = ("=", "+=", "-=", "*=", "/=", "%=", "^=", "&=", "|=", "<<=", ">>=")


class ExprParser:
    def __init__(self, c, self_ty=None, assoc=None):
        self.c, self.self_ty, self.assoc = c, self_ty, assoc

    def ty(self):
        return parse_type(self.c, self.self_ty, self.assoc)

    # block := '{' stmt* expr? '}'
    def block(self):
        c = self.c
        line = c.expect("op", "{").line
        stmts, tail = [], None
        while not c.at_op("}"):
            if c.accept("op", ";"):
                continue
            if c.at_id("let"):
                stmts.append(self.let())
                continue
            if c.at_id("while"):
                stmts.append(self.while_let())
                continue
            if c.at_id("for") or c.at_id("loop"):
                raise Unsupported("`%s` loop" % c.peek().v, c.peek().line)
            if c.at_id("const") or c.at_id("static") or c.at_id("fn") or c.at_id("struct") or c.at_id("use"):
                raise Unsupported("item `%s` inside a function body" % c.peek().v, c.peek().line)
            e = self.expr()
            if c.at("op") and c.peek().v in ASSIGN_OPS:
                op = c.next()
                if op.v != "=":
                    raise Unsupported("compound assignment `%s`" % op.v, op.line)
                rhs = self.expr()
                c.expect("op", ";")
                stmts.append(N("assign", op.line, lhs=e, rhs=rhs))
                continue
            if c.accept("op", ";"):
                stmts.append(N("expr_stmt", e.line, e=e))
                continue
            if c.at_op("}"):
                tail = e
                break
            if e.k in ("if", "match", "block"):
                stmts.append(N("expr_stmt", e.line, e=e))       # block-like expression statement without ';'
                continue
            raise Unsupported("expected ';' or '}' after expression, found %r" % (c.peek().v,), c.peek().line)
        c.expect("op", "}")
        return N("block", line, stmts=stmts, tail=tail)

    def let(self):
        c = self.c
        line = c.expect("id", "let").line
        if c.accept("op", "("):
            names = []
            while not c.at_op(")"):
                c.accept("id", "mut")
                names.append(c.expect("id").v)
                if not c.accept("op", ","):
                    break
            c.expect("op", ")")
            pat = ("tuple", names)
        else:
            c.accept("id", "mut")
            x = c.next()
            if x.k != "id":
                raise Unsupported("let pattern starting with %r" % (x.v,), x.line)
            if c.at_op("(") or c.at_op("{") or c.at_op("::"):
                raise Unsupported("destructuring let pattern `%s..`" % x.v, x.line)
            pat = ("var", x.v)
        ann = None
        if c.accept("op", ":"):
            ann = self.ty()
        if not c.accept("op", "="):
            raise Unsupported("let without initialiser", line)
        e = self.expr()
        if c.at_id("else"):
            raise Unsupported("let .. else", line)
        c.expect("op", ";")
        return N("let", line, pat=pat, ann=ann, e=e)

    def while_let(self):
        c = self.c
        line = c.expect("id", "while").line
        if not c.accept("id", "let"):
            raise Unsupported("`while` loop (only `while let Some(x) = it.next()` is in the subset)", line)
        c.expect("id", "Some")
        c.expect("op", "(")
        var = c.expect("id").v
        c.expect("op", ")")
        c.expect("op", "=")
        e = self.expr(no_struct=True)
        body = self.block()
        return N("while_let", line, var=var, e=e, body=body)

    def expr(self, no_struct=False):
        c = self.c
        if c.at_id("return"):
            line = c.next().line
            e = None
            if not (c.at_op(";") or c.at_op("}") or c.at_op(",")):
                e = self.expr(no_struct)
            return N("return", line, e=e)
        if c.at_op("|") or c.at_op("||") or c.at_id("move"):
            raise Unsupported("closure", c.peek().line)
        if c.at_id("break") or c.at_id("continue"):
            raise Unsupported("`%s`" % c.peek().v, c.peek().line)
        l = self.binary(0, no_struct)
        if c.at_op("..=") or c.at_op(".."):
            op = c.next()
            if op.v == "..":
                raise Unsupported("half-open range `..`", op.line)
            r = self.binary(0, no_struct)
            return N("range", op.line, lo=l, hi=r)
        return l

    def binary(self, lvl, no_struct):
        if lvl == len(BIN_LEVELS):
            return self.cast(no_struct)
        c = self.c
        l = self.binary(lvl + 1, no_struct)
        while c.at("op") and c.peek().v in BIN_LEVELS[lvl]:
            op = c.next()
            r = self.binary(lvl + 1, no_struct)
            l = N("bin", op.line, op=op.v, l=l, r=r)
            if lvl == 2:
                if c.at("op") and c.peek().v in BIN_LEVELS[2]:
                    raise Unsupported("chained comparison", c.peek().line)
                break
        return l

    def cast(self, no_struct):
        e = self.unary(no_struct)
        while self.c.at_id("as"):
            line = self.c.next().line
            e = N("cast", line, e=e, ty=self.ty())
        return e

    def unary(self, no_struct):
        c = self.c
        x = c.peek()
        if x.k == "op" and x.v in ("!", "-", "*", "&", "&&"):
            c.next()
            if x.v in ("&", "&&"):
                c.accept("id", "mut")
                return N("ref", x.line, e=self.unary(no_struct))
            if x.v == "*":
                return N("deref", x.line, e=self.unary(no_struct))
            if x.v == "-":
                raise Unsupported("unary minus (signed arithmetic)", x.line)
            return N("not", x.line, e=self.unary(no_struct))
        return self.postfix(no_struct)

    def args(self):
        c = self.c
        c.expect("op", "(")
        out = []
        while not c.at_op(")"):
            out.append(self.expr())
            if not c.accept("op", ","):
                break
        c.expect("op", ")")
        return out

    def postfix(self, no_struct):
        c = self.c
        e = self.primary(no_struct)
        while True:
            if c.at_op("."):
                line = c.next().line
                x = c.next()
                if x.k == "int":
                    e = N("field", line, e=e, name=str(x.v[0]))
                elif x.k == "id":
                    if x.v == "await":
                        raise Unsupported(".await", line)
                    if c.at_op("::"):
                        raise Unsupported("turbofish method call .%s::<..>" % x.v, line)
                    if c.at_op("("):
                        e = N("mcall", line, recv=e, name=x.v, args=self.args())
                    else:
                        e = N("field", line, e=e, name=x.v)
                else:
                    raise Unsupported("unexpected %r after '.'" % (x.v,), line)
            elif c.at_op("["):
                line = c.next().line
                i = self.expr()
                c.expect("op", "]")
                e = N("index", line, e=e, i=i)
            elif c.at_op("?"):
                e = N("try", c.next().line, e=e)
            elif c.at_op("(") and e.k == "path":
                e = N("call", e.line, path=e.path, args=self.args())
            else:
                return e

    def primary(self, no_struct):
        c = self.c
        x = c.next()
        if x.k == "int":
            return N("int", x.line, v=x.v[0], suffix=x.v[1])
        if x.k in ("str", "char"):
            raise Unsupported("string / char literal", x.line)
        if x.k == "op" and x.v == "(":
            if c.accept("op", ")"):
                return N("unit", x.line)
            es = [self.expr()]
            tup = False
            while c.accept("op", ","):
                tup = True
                if c.at_op(")"):
                    break
                es.append(self.expr())
            c.expect("op", ")")
            return N("tuple", x.line, es=es) if tup else N("paren", x.line, e=es[0])
        if x.k == "op" and x.v == "[":
            es = []
            while not c.at_op("]"):
                es.append(self.expr())
                if c.at_op(";"):
                    raise Unsupported("array repeat expression [e; n]", x.line)
                if not c.accept("op", ","):
                    break
            c.expect("op", "]")
            return N("array", x.line, es=es)
        if x.k == "op" and x.v == "{":
            c.i -= 1
            return self.block()
        if x.k == "op" and x.v == "<":
            raise Unsupported("qualified path <T as Trait>::..", x.line)
        if x.k != "id":
            raise Unsupported("unexpected token %r in expression" % (x.v,), x.line)
        if x.v == "if":
            if c.at_id("let"):
                raise Unsupported("if let", x.line)
            cond = self.expr(no_struct=True)
            then = self.block()
            els = None
            if c.accept("id", "else"):
                if c.at_id("if"):
                    els = self.expr()
                    els = N("block", els.line, stmts=[], tail=els)
                else:
                    els = self.block()
            return N("if", x.line, c=cond, t=then, e=els)
        if x.v == "match":
            scrut = self.expr(no_struct=True)
            c.expect("op", "{")
            arms = []
            while not c.at_op("}"):
                pats = [self.pattern()]
                while c.accept("op", "|"):
                    pats.append(self.pattern())
                if c.at_id("if"):
                    raise Unsupported("match guard", c.peek().line)
                line = c.expect("op", "=>").line
                body = self.expr()
                arms.append((pats, body, line))
                if not c.accept("op", ","):
                    if not c.at_op("}") and body.k not in ("block", "if", "match"):
                        raise Unsupported("expected ',' between match arms", c.peek().line)
            c.expect("op", "}")
            return N("match", x.line, scrut=scrut, arms=arms)
        if x.v in ("unsafe", "async", "loop", "for", "while"):
            raise Unsupported("`%s` expression" % x.v, x.line)
        if x.v in ("true", "false"):
            return N("bool", x.line, v=(x.v == "true"))
        path = [x.v]
        while c.at_op("::"):
            c.next()
            if c.at_op("<"):
                raise Unsupported("turbofish / generic arguments in a path", x.line)
            path.append(c.expect("id").v)
        if c.at_op("!"):
            c.next()
            a, b = c.skip_balanced()
            sub = Cursor(c.t, a, b)
            ep = ExprParser(sub, self.self_ty, self.assoc)
            name = "::".join(path)
            if name in ("assert", "debug_assert"):
                cond = ep.expr()
                return N("assert", x.line, e=cond)          # a message after ',' is irrelevant to behaviour
            if name == "matches":
                scrut = ep.expr()
                sub.expect("op", ",")
                pats = [ep.pattern()]
                while sub.accept("op", "|"):
                    pats.append(ep.pattern())
                if not sub.at("eof"):
                    raise Unsupported("matches! with a guard", x.line)
                return N("match", x.line, scrut=scrut,
                         arms=[(pats, N("bool", x.line, v=True), x.line),
                               ([("wild",)], N("bool", x.line, v=False), x.line)])
            raise Unsupported("macro %s!" % name, x.line)
        if c.at_op("{") and not no_struct and (path[-1][0].isupper()):
            c.next()
            fields = []
            while not c.at_op("}"):
                if c.at_op(".."):
                    raise Unsupported("struct update syntax ..base", c.peek().line)
                f = c.expect("id")
                if c.accept("op", ":"):
                    fields.append((f.v, self.expr()))
                else:
                    fields.append((f.v, N("path", f.line, path=[f.v])))
                if not c.accept("op", ","):
                    break
            c.expect("op", "}")
            return N("struct", x.line, path=path, fields=fields)
        return N("path", x.line, path=path)

    def pattern(self):
        c = self.c
        x = c.next()
        if x.k == "int":
            if c.at_op("..=") or c.at_op(".."):
                raise Unsupported("range pattern", x.line)
            return ("int", x.v[0], x.v[1], x.line)
        if x.k == "id" and x.v == "_":
            return ("wild",)
        if x.k == "id":
            path = [x.v]
            while c.accept("op", "::"):
                path.append(c.expect("id").v)
            if c.at_op("(") or c.at_op("{"):
                raise Unsupported("pattern with fields `%s(..)`" % "::".join(path), x.line)
            if c.at_op("@"):
                raise Unsupported("binding pattern @", x.line)
            if len(path) == 1 and not path[0][0].isupper():
                return ("bind", path[0], x.line)
            return ("path", path, x.line)
        raise Unsupported("unsupported pattern starting with %r" % (x.v,), x.line)


# ------------------------------------------------------------------------------------------------ translation
COQ_KEYWORDS = {"as", "at", "cofix", "else", "end", "exists", "exists2", "fix", "for", "forall", "fun", "if", "IF",
                "in", "let", "match", "mod", "Prop", "return", "Set", "then", "Type", "using", "where", "with", "do",
                "fuel", "S", "O", "Ok", "Err", "Panic", "OutOfFuel", "Some", "None", "true", "false", "nil", "cons",
                "fst", "snd", "length", "tt", "negb", "andb", "orb", "xorb"}


def _prelude_names():
    """Global names the generated terms use (Model/RsSem.v, Model/Base.v): a Rust local of the same name is renamed."""
    names = set()
    base = os.path.join(os.path.dirname(os.path.dirname(os.path.abspath(__file__))), "coq", "Model")
    for f in ("RsSem.v", "Base.v"):
        try:
            txt = open(os.path.join(base, f)).read()
        except OSError:
            raise Unsupported("cannot read coq/Model/%s (needed for the list of reserved names)" % f)
        names |= set(re.findall(r"^\s*(?:Definition|Fixpoint|Inductive|Notation|Lemma)\s+([A-Za-z_][A-Za-z0-9_']*)", txt, re.M))
        names |= set(re.findall(r"^\|\s*([A-Za-z_][A-Za-z0-9_']*)", txt, re.M))
    return names | {"Z", "N", "nat", "list", "bool", "option", "unit", "map", "nth", "fold_left", "app", "rev", "pair",
                    "Bool", "Nat", "Pos", "positive", "comparison", "Eq", "Lt", "Gt", "xH", "xO", "xI", "id", "eq"}


RESERVED = None


def cid(name):
    global RESERVED
    if RESERVED is None:
        RESERVED = _prelude_names() | COQ_KEYWORDS
    if name in RESERVED or name.startswith("g_") or name.startswith("mk_g_") or name[:1].isupper():
        return name + "_"
    return name


class Code:
    """binders: list of ('let', pattern, term) / ('do', name, computation); term: Coq term; ty: Rust type.
    mon = False: term has the Coq type of ty (for a Result type that is `result T`).
    mon = True : ty is not a Result type and term is a computation of type `result (coq ty)`."""

    def __init__(self, binders, term, ty, mon=False):
        self.binders, self.term, self.ty, self.mon = binders, term, ty, mon

    def has_do(self):
        return any(b[0] == "do" for b in self.binders)


def render(binders, final, ind):
    pad = " " * ind
    out = []
    for b in binders:
        if b[0] == "let":
            out.append("%slet %s := %s in" % (pad, b[1], b[2]))
        else:
            out.append("%sdo %s <- %s;" % (pad, b[1], b[2]))
    out.append(pad + final)
    return "\n".join(out)


def is_result(t):
    return t is not None and t[0] == "result"


class FnInfo:
    def __init__(self, coq, f, self_ty, ptypes, ret, monadic):
        self.coq, self.f, self.self_ty, self.ptypes, self.ret, self.monadic = coq, f, self_ty, ptypes, ret, monadic


class Translator:
    def __init__(self, modules, config=None, suffix=""):
        """modules: list of Module (all are searched for struct / enum declarations); config: feature -> bool."""
        self.mods, self.config, self.suffix = modules, config or {}, suffix
        self.reg = {}
        self.out = []            # emitted vernacular, in order
        self.notes = []          # remarks copied into the header (instantiations, encodings)
        self.emitted_adts = set()
        self.first_fn = 0        # functions are numbered first_fn+1, .. in translation order; site = 100 * number + k

    # ---------------------------------------------------------------- declarations
    def adt(self, name, line=None):
        for m in self.mods:
            if name in m.structs:
                return ("struct", m.structs[name], m)
            if name in m.enums:
                return ("enum", m.enums[name], m)
        raise Unsupported("type %s is not declared in the translated sources" % name, line)

    def newtype_field(self, t):
        """For ('adt', S) with S a one-field tuple struct: the field type, else None."""
        if t[0] != "adt":
            return None
        kind, d, _ = self.adt(t[1])
        if kind == "struct" and d["kind"] == "tuple" and len(d["fields"]) == 1:
            return d["fields"][0][1]
        return None

    def coq_type(self, t, line=None):
        k = t[0]
        if k == "u":
            return "Z"
        if k == "bool":
            return "bool"
        if k == "unit":
            return "unit"
        if k in ("arr", "iter"):
            if t[1][0] != "u":
                raise Unsupported("array / iterator of non-integers %s" % show_type(t), line)
            return "(list Z)"
        if k == "tup":
            if len(t[1]) != 2:
                raise Unsupported("tuple of %d components" % len(t[1]), line)
            return "(%s * %s)" % (self.coq_type(t[1][0], line), self.coq_type(t[1][1], line))
        if k == "range":
            return "(%s * %s)" % (self.coq_type(t[1], line), self.coq_type(t[1], line))
        if k == "option":
            return "(option %s)" % self.coq_type(t[1], line)
        if k == "result":
            return "(result %s)" % self.coq_type(t[1], line)
        if k == "into":
            return self.coq_type(t[1], line)
        if k == "adt":
            nf = self.newtype_field(t)
            if nf is not None:
                return self.coq_type(nf, line)
            kind, d, _ = self.adt(t[1], line)
            if kind == "struct" and d["kind"] == "record":
                if t[1] not in self.emitted_adts:
                    raise Unsupported("struct %s used before the front-end emitted it" % t[1], line)
                return "g_" + t[1]
            if kind == "enum" and d["fieldless"]:
                if t[1] not in self.emitted_adts:
                    raise Unsupported("enum %s used before the front-end emitted it" % t[1], line)
                return "g_" + t[1]
            raise Unsupported("type %s (not a newtype, a record or a fieldless enum)" % t[1], line)
        raise Unsupported("type %s" % show_type(t), line)

    def emit_adt(self, name):
        kind, d, m = self.adt(name)
        src = os.path.basename(m.path)
        if kind == "struct" and d["kind"] == "tuple" and len(d["fields"]) == 1:
            self.out.append("(* %s:%d  struct %s(%s): newtype, represented by its field *)"
                            % (src, d["line"], name, show_type(d["fields"][0][1])))
            self.emitted_adts.add(name)
            return
        if kind == "struct" and d["kind"] == "record":
            self.emitted_adts.add(name)
            fs = "; ".join("g_%s_f_%s : %s" % (name, f, self.coq_type(t, d["line"])) for f, t in d["fields"])
            self.out.append("(* %s:%d  struct %s { %s } *)\nRecord g_%s : Type := mk_g_%s { %s }."
                            % (src, d["line"], name, ", ".join("%s: %s" % (f, show_type(t)) for f, t in d["fields"]),
                               name, name, fs))
            if "PartialEq" in d["derives"]:
                conj = " && ".join(self.eqb(t, "(g_%s_f_%s a)" % (name, f), "(g_%s_f_%s b)" % (name, f), d["line"])
                                   for f, t in d["fields"])
                self.out.append("(* #[derive(PartialEq)]: field by field *)\nDefinition g_%s_eqb (a b : g_%s) : bool :=\n  %s."
                                % (name, name, conj))
            return
        if kind == "enum" and d["fieldless"]:
            self.emitted_adts.add(name)
            vs = [v for v, _ in d["variants"]]
            self.out.append("(* %s:%d  enum %s, variants in declaration order (lines %s) *)\nInductive g_%s : Type :=\n%s."
                            % (src, d["line"], name, ", ".join(str(l) for _, l in d["variants"]), name,
                               "\n".join("| g_%s_%s" % (name, v) for v in vs)))
            self.out.append("(* discriminant: position in the declaration *)\nDefinition g_%s_index (x : g_%s) : Z :=\n  match x with\n%s\n  end."
                            % (name, name, "\n".join("  | g_%s_%s => %d" % (name, v, i) for i, v in enumerate(vs))))
            self.out.append("Definition g_%s_all : list g_%s :=\n  [%s]."
                            % (name, name, "; ".join("g_%s_%s" % (name, v) for v in vs)))
            if "PartialEq" in d["derives"]:
                self.out.append("(* #[derive(PartialEq)] on a fieldless enum: equality of discriminants *)\n"
                                "Definition g_%s_eqb (a b : g_%s) : bool :=\n  g_%s_index a =? g_%s_index b."
                                % (name, name, name, name))
            return
        raise Unsupported("%s %s: only newtypes, records and fieldless enums are in the subset" % (kind, name), d["line"])

    # derived comparisons
    def eqb(self, t, a, b, line):
        k = t[0]
        if k == "u":
            return "(%s =? %s)" % (a, b)
        if k == "bool":
            return "(Bool.eqb %s %s)" % (a, b)
        if k == "arr" and t[1][0] == "u":
            return "(list_eqb %s %s)" % (a, b)
        if k in ("tup", "range"):
            ts = t[1] if k == "tup" else (t[1], t[1])
            if len(ts) != 2:
                raise Unsupported("== on a tuple of %d components" % len(ts), line)
            return "(%s && %s)" % (self.eqb(ts[0], "(fst %s)" % a, "(fst %s)" % b, line),
                                   self.eqb(ts[1], "(snd %s)" % a, "(snd %s)" % b, line))
        if k == "adt":
            kind, d, _ = self.adt(t[1], line)
            if "PartialEq" not in d["derives"]:
                raise Unsupported("== on %s, which does not derive PartialEq (hand-written impls are not translated)" % t[1], line)
            nf = self.newtype_field(t)
            if nf is not None:
                return self.eqb(nf, a, b, line)
            self.coq_type(t, line)
            return "(g_%s_eqb %s %s)" % (t[1], a, b)
        raise Unsupported("== on %s" % show_type(t), line)

    def leb(self, t, a, b, line, strict=False):
        k = t[0]
        if k == "u":
            return "(%s %s %s)" % (a, "<?" if strict else "<=?", b)
        if k == "arr" and t[1][0] == "u":
            return "(%s %s %s)" % ("lex_ltb" if strict else "lex_leb", a, b)
        if k == "adt":
            kind, d, _ = self.adt(t[1], line)
            if "PartialOrd" not in d["derives"]:
                raise Unsupported("ordering on %s, which does not derive PartialOrd" % t[1], line)
            nf = self.newtype_field(t)
            if nf is not None:
                return self.leb(nf, a, b, line, strict)
        raise Unsupported("ordering on %s" % show_type(t), line)

    # ---------------------------------------------------------------- functions
    def find_fn(self, mod, impl_type=None, trait=None, name=None):
        """impl_type: type name of an inherent impl, or None for a free fn; trait: (TraitName, argtype, fortype) as
        type tuples for a trait impl."""
        cands = []
        if trait is not None:
            for im in mod.impls:
                if im.trait and im.trait[0] == trait[0] and im.trait[1] == (trait[1],) and im.for_ty == trait[2]:
                    cands += [f for f in im.fns if f.name == name]
        elif impl_type is not None:
            for im in mod.impls:
                if im.trait is None and im.for_ty == ("adt", impl_type):
                    cands += [f for f in im.fns if f.name == name]
        else:
            cands = [f for f in mod.fns if f.name == name]
        live = [f for f in cands if cfg_holds(f.cfg, self.config)]
        what = "%s%s" % ((impl_type + "::") if impl_type else ("<%s for %s>::" % (trait[0], show_type(trait[2]))) if trait else "", name)
        if not live:
            raise Unsupported("function %s not found in %s under configuration %s" % (what, os.path.basename(mod.path), self.config))
        if len(live) > 1:
            raise Unsupported("function %s defined %d times under configuration %s" % (what, len(live), self.config), live[1].line)
        return live[0]

    def key_of(self, f):
        im = f.owner
        if im is None:
            return ("free", f.name)
        if im.trait is None:
            return ("inh", type_name(im.for_ty), f.name)
        if len(im.trait[1]) != 1:
            raise Unsupported("trait impl %s with %d type arguments" % (im.trait[0], len(im.trait[1])), f.line)
        return ("trait", im.trait[0], type_name(im.trait[1][0]), type_name(im.for_ty), f.name)

    def coq_name(self, key):
        if key[0] == "free":
            base = "g_" + key[1]
        elif key[0] == "inh":
            base = "g_%s_%s" % (key[1], key[2])
        else:
            base = "g_%s_%s_%s" % (key[3], key[4], key[2])
        return base + self.suffix

    def translate(self, mod, impl_type=None, trait=None, name=None):
        f = self.find_fn(mod, impl_type, trait, name)
        key = self.key_of(f)
        if key in self.reg:
            return self.reg[key]
        if f.generic:
            raise Unsupported("generic function %s" % f.name, f.line)
        if f.body is None:
            raise Unsupported("function %s without a body" % f.name, f.line)
        for q in f.quals:
            if q != "const":
                raise Unsupported("`%s fn`" % q, f.line)
        self.fn_count = getattr(self, "fn_count", self.first_fn) + 1
        try:
            FnTr(self, mod, f, key).run()
        except Unsupported as e:
            if not getattr(e, "located", False):
                e.msg = "%s, fn %s: %s" % (os.path.basename(mod.path), f.name, e.msg)
                e.located = True
                e.args = (e.msg,)
            raise
        return self.reg[key]


class FnTr:
    """Translation of one function body."""

    def __init__(self, tr, mod, f, key):
        self.tr, self.mod, self.f, self.key = tr, mod, f, key
        self.coq = tr.coq_name(key)
        self.sites, self.tmp, self.loops = 0, 0, 0
        self.cond_depth = 0
        self.aux = []
        self.site_lines = []
        self.self_ty = f.owner.for_ty if f.owner else None

    def site(self, line, what):
        self.sites += 1
        if self.sites > 99:
            raise Unsupported("more than 99 panic sites in one function", line)
        n = 100 * self.tr.fn_count + self.sites
        self.site_lines.append("site %d = l.%d %s" % (n, line, what))
        return n

    def fresh(self, env):
        while True:
            self.tmp += 1
            v = "_t%d" % self.tmp
            if v not in env:
                return v

    def run(self):
        f, tr = self.f, self.tr
        if f.self_mode in ("mut",) and f.ret != ("unit",):
            raise Unsupported("&mut self method %s with a return value" % f.name, f.line)
        env, params = {}, []
        if f.self_mode:
            env["self"] = self.self_ty
            params.append(("self", self.self_ty))
        for p, t, line in f.params:
            if t[0] == "into":
                tr.notes.append("%s: `%s: %s` instantiated at %s (x.into() is then std's reflexive From, the identity)"
                                % (self.coq, p, show_type(t), show_type(t[1])))
                t = t[1]
            if t[0] == "unk":
                raise Unsupported("parameter %s of type %s" % (p, t[1]), line)
            if p in ("fuel",) or re.match(r"_t\d+$", p):
                raise Unsupported("identifier %s clashes with a generated name" % p, line)
            env[p] = t
            params.append((p, t))
        self.params = params
        self.ret = f.ret
        if self.ret[0] == "unk":
            raise Unsupported("return type %s" % self.ret[1], f.line)
        c = Cursor(self.mod.toks, f.body[0] - 1, f.body[1] + 1)
        ast = ExprParser(c, self.self_ty, f.owner.assoc if f.owner else None).block()
        mut_self = f.self_mode == "mut"
        code = self.stmts(ast.stmts, ast.tail, env, None if mut_self else self.ret, top=True, mut_self=mut_self)
        ret = self.self_ty if mut_self else self.ret
        if ret != ("unit",) or True:
            self.unify(code.ty, ret, f.line, "body of %s" % f.name)
        monadic = code.mon or code.has_do() or is_result(ret)
        vt = ret[1] if is_result(ret) else ret
        if monadic:
            body = self.comp(code, 2)
            rty = "result %s" % tr.coq_type(vt, f.line)
        else:
            body = render(code.binders, code.term, 2)
            rty = tr.coq_type(vt, f.line)
        ps = " ".join("(%s : %s)" % (cid(p), tr.coq_type(t, f.line)) for p, t in params)
        hdr = "(* %s:%d  %s" % (os.path.basename(self.mod.path), f.line, f.sig)
        if mut_self:
            hdr += "   [&mut self: returns the new self]"
        for s in self.site_lines:
            hdr += "\n   " + s
        hdr += " *)"
        tr.out.extend(self.aux)
        tr.out.append("%s\nDefinition %s%s : %s :=\n%s." % (hdr, self.coq, (" " + ps) if ps else "", rty, body))
        tr.reg[self.key] = FnInfo(self.coq, f, self.self_ty if f.self_mode else None, [t for _, t in params if _ != "self"],
                                  ret if not mut_self else ("unit",), monadic)
        tr.reg[self.key].mut_self = mut_self

    # computation rendering: a Coq term of type `result V`
    def comp(self, code, ind):
        if is_result(code.ty) or code.mon:
            return render(code.binders, code.term, ind)
        return render(code.binders, "Ok %s" % code.term, ind)

    def force(self, code, env):
        if not code.mon:
            return code
        v = self.fresh(env)
        return Code(code.binders + [("do", v, code.term)], v, code.ty)

    def unify(self, got, want, line, what):
        if want is None or got is None:
            return got or want
        if got == want:
            return got
        if got[0] == "into":
            return self.unify(got[1], want, line, what)
        if is_result(got) and is_result(want):
            t = self.unify(got[1], want[1], line, what)
            e = self.unify(got[2], want[2], line, what)
            return ("result", t, e)
        if got[0] == "option" and want[0] == "option":
            return ("option", self.unify(got[1], want[1], line, what))
        raise Unsupported("type mismatch in %s: %s where %s is expected" % (what, show_type(got), show_type(want)), line)

    # ---------------------------------------------------------------- statements
    def stmts(self, stmts, tail, env, expect, top=False, mut_self=False):
        """A statement list followed by an optional tail expression.  top: the function body (early `return` and the
        while-let loop are only accepted there).  mut_self: the value of the list is the final `self`."""
        env = dict(env)
        binders = []
        for idx, s in enumerate(stmts):
            last = idx == len(stmts) - 1
            if s.k == "let":
                if s.pat[0] == "var":
                    want = s.ann
                    c = self.val(s.e, env, want)
                    if is_result(c.ty):
                        raise Unsupported("binding a Result value with let (consume it with `?`)", s.line)
                    if c.ty == ("unit",):
                        raise Unsupported("binding a unit value", s.line)
                    binders += c.binders
                    binders.append(("let", cid(s.pat[1]), c.term))
                    env[s.pat[1]] = c.ty
                else:
                    c = self.val(s.e, env, s.ann)
                    if c.ty[0] != "tup" or len(c.ty[1]) != len(s.pat[1]) or len(s.pat[1]) != 2:
                        raise Unsupported("tuple pattern against %s" % show_type(c.ty), s.line)
                    binders += c.binders
                    binders.append(("let", "'(%s)" % ", ".join(cid(n) for n in s.pat[1]), c.term))
                    for n, t in zip(s.pat[1], c.ty[1]):
                        env[n] = t
                continue
            if s.k == "assign":
                binders += self.assign(s, env)
                continue
            if s.k == "while_let":
                if not (top and last and tail is None and mut_self):
                    raise Unsupported("while-let loop that is not the last statement of a `&mut self` function", s.line)
                binders += self.while_let(s, env)
                continue
            if s.k == "expr_stmt":
                e = s.e
                if e.k == "assert":
                    c = self.val(e.e, env, ("bool",))
                    binders += c.binders
                    binders.append(("do", self.fresh(env), "ck_assert %d %s" % (self.site(e.line, "assert!"), c.term)))
                    continue
                if e.k == "mcall" and self.is_self_mut_call(e, env):
                    binders += self.self_mut_call(e, env)
                    continue
                if e.k == "return":
                    if not top or not last or tail is not None:
                        raise Unsupported("`return` that is not the last statement of the function body", e.line)
                    tail = e.e
                    break
                if e.k == "if" and e.e is None and self.ends_in_return(e.t):
                    # if c { ..; return r; } rest   ==>   if c then {..; r} else {rest}
                    if not top:
                        raise Unsupported("early return inside a nested block", e.line)
                    c = self.val(e.c, env, ("bool",))
                    inner = e.t.stmts[:-1]
                    rexp = e.t.stmts[-1].e.e
                    self.cond_depth += 1
                    a = self.stmts(inner, rexp, env, self.ret)
                    b = self.stmts(stmts[idx + 1:], tail, env, expect, top=True, mut_self=mut_self)
                    self.cond_depth -= 1
                    if mut_self:
                        raise Unsupported("early return in a &mut self function", e.line)
                    ty = self.unify(a.ty, b.ty, e.line, "early return")
                    return self.branch(binders + c.binders, "if %s then" % c.term, [("", a), ("else", b)], ty)
                raise Unsupported("expression statement whose value is dropped (%s)" % e.k, e.line)
            raise Unsupported("statement %s" % s.k, s.line)
        if mut_self:
            if tail is not None:
                raise Unsupported("tail expression in a &mut self function returning ()", tail.line)
            return Code(binders, "self", env["self"])
        if tail is None:
            return Code(binders, "tt", ("unit",))
        c = self.expr(tail, env, expect)
        return Code(binders + c.binders, c.term, c.ty, c.mon)

    def ends_in_return(self, blk):
        return blk.tail is None and blk.stmts and blk.stmts[-1].k == "expr_stmt" and blk.stmts[-1].e.k == "return" \
            and blk.stmts[-1].e.e is not None

    def branch(self, binders, head, arms, ty):
        """if/match with arms = [(label, Code)]: pure when every arm is pure, else a computation."""
        pure = all(not a.mon and not a.has_do() for _, a in arms) and not is_result(ty)
        if pure or (is_result(ty) and False):
            parts = [head]
            for lab, a in arms:
                if lab:
                    parts.append(lab)
                parts.append(render(a.binders, a.term, 2))
            return Code(binders, "(" + "\n".join(parts) + ")", ty)
        parts = [head]
        for lab, a in arms:
            if lab:
                parts.append(lab)
            a2 = Code(a.binders, a.term, a.ty if not is_result(ty) else ty, a.mon)
            parts.append("  (" + self.comp(a2, 3).lstrip() + ")")
        term = "(" + "\n".join(parts) + ")"
        if is_result(ty):
            return Code(binders, term, ty)
        return Code(binders, term, ty, mon=True)

    def is_self_mut_call(self, e, env):
        if e.recv.k == "path" and e.recv.path == ["self"] and self.f.self_mode == "mut":
            info = self.lookup_method(env["self"], e.name, e.line, soft=True)
            return info is not None and getattr(info, "mut_self", False)
        return False

    def self_mut_call(self, e, env):
        info = self.lookup_method(env["self"], e.name, e.line)
        bs, args = self.args(e.args, info.ptypes, env, e.line, e.name)
        call = "%s self%s" % (info.coq, "".join(" " + a for a in args))
        if self.cond_depth:
            raise Unsupported("mutation of self inside a conditional branch", e.line)
        return bs + [("do" if info.monadic else "let", "self", call)]

    def assign(self, s, env):
        l = s.lhs
        if l.k == "field" and l.e.k == "path" and l.e.path == ["self"] and self.f.self_mode in ("mut", "valmut"):
            if self.cond_depth:
                raise Unsupported("assignment to self inside a conditional branch", s.line)
            st = env["self"]
            nf = self.tr.newtype_field(st)
            if nf is not None and l.name == "0":
                c = self.val(s.rhs, env, nf)
                self.unify(c.ty, nf, s.line, "assignment")
                return c.binders + [("let", "self", c.term)]
            kind, d, _ = self.tr.adt(st[1], s.line)
            if kind == "struct" and d["kind"] == "record":
                fts = dict(d["fields"])
                if l.name not in fts:
                    raise Unsupported("no field %s in %s" % (l.name, st[1]), s.line)
                c = self.val(s.rhs, env, fts[l.name])
                self.unify(c.ty, fts[l.name], s.line, "assignment")
                self.tr.coq_type(st, s.line)
                fields = " ".join(c.term if f == l.name else "(g_%s_f_%s self)" % (st[1], f) for f, _ in d["fields"])
                return c.binders + [("let", "self", "(mk_g_%s %s)" % (st[1], fields))]
        raise Unsupported("assignment to anything but a field of a mutable self", s.line)

    def while_let(self, s, env):
        e = s.e
        if not (e.k == "mcall" and e.name == "next" and not e.args and e.recv.k == "path" and len(e.recv.path) == 1
                and env.get(e.recv.path[0], ("none",))[0] == "iter"):
            raise Unsupported("while let Some(..) = <not `it.next()` on an iterator argument>", s.line)
        it = e.recv.path[0]
        self.loops += 1
        name = "%s_loop%d" % (self.coq, self.loops)
        elem = env[it][1]
        benv = dict(env)
        benv[s.var] = elem
        body = self.stmts(s.body.stmts, s.body.tail, benv, None, top=False, mut_self=True)
        extra = [(p, t) for p, t in self.params if p not in ("self", it)]
        sty = self.tr.coq_type(env["self"], s.line)
        ps = "".join(" (%s : %s)" % (cid(p), self.tr.coq_type(t, s.line)) for p, t in extra)
        rec = "%s fuel%s self %s" % (name, "".join(" " + cid(p) for p, _ in extra), cid(it))
        o = self.fresh(benv)
        lines = ["(* %s:%d  the loop `while let Some(%s) = %s.next()`; state = (self, %s); fuel = items left + 1 *)"
                 % (os.path.basename(self.mod.path), s.line, s.var, it, it),
                 "Fixpoint %s (fuel : nat)%s (self : %s) (%s : list Z) {struct fuel} : result (%s * list Z) :="
                 % (name, ps, sty, cid(it), sty),
                 "  match fuel with", "  | O => OutOfFuel", "  | S fuel =>",
                 "    let '(%s, %s) := iter_next %s in" % (o, cid(it), cid(it)),
                 "    match %s with" % o,
                 "    | None => Ok (self, %s)" % cid(it),
                 "    | Some %s =>" % cid(s.var),
                 render(body.binders, rec, 6),
                 "    end", "  end."]
        self.aux.append("\n".join(lines))
        r = self.fresh(env)
        return [("do", r, "%s (S (length %s))%s self %s" % (name, cid(it), "".join(" " + cid(p) for p, _ in extra), cid(it))),
                ("let", "self", "(fst %s)" % r)]

    # ---------------------------------------------------------------- expressions
    def val(self, e, env, expect=None):
        return self.force(self.expr(e, env, expect), env)

    def args(self, es, ptypes, env, line, what):
        if len(es) != len(ptypes):
            raise Unsupported("call of %s with %d arguments, %d expected" % (what, len(es), len(ptypes)), line)
        bs, terms = [], []
        for a, t in zip(es, ptypes):
            t = t[1] if t[0] == "into" else t
            c = self.val(a, env, t)
            self.unify(c.ty, t, a.line, "argument of %s" % what)
            bs += c.binders
            terms.append(c.term)
        return bs, terms

    def call_info(self, info, binders, terms, env, line):
        call = "(%s%s)" % (info.coq, "".join(" " + t for t in terms)) if terms else info.coq
        if getattr(info, "mut_self", False):
            raise Unsupported("call of the &mut self method %s in expression position" % info.f.name, line)
        ret = info.ret
        if is_result(ret):
            return Code(binders, call, ret)
        if info.monadic:
            v = self.fresh(env)
            return Code(binders + [("do", v, call)], v, ret)
        return Code(binders, call, ret)

    def lookup_method(self, ty, name, line, soft=False):
        if ty[0] == "adt":
            info = self.tr.reg.get(("inh", ty[1], name))
            if info is None and not soft:
                raise Unsupported("method %s::%s is not translated (the front-end must list it before its callers)"
                                  % (ty[1], name), line)
            return info
        if soft:
            return None
        raise Unsupported("method %s on %s" % (name, show_type(ty)), line)

    def untyped_lit(self, e):
        if e.k == "int":
            return e.suffix is None
        if e.k == "paren":
            return self.untyped_lit(e.e)
        if e.k == "not":
            return self.untyped_lit(e.e)
        if e.k == "bin" and e.op in ("+", "-", "*", "/", "%", "&", "|", "^"):
            return self.untyped_lit(e.l) and self.untyped_lit(e.r)
        if e.k == "bin" and e.op in ("<<", ">>"):
            return self.untyped_lit(e.l)
        return False

    def expr(self, e, env, expect=None):
        k = e.k
        m = getattr(self, "e_" + k, None)
        if m is None:
            raise Unsupported("expression form `%s`" % k, e.line)
        return m(e, env, expect)

    def e_paren(self, e, env, expect):
        return self.expr(e.e, env, expect)

    def e_ref(self, e, env, expect):
        return self.expr(e.e, env, expect)          # references erased: values are immutable in the model

    def e_deref(self, e, env, expect):
        return self.expr(e.e, env, expect)

    def e_unit(self, e, env, expect):
        return Code([], "tt", ("unit",))

    def e_bool(self, e, env, expect):
        return Code([], "true" if e.v else "false", ("bool",))

    def e_int(self, e, env, expect):
        if e.suffix:
            if e.suffix not in INT_W:
                raise Unsupported("literal of type %s" % e.suffix, e.line)
            t = ("u", INT_W[e.suffix])
        elif expect is not None and expect[0] == "u":
            t = expect
        else:
            raise Unsupported("cannot determine the type of the literal %d (rustc would pick i32; annotate it)" % e.v, e.line)
        if not 0 <= e.v < 2 ** t[1]:
            raise Unsupported("literal %d out of range for %s" % (e.v, show_type(t)), e.line)
        return Code([], str(e.v), t)

    def e_path(self, e, env, expect):
        p = e.path
        if len(p) == 1:
            if p[0] in env:
                return Code([], cid(p[0]), env[p[0]])
            if p[0] == "None":
                if expect is None or expect[0] != "option":
                    raise Unsupported("None without a known Option type", e.line)
                return Code([], "None", expect)
            raise Unsupported("unknown identifier %s" % p[0], e.line)
        if len(p) == 2:
            tname = p[0]
            if tname == "Self" and self.self_ty and self.self_ty[0] == "adt":
                tname = self.self_ty[1]
            if tname in INT_W and p[1] in ("MAX", "MIN"):
                w = INT_W[tname]
                return Code([], str(2 ** w - 1 if p[1] == "MAX" else 0), ("u", w))
            try:
                kind, d, _ = self.tr.adt(tname, e.line)
            except Unsupported:
                kind = None
            if kind == "enum":
                if p[1] not in [v for v, _ in d["variants"]]:
                    raise Unsupported("enum %s has no variant %s" % (tname, p[1]), e.line)
                if expect is not None and is_result(expect):
                    pass
                self.tr.coq_type(("adt", tname), e.line)
                return Code([], "g_%s_%s" % (tname, p[1]), ("adt", tname))
            raise Unsupported("path %s (associated constants are not translated)" % "::".join(p), e.line)
        raise Unsupported("path %s" % "::".join(p), e.line)

    def e_not(self, e, env, expect):
        c = self.val(e.e, env, expect)
        if c.ty == ("bool",):
            return Code(c.binders, "(negb %s)" % c.term, c.ty)
        if c.ty[0] == "u":
            return Code(c.binders, "(u_not %d %s)" % (c.ty[1], c.term), c.ty)
        raise Unsupported("`!` on %s" % show_type(c.ty), e.line)

    def e_cast(self, e, env, expect):
        to = e.ty
        if to[0] != "u":
            raise Unsupported("cast to %s" % show_type(to), e.line)
        c = self.val(e.e, env, to if self.untyped_lit(e.e) else None)
        if c.ty == ("bool",):
            return Code(c.binders, "(b2u %s)" % c.term, to)
        if c.ty[0] == "u":
            if to[1] >= c.ty[1]:
                return Code(c.binders, c.term, to)
            return Code(c.binders, "(cast_u %d %s)" % (to[1], c.term), to)
        raise Unsupported("cast from %s" % show_type(c.ty), e.line)

    def operands(self, e, env, expect):
        """Both operands of a binary operator whose operands have one common type; evaluation order left to right."""
        if self.untyped_lit(e.l) and (expect is None or expect[0] != "u"):
            if self.untyped_lit(e.r):
                raise Unsupported("cannot determine the type of the literal operands of `%s`" % e.op, e.line)
            r = self.val(e.r, env, None)
            l = self.val(e.l, env, r.ty)
            if l.binders:
                raise Unsupported("literal operand with effects", e.line)
        else:
            l = self.val(e.l, env, expect if (expect and expect[0] == "u") else None)
            r = self.val(e.r, env, l.ty if l.ty[0] == "u" else None)
        return l, r

    def e_bin(self, e, env, expect):
        op = e.op
        if op in ("&&", "||"):
            l = self.val(e.l, env, ("bool",))
            self.cond_depth += 1
            r = self.expr(e.r, env, ("bool",))
            self.cond_depth -= 1
            if l.ty != ("bool",) or r.ty != ("bool",):
                raise Unsupported("`%s` on non-booleans" % op, e.line)
            if not r.mon and not r.has_do():
                rt = render(r.binders, r.term, 0).replace("\n", " ") if r.binders else r.term
                return Code(l.binders, "(%s %s %s)" % (l.term, op, "(%s)" % rt if r.binders else rt), ("bool",))
            # the right operand can panic: keep the short circuit
            rc = "(" + self.comp(r, 4).lstrip() + ")"
            if op == "&&":
                term = "(if %s then\n  %s\nelse Ok false)" % (l.term, rc)
            else:
                term = "(if %s then Ok true else\n  %s)" % (l.term, rc)
            return Code(l.binders, term, ("bool",), mon=True)
        if op in ("==", "!=", "<", ">", "<=", ">="):
            l, r = self.operands(e, env, None)
            t = self.unify(l.ty, r.ty, e.line, "comparison `%s`" % op)
            bs = l.binders + r.binders
            if op == "==":
                return Code(bs, self.tr.eqb(t, l.term, r.term, e.line), ("bool",))
            if op == "!=":
                return Code(bs, "(negb %s)" % self.tr.eqb(t, l.term, r.term, e.line), ("bool",))
            a, b = (l.term, r.term) if op in ("<", "<=") else (r.term, l.term)
            return Code(bs, self.tr.leb(t, a, b, e.line, strict=op in ("<", ">")), ("bool",))
        if op in ("<<", ">>"):
            l = self.val(e.l, env, expect if (expect and expect[0] == "u") else None)
            if l.ty[0] != "u":
                raise Unsupported("shift of %s" % show_type(l.ty), e.line)
            w = l.ty[1]
            lit = e.r
            while lit.k == "paren":
                lit = lit.e
            if lit.k == "int":
                if lit.v >= w:
                    raise Unsupported("shift by the literal %d >= width %d (rustc rejects it)" % (lit.v, w), e.line)
                t = "(shl_k %d %s %d)" % (w, l.term, lit.v) if op == "<<" else "(shr_k %s %d)" % (l.term, lit.v)
                return Code(l.binders, t, l.ty)
            r = self.val(e.r, env, None)
            if r.ty[0] != "u":
                raise Unsupported("shift amount of type %s" % show_type(r.ty), e.line)
            v = self.fresh(env)
            fn = "ck_shl" if op == "<<" else "ck_shr"
            s = self.site(e.line, "`%s` amount >= %d" % (op, w))
            return Code(l.binders + r.binders + [("do", v, "%s %d %d %s %s" % (fn, w, s, l.term, r.term))], v, l.ty)
        l, r = self.operands(e, env, expect)
        t = self.unify(l.ty, r.ty, e.line, "operator `%s`" % op)
        bs = l.binders + r.binders
        if t == ("bool",) and op in ("&", "|", "^"):
            f = {"&": "andb", "|": "orb", "^": "xorb"}[op]
            return Code(bs, "(%s %s %s)" % (f, l.term, r.term), t)
        if t[0] != "u":
            raise Unsupported("operator `%s` on %s" % (op, show_type(t)), e.line)
        w = t[1]
        if op in ("&", "|", "^"):
            f = {"&": "Z.land", "|": "Z.lor", "^": "Z.lxor"}[op]
            return Code(bs, "(%s %s %s)" % (f, l.term, r.term), t)
        v = self.fresh(env)
        if op in ("+", "-", "*"):
            fn = {"+": "ck_add", "-": "ck_sub", "*": "ck_mul"}[op]
            s = self.site(e.line, "`%s` on %s overflows" % (op, show_type(t)))
            return Code(bs + [("do", v, "%s %d %d %s %s" % (fn, w, s, l.term, r.term))], v, t)
        if op in ("/", "%"):
            lit = e.r
            while lit.k == "paren":
                lit = lit.e
            if lit.k == "int" and lit.v != 0:
                return Code(bs, "(%s %s %s)" % (l.term, "/" if op == "/" else "mod", r.term), t)
            fn = "ck_udiv" if op == "/" else "ck_urem"
            s = self.site(e.line, "`%s` by zero" % op)
            return Code(bs + [("do", v, "%s %d %s %s" % (fn, s, l.term, r.term))], v, t)
        raise Unsupported("operator `%s`" % op, e.line)

    def e_range(self, e, env, expect):
        want = expect[1] if expect and expect[0] == "range" else None
        lo = self.val(e.lo, env, want)
        hi = self.val(e.hi, env, lo.ty)
        t = self.unify(lo.ty, hi.ty, e.line, "range")
        return Code(lo.binders + hi.binders, "(%s, %s)" % (lo.term, hi.term), ("range", t))

    def e_tuple(self, e, env, expect):
        if len(e.es) != 2:
            raise Unsupported("tuple of %d components" % len(e.es), e.line)
        want = expect[1] if expect and expect[0] == "tup" and len(expect[1]) == 2 else (None, None)
        a = self.val(e.es[0], env, want[0])
        b = self.val(e.es[1], env, want[1])
        return Code(a.binders + b.binders, "(%s, %s)" % (a.term, b.term), ("tup", (a.ty, b.ty)))

    def e_array(self, e, env, expect):
        want = expect[1] if expect and expect[0] == "arr" else None
        bs, ts, ty = [], [], want
        for x in e.es:
            if ty is None and self.untyped_lit(x):
                continue
            c = self.val(x, env, ty)
            ty = self.unify(c.ty, ty, x.line, "array element")
        if ty is None:
            raise Unsupported("cannot determine the element type of the array literal", e.line)
        for x in e.es:
            c = self.val(x, env, ty)
            self.unify(c.ty, ty, x.line, "array element")
            bs += c.binders
            ts.append(c.term)
        if ty[0] != "u":
            raise Unsupported("array of %s" % show_type(ty), e.line)
        return Code(bs, "[%s]" % "; ".join(ts), ("arr", ty, len(ts)))

    def e_index(self, e, env, expect):
        a = self.val(e.e, env, None)
        if a.ty[0] != "arr":
            raise Unsupported("indexing %s" % show_type(a.ty), e.line)
        i = e.i
        while i.k == "paren":
            i = i.e
        if i.k == "int":
            if i.v >= a.ty[2]:
                raise Unsupported("constant index %d out of bounds of %s" % (i.v, show_type(a.ty)), e.line)
            return Code(a.binders, "(arr_get %s %d%%nat)" % (a.term, i.v), a.ty[1])
        ic = self.val(e.i, env, ("u", 64))
        v = self.fresh(env)
        s = self.site(e.line, "index out of bounds")
        return Code(a.binders + ic.binders + [("do", v, "ck_get %d %s %s" % (s, a.term, ic.term))], v, a.ty[1])

    def e_field(self, e, env, expect):
        c = self.val(e.e, env, None)
        t = c.ty
        if t[0] == "tup" and e.name in ("0", "1") and len(t[1]) == 2:
            return Code(c.binders, "(%s %s)" % ("fst" if e.name == "0" else "snd", c.term), t[1][int(e.name)])
        if t[0] == "adt":
            nf = self.tr.newtype_field(t)
            if nf is not None:
                if e.name != "0":
                    raise Unsupported("field %s of the newtype %s" % (e.name, t[1]), e.line)
                return Code(c.binders, c.term, nf)
            kind, d, _ = self.tr.adt(t[1], e.line)
            if kind == "struct" and d["kind"] == "record":
                fts = dict(d["fields"])
                if e.name not in fts:
                    raise Unsupported("no field %s in %s" % (e.name, t[1]), e.line)
                self.tr.coq_type(t, e.line)
                return Code(c.binders, "(g_%s_f_%s %s)" % (t[1], e.name, c.term), fts[e.name])
        raise Unsupported("field access .%s on %s" % (e.name, show_type(t)), e.line)

    def e_struct(self, e, env, expect):
        name = e.path[-1]
        if name == "Self" and self.self_ty and self.self_ty[0] == "adt":
            name = self.self_ty[1]
        if len(e.path) != 1:
            raise Unsupported("struct literal with a qualified path", e.line)
        kind, d, _ = self.tr.adt(name, e.line)
        if kind != "struct" or d["kind"] != "record":
            raise Unsupported("struct literal of %s" % name, e.line)
        fts = dict(d["fields"])
        given, bs = {}, []
        for f, x in e.fields:
            if f not in fts or f in given:
                raise Unsupported("field %s in the literal of %s" % (f, name), e.line)
            c = self.val(x, env, fts[f])
            self.unify(c.ty, fts[f], x.line, "field %s" % f)
            bs += c.binders
            given[f] = c.term
        if set(given) != set(fts):
            raise Unsupported("struct literal of %s does not give every field" % name, e.line)
        self.tr.coq_type(("adt", name), e.line)
        return Code(bs, "(mk_g_%s %s)" % (name, " ".join(given[f] for f, _ in d["fields"])), ("adt", name))

    def e_block(self, e, env, expect):
        c = self.stmts(e.stmts, e.tail, env, expect)
        if not c.binders:
            return c
        if c.mon or c.has_do():
            return Code([], "(" + self.comp(c, 2).lstrip() + ")", c.ty, mon=not is_result(c.ty))
        return Code([], "(" + render(c.binders, c.term, 2).lstrip() + ")", c.ty)

    def e_if(self, e, env, expect):
        c = self.val(e.c, env, ("bool",))
        if c.ty != ("bool",):
            raise Unsupported("condition of type %s" % show_type(c.ty), e.line)
        if e.e is None:
            raise Unsupported("`if` without `else` in expression position", e.line)
        self.cond_depth += 1
        a = self.stmts(e.t.stmts, e.t.tail, env, expect)
        b = self.stmts(e.e.stmts, e.e.tail, env, expect or a.ty)
        self.cond_depth -= 1
        ty = self.unify(a.ty, b.ty, e.line, "branches of `if`")
        return self.branch(c.binders, "if %s then" % c.term, [("", a), ("else", b)], ty)

    def e_match(self, e, env, expect):
        s = self.val(e.scrut, env, None)
        if s.ty[0] == "u":
            return self.match_int(e, s, env, expect)
        if s.ty[0] == "adt":
            kind, d, _ = self.tr.adt(s.ty[1], e.line)
            if kind == "enum" and d["fieldless"]:
                return self.match_enum(e, s, d, env, expect)
        raise Unsupported("match on %s" % show_type(s.ty), e.line)

    def match_int(self, e, s, env, expect):
        m = self.fresh(env)
        binders = s.binders + [("let", m, s.term)]
        arms, ty = [], expect
        self.cond_depth += 1
        for i, (pats, body, line) in enumerate(e.arms):
            last = i == len(e.arms) - 1
            if len(pats) == 1 and pats[0][0] in ("bind", "wild"):
                if not last:
                    raise Unsupported("irrefutable pattern before the last arm", line)
                benv = dict(env)
                pre = []
                if pats[0][0] == "bind":
                    benv[pats[0][1]] = s.ty
                    pre = [("let", cid(pats[0][1]), m)]
                c = self.expr(body, benv, ty)
                c = Code(pre + c.binders, c.term, c.ty, c.mon)
                arms.append((None, c))
            else:
                conds = []
                for p in pats:
                    if p[0] != "int":
                        raise Unsupported("pattern %s in a match on an integer" % (p[0],), line)
                    if not 0 <= p[1] < 2 ** s.ty[1]:
                        raise Unsupported("pattern literal out of range", line)
                    conds.append("(%s =? %d)" % (m, p[1]))
                if last:
                    raise Unsupported("integer match without a final binding / wildcard arm", line)
                c = self.expr(body, env, ty)
                arms.append((" || ".join(conds), c))
            ty = self.unify(c.ty, ty, line, "match arms")
        self.cond_depth -= 1
        if not arms or arms[-1][0] is not None:
            raise Unsupported("integer match without a final binding / wildcard arm", e.line)
        # nested ifs, innermost = default arm
        acc = arms[-1][1]
        for cond, c in reversed(arms[:-1]):
            acc = self.branch([], "if %s then" % cond, [("", c), ("else", acc)], ty)
        return Code(binders + acc.binders, acc.term, ty, acc.mon)

    def match_enum(self, e, s, d, env, expect):
        name = s.ty[1]
        variants = [v for v, _ in d["variants"]]
        arms, ty, seen = [], expect, set()
        self.cond_depth += 1
        for pats, body, line in e.arms:
            labs = []
            for p in pats:
                if p[0] == "wild":
                    labs.append("_")
                    seen |= set(variants)
                elif p[0] == "path":
                    path = p[1]
                    if len(path) == 2 and path[0] in (name, "Self") and path[1] in variants:
                        labs.append("g_%s_%s" % (name, path[1]))
                        seen.add(path[1])
                    elif len(path) == 1 and path[0] in variants:
                        raise Unsupported("unqualified variant pattern %s (needs the `use` context)" % path[0], line)
                    else:
                        raise Unsupported("pattern %s in a match on %s" % ("::".join(path), name), line)
                else:
                    raise Unsupported("pattern kind %s in a match on the enum %s" % (p[0], name), line)
            c = self.expr(body, env, ty)
            ty = self.unify(c.ty, ty, line, "match arms")
            arms.append(("| " + " | ".join(labs) + " =>", c))
        self.cond_depth -= 1
        if seen != set(variants):
            raise Unsupported("match on %s is not exhaustive" % name, e.line)
        r = self.branch(s.binders, "match %s with" % s.term, arms, ty)
        r.term = r.term[:-1] + "\nend)"
        return r

    # ---------------------------------------------------------------- calls
    def e_try(self, e, env, expect):
        c = self.val(e.e, env, ("result", expect, self.ret[2]) if is_result(self.ret) and expect else None)
        if not is_result(c.ty):
            raise Unsupported("`?` on %s" % show_type(c.ty), e.line)
        if not is_result(self.ret):
            raise Unsupported("`?` in a function that does not return a Result", e.line)
        if c.ty[2] is not None and c.ty[2] != self.ret[2]:
            raise Unsupported("`?` converting the error %s into %s (From conversions are not translated)"
                              % (show_type(c.ty[2]), show_type(self.ret[2])), e.line)
        if c.ty[1] is None:
            raise Unsupported("`?` on a Result whose Ok type is unknown", e.line)
        v = self.fresh(env)
        return Code(c.binders + [("do", v, c.term)], v, c.ty[1])

    def err_value(self, c, line):
        """Encoding of an error value into the Z carried by Base.Err."""
        if c.ty[0] == "u":
            return c.term
        if c.ty[0] == "adt":
            kind, d, _ = self.tr.adt(c.ty[1], line)
            if kind == "enum" and d["fieldless"]:
                note = "errors of type %s are encoded as Err (1 + position of the variant): %s" % (
                    c.ty[1], ", ".join("%s = %d" % (v, i + 1) for i, (v, _) in enumerate(d["variants"])))
                if note not in self.tr.notes:
                    self.tr.notes.append(note)
                return "(1 + g_%s_index %s)" % (c.ty[1], c.term)
        raise Unsupported("error value of type %s (only integers and fieldless enums fit Base.Err)" % show_type(c.ty), line)

    def e_call(self, e, env, expect):
        p, line = e.path, e.line
        if p == ["Ok"] or p == ["Err"] or p == ["Some"]:
            if len(e.args) != 1:
                raise Unsupported("%s with %d arguments" % (p[0], len(e.args)), line)
            if p == ["Some"]:
                c = self.val(e.args[0], env, expect[1] if expect and expect[0] == "option" else None)
                return Code(c.binders, "(Some %s)" % c.term, ("option", c.ty))
            if p == ["Ok"]:
                c = self.val(e.args[0], env, expect[1] if is_result(expect) else None)
                if is_result(c.ty):
                    raise Unsupported("nested Result", line)
                return Code(c.binders, "(Ok %s)" % c.term, ("result", c.ty, expect[2] if is_result(expect) else None))
            c = self.val(e.args[0], env, expect[2] if is_result(expect) else None)
            return Code(c.binders, "(Err %s)" % self.err_value(c, line),
                        ("result", expect[1] if is_result(expect) else None, c.ty))
        if len(p) == 1:
            # tuple-struct constructor or free function
            name = p[0]
            if name == "Self" and self.self_ty and self.self_ty[0] == "adt":
                name = self.self_ty[1]
            info = self.tr.reg.get(("free", name))
            if info is not None:
                bs, ts = self.args(e.args, info.ptypes, env, line, name)
                return self.call_info(info, bs, ts, env, line)
            try:
                kind, d, _ = self.tr.adt(name, line)
            except Unsupported:
                raise Unsupported("call of %s, which is not translated (the front-end must list it before its callers)" % name, line)
            if kind == "struct" and d["kind"] == "tuple" and len(d["fields"]) == 1:
                ft = d["fields"][0][1]
                bs, ts = self.args(e.args, [ft], env, line, name)
                return Code(bs, ts[0], ("adt", name))
            raise Unsupported("constructor call %s(..)" % name, line)
        if len(p) == 2:
            tname, fname = p
            if tname == "Self":
                if self.self_ty is None:
                    raise Unsupported("Self outside an impl", line)
                tty = self.self_ty
            elif tname in INT_W:
                tty = ("u", INT_W[tname])
            else:
                tty = ("adt", tname)
            if tty[0] == "u" and fname == "from_be_bytes":
                bs, ts = self.args(e.args, [("arr", ("u", 8), tty[1] // 8)], env, line, "from_be_bytes")
                return Code(bs, "(from_be %s)" % ts[0], tty)
            if fname in ("from", "try_from") and len(e.args) == 1:
                a = self.val(e.args[0], env, None if not self.untyped_lit(e.args[0]) else tty)
                return self.convert(a, tty, fname, env, line)
            if fname == "default" and not e.args and tty[0] == "adt":
                return Code([], self.default_of(tty, line), tty)
            if tty[0] == "adt":
                info = self.tr.reg.get(("inh", tty[1], fname))
                if info is None:
                    raise Unsupported("call of %s::%s, which is not translated (the front-end must list it before its callers)"
                                      % (tty[1], fname), line)
                if info.self_ty is not None:
                    raise Unsupported("method %s::%s called as a function" % (tty[1], fname), line)
                bs, ts = self.args(e.args, info.ptypes, env, line, fname)
                return self.call_info(info, bs, ts, env, line)
        raise Unsupported("call of %s" % "::".join(p), line)

    def default_of(self, t, line):
        if t[0] == "u":
            return "0"
        if t[0] == "bool":
            return "false"
        if t[0] == "arr" and t[1][0] == "u":
            return "[%s]" % "; ".join(["0"] * t[2])
        if t[0] == "adt":
            kind, d, _ = self.tr.adt(t[1], line)
            if kind == "struct" and "Default" in d["derives"]:
                nf = self.tr.newtype_field(t)
                if nf is not None:
                    return self.default_of(nf, line)
                if d["kind"] == "record":
                    self.tr.coq_type(t, line)
                    return "(mk_g_%s %s)" % (t[1], " ".join(self.default_of(ft, line) for _, ft in d["fields"]))
        raise Unsupported("default() of %s (only #[derive(Default)] is translated)" % show_type(t), line)

    def convert(self, a, to, fname, env, line):
        """T::from(a) / T::try_from(a) / a.into()."""
        src = a.ty
        if fname in ("from", "into"):
            if src == to:
                return a                                  # impl<T> From<T> for T
            if src[0] == "u" and to[0] == "u" and src[1] < to[1]:
                return Code(a.binders, a.term, to)        # lossless widening, std
            if src == ("bool",) and to[0] == "u":
                return Code(a.binders, "(b2u %s)" % a.term, to)
        tr_name = "TryFrom" if fname == "try_from" else "From"
        key = ("trait", tr_name, type_name(src), type_name(to), "try_from" if fname == "try_from" else "from")
        info = self.tr.reg.get(key)
        if info is None:
            raise Unsupported("conversion %s<%s> for %s is not translated (the front-end must list it before its callers)"
                              % (tr_name, show_type(src), show_type(to)), line)
        return self.call_info(info, a.binders, [a.term], env, line)

    INT_METHODS = {
        "wrapping_add": ("(w_add %(w)d %(a)s %(b)s)", 1), "wrapping_sub": ("(w_sub %(w)d %(a)s %(b)s)", 1),
        "wrapping_mul": ("(w_mul %(w)d %(a)s %(b)s)", 1),
        "saturating_add": ("(sat_add %(w)d %(a)s %(b)s)", 1), "saturating_sub": ("(sat_sub %(a)s %(b)s)", 1),
        "min": ("(u_min %(a)s %(b)s)", 1), "max": ("(u_max %(a)s %(b)s)", 1),
    }

    def e_mcall(self, e, env, expect):
        name, line = e.name, e.line
        # iterator
        if e.recv.k == "path" and len(e.recv.path) == 1 and env.get(e.recv.path[0], ("none",))[0] == "iter":
            it = e.recv.path[0]
            if name == "next" and not e.args:
                if self.cond_depth:
                    raise Unsupported("%s.next() inside a conditional branch or a short-circuit operand" % it, line)
                o = self.fresh(env)
                return Code([("let", "'(%s, %s)" % (o, cid(it)), "iter_next %s" % cid(it))], o, ("option", env[it][1]))
            raise Unsupported("iterator method %s" % name, line)
        if name == "into" and not e.args:
            a = self.val(e.recv, env, None)
            if expect is None:
                raise Unsupported(".into() whose target type is not determined by the context", line)
            return self.convert(a, expect, "into", env, line)
        r = self.val(e.recv, env, None)
        t = r.ty
        if t[0] == "u":
            w = t[1]
            if name in self.INT_METHODS and len(e.args) == 1:
                b = self.val(e.args[0], env, t)
                self.unify(b.ty, t, line, name)
                return Code(r.binders + b.binders, self.INT_METHODS[name][0] % {"w": w, "a": r.term, "b": b.term}, t)
            if name in ("overflowing_add", "overflowing_sub") and len(e.args) == 1:
                b = self.val(e.args[0], env, t)
                self.unify(b.ty, t, line, name)
                fn = "ovf_add" if name == "overflowing_add" else "ovf_sub"
                return Code(r.binders + b.binders, "(%s %d %s %s)" % (fn, w, r.term, b.term), ("tup", (t, ("bool",))))
            if not e.args:
                if name == "count_ones":
                    return Code(r.binders, "(count_ones %s)" % r.term, ("u", 32))
                if name in ("count_zeros", "leading_zeros", "trailing_zeros"):
                    return Code(r.binders, "(%s %d %s)" % (name, w, r.term), ("u", 32))
                if name == "to_be_bytes":
                    return Code(r.binders, "(to_be %d%%nat %s)" % (w // 8, r.term), ("arr", ("u", 8), w // 8))
                if name in ("clone", "to_owned"):
                    return r
            raise Unsupported("integer method %s/%d" % (name, len(e.args)), line)
        if t[0] == "option":
            if name == "unwrap_or" and len(e.args) == 1:
                d = self.val(e.args[0], env, t[1])
                self.unify(d.ty, t[1], line, "unwrap_or")
                return Code(r.binders + d.binders, "(unwrap_or %s %s)" % (r.term, d.term), t[1])
            if name in ("unwrap", "expect"):
                v = self.fresh(env)
                s = self.site(line, "%s on None" % name)
                return Code(r.binders + [("do", v, "ck_unwrap %d %s" % (s, r.term))], v, t[1])
            raise Unsupported("Option method %s" % name, line)
        if is_result(t):
            if name == "or" and len(e.args) == 1 and e.args[0].k == "call" and e.args[0].path == ["Err"]:
                ev = self.val(e.args[0].args[0], env, self.ret[2] if is_result(self.ret) else None)
                if ev.binders:
                    raise Unsupported(".or(Err(e)) with an effectful e", line)
                return Code(r.binders, "(or_err %s %s)" % (r.term, self.err_value(ev, line)), ("result", t[1], ev.ty))
            raise Unsupported("Result method %s (only `?` and .or(Err(e)) are in the subset)" % name, line)
        if t[0] == "range":
            if name == "is_empty" and not e.args:
                # RangeInclusive::is_empty on a freshly built range: !(start <= end)
                return Code(r.binders, "(negb %s)" % self.tr.leb(t[1], "(fst %s)" % r.term, "(snd %s)" % r.term, line), ("bool",))
            if name in ("start", "end") and not e.args:
                return Code(r.binders, "(%s %s)" % ("fst" if name == "start" else "snd", r.term), t[1])
            raise Unsupported("range method %s" % name, line)
        if t[0] == "adt":
            if name == "clone" and not e.args:
                return r
            info = self.lookup_method(t, name, line)
            if info.self_ty is None:
                raise Unsupported("associated function %s::%s called as a method" % (t[1], name), line)
            bs, ts = self.args(e.args, info.ptypes, env, line, name)
            return self.call_info(info, r.binders + bs, [r.term] + ts, env, line)
        raise Unsupported("method %s on %s" % (name, show_type(t)), line)

    def e_assert(self, e, env, expect):
        raise Unsupported("assert! in expression position", e.line)

    def e_return(self, e, env, expect):
        raise Unsupported("`return` in expression position", e.line)


# ------------------------------------------------------------------------------------------------ output
def header(tool, sources, notes):
    """sources: list of (path shown, bytes)."""
    out = ["(* GENERATED by tools/%s (library tools/rs2gallina.py) - do not edit." % tool]
    for path, data in sources:
        out.append("   source: %s   git blob %s" % (path, git_blob_hash(data)))
    out.append("   Rust subset accepted by the translator (anything else makes it fail, naming construct and line):")
    out.append(SUBSET_TEXT)
    out.append("   Integers are Z with the width kept in the operator (Model/RsSem.v); checked operators return")
    out.append("   Panic <site>; site = 100 * (position of the function in this file) + (ordinal of the operator inside the")
    out.append("   function, in evaluation order); the sites are listed above each definition.")
    for n in notes:
        out.append("   note: " + n)
    out.append("*)")
    out.append("From Elvis Require Import Model.Base Model.RsSem.")
    out.append("Local Open Scope Z_scope.")
    out.append("")
    out.append("")
    return "\n".join(out)


def write_if_changed(path, txt):
    os.makedirs(os.path.dirname(path), exist_ok=True)
    old = open(path).read() if os.path.exists(path) else None
    if old != txt:
        tmp = path + ".tmp%d" % os.getpid()
        open(tmp, "w").write(txt)
        os.replace(tmp, path)
        return True
    return False


def frontend_main(tool, build, default_srcs, default_out):
    """Shared command line of the front-ends: [--src PATH]... [--out PATH].  build(paths) -> text of the .v file."""
    import argparse
    ap = argparse.ArgumentParser(prog=tool)
    ap.add_argument("--src", action="append", default=[],
                    help="override a source: PATH replaces the default source with the same basename")
    ap.add_argument("--out", default=default_out)
    a = ap.parse_args()
    srcs = list(default_srcs)
    for s in a.src:
        hit = [i for i, d in enumerate(srcs) if os.path.basename(d) == os.path.basename(s)]
        if not hit:
            print("%s: --src %s matches none of %s" % (tool, s, [os.path.basename(d) for d in srcs]))
            sys.exit(2)
        srcs[hit[0]] = s
    try:
        txt = build(srcs)
    except Unsupported as e:
        print("%s: source outside the translated subset: %s" % (tool, e))
        sys.exit(2)
    except OSError as e:
        print("%s: cannot read source: %s" % (tool, e))
        sys.exit(2)
    changed = write_if_changed(a.out, txt)
    print("%s%s" % (a.out, " (updated)" if changed else ""))
