#!/usr/bin/env python3
"""Second tie for the TCP header codec (C08 / C18 use Model/TcpHdr.v): regenerate coq/Gen/ControlGen.v from the
`Control(u8)` flag byte of sim/elvis-core/src/protocols/tcp/tcp_parsing.rs: new, bit, set_bit, the six getters and
six setters, From<u8> for Control, From<Control> for u8 (translator library: tools/rs2gallina.py).
Proofs/ControlGen.v proves them equal to ctl_new / ctl_bit / ctl_set_bit / ctl_* of Model/TcpHdr.v.
NOT translated: the Debug impl (formatting), TcpHeader / TcpHeaderBuilder (iterators with `?`, Vec, closures).
Exit 0 and the path on stdout; exit 2 with the construct and line when the source leaves the subset."""
import os
import sys

sys.path.insert(0, os.path.dirname(os.path.abspath(__file__)))
import rs2gallina as R  # noqa: E402

SRC = "/repo/sim/elvis-core/src/protocols/tcp/tcp_parsing.rs"
OUT = os.path.join(os.path.dirname(os.path.dirname(os.path.abspath(__file__))), "coq", "Gen", "ControlGen.v")
FLAGS = ["urg", "ack", "psh", "rst", "syn", "fin"]


def build(paths):
    data = open(paths[0], "rb").read()
    mod = R.Module(paths[0], data.decode())
    tr = R.Translator([mod], {}, "")
    tr.emit_adt("Control")
    for fn in ["new", "bit", "set_bit"] + FLAGS + ["set_" + f for f in FLAGS]:
        tr.translate(mod, impl_type="Control", name=fn)
    tr.translate(mod, trait=("From", ("u", 8), ("adt", "Control")), name="from")
    tr.translate(mod, trait=("From", ("adt", "Control"), ("u", 8)), name="from")
    return R.header("translate_control.py", [(paths[0], data)], tr.notes) + "\n\n".join(tr.out) + "\n"


if __name__ == "__main__":
    R.frontend_main("translate_control.py", build, [SRC], OUT)
