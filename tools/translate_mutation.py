#!/usr/bin/env python3
"""Mutation sanity of the translation ties (kit translate).  Never touches /repo or /verif/coq:

for every mutant a COPY of the source file is edited under /verif/.cache/translate/mut/<core>/<mutant>/src/, the
front-end is pointed at the copy (--src) and writes the generated file into a scratch Coq tree (--out) whose Model/
and the other Proofs/*.vo are symlinks to the built development; Gen/<X>Gen.v, Proofs/<X>Gen.v and Props/<C>gen.v
are then compiled there with coqc.  Prints one table row per mutant:
    core | mutant | kind | translator | generated file changed | proof result (first failing lemma)
usage: translate_mutation.py [core ...]      (cores: checksum subnet state control; default all)
Requires the development to be built (make Props/C18gen.vo Props/C09gen.vo Props/C03gen.vo Props/C08gen.vo)."""
import os
import re
import shutil
import subprocess
import sys

ROOT = os.path.dirname(os.path.dirname(os.path.abspath(__file__)))
COQ = os.path.join(ROOT, "coq")
WORK = os.path.join(ROOT, ".cache", "translate", "mut")
P = "/repo/sim/elvis-core/src/protocols/"

CORES = {
    "checksum": dict(tool="translate_checksum.py", gen="ChecksumGen", props="C18gen", mutants=[
        # (name, kind, file, [(old, new)])   kind: bug = must be caught; same = behaviour-preserving
        ("carry_dropped", "bug", P + "utility.rs", [("self.0 = sum + carry as u16;", "self.0 = sum;")]),
        ("as_u16_no_ffff_case", "bug", P + "utility.rs", [("            0xffff => 0xffff,\n", "")]),
        ("add_u8_bytes_swapped", "bug", P + "utility.rs", [("u16::from_be_bytes([a, b])", "u16::from_be_bytes([b, a])")]),
        ("add_u32_second_pair_wrong", "bug", P + "utility.rs", [("self.add_u8(value[2], value[3]);", "self.add_u8(value[2], value[2]);")]),
        ("odd_tail_padded_with_ff", "bug", P + "utility.rs", [("payload.next().unwrap_or(0)", "payload.next().unwrap_or(0xff)")]),
        ("stub_as_u16_returns_ffff", "bug", P + "utility.rs", [("    pub fn as_u16(&self) -> u16 {\n        0\n", "    pub fn as_u16(&self) -> u16 {\n        0xffff\n")]),
        ("rename_locals_shift_lines", "same", P + "utility.rs", [
            ("let (sum, carry) = self.0.overflowing_add(value);\n        self.0 = sum + carry as u16;",
             "// end-around carry\n        let (s0, c) = self.0.overflowing_add(value);\n        self.0 = s0 + c as u16;"),
            ("0xffff => 0xffff,", "65535 => 0xff_ff,"), ("sum => !sum,", "other => !other,")]),
        ("outside_subset_for_loop", "reject", P + "utility.rs", [
            ("        while let Some(a) = payload.next() {\n            self.add_u8(a, payload.next().unwrap_or(0));\n        }",
             "        for a in payload {\n            self.add_u8(a, 0);\n        }")]),
    ]),
    "subnet": dict(tool="translate_subnetting.py", gen="SubnetGen", props="C09gen", mutants=[
        ("overlaps_ge_to_gt", "bug", P + "arp/subnetting.rs", [("self.broadcast() >= other.id()", "self.broadcast() > other.id()")]),
        ("broadcast_xor_instead_of_add", "bug", P + "arp/subnetting.rs", [("ip_id.to_u32() + (!self.mask.to_u32())", "ip_id.to_u32() ^ (!self.mask.to_u32())")]),
        ("from_bitcount_32_becomes_31", "bug", P + "arp/subnetting.rs", [("} else if size == 32 {", "} else if size == 31 {")]),
        ("from_bitcount_clamp_from_1", "bug", P + "arp/subnetting.rs", [("clamp(size, 0, 32)", "clamp(size, 1, 32)")]),
        ("from_bitcount_shift_31", "bug", P + "arp/subnetting.rs", [("<< (32 - size))", "<< (31 - size))")]),
        ("contains_or_instead_of_and", "bug", P + "arp/subnetting.rs", [("address.to_u32() & self.mask().to_u32()", "address.to_u32() | self.mask().to_u32()")]),
        ("usable_ips_off_by_one", "bug", P + "arp/subnetting.rs", [("0 | 1 => 0,", "0 => 0,")]),
        ("range_error_swapped", "bug", P + "arp/subnetting.rs", [("            Err(TryFromRangeError::Start)\n        }", "            Err(TryFromRangeError::Size)\n        }")]),
        ("address_little_endian", "bug", P + "ipv4/ipv4_address.rs", [("Self::from(n.to_be_bytes())", "Self::from([n.to_be_bytes()[3], n.to_be_bytes()[2], n.to_be_bytes()[1], n.to_be_bytes()[0]])")]),
        ("rename_locals_shift_lines", "same", P + "arp/subnetting.rs", [
            ("let ip_id = self.id();\n        let new_ip_u32 = ip_id.to_u32() + (!self.mask.to_u32());\n        Ipv4Address::new(new_ip_u32.to_be_bytes())",
             "// last address of the block\n        let base = self.id();\n        let top = base.to_u32() + (!self.mask.to_u32());\n        Ipv4Address::new(top.to_be_bytes())"),
            ("0xFF_FF_FF_FF", "4294967295")]),
        ("clamp_branches_reordered", "same", P + "arp/subnetting.rs", [
            ("    if num < min {\n        min\n    } else if num > max {\n        max\n    } else {\n        num\n    }",
             "    if num > max {\n        max\n    } else if num < min {\n        min\n    } else {\n        num\n    }")]),
        ("outside_subset_closure", "reject", P + "arp/subnetting.rs", [
            ("        let result = Ipv4Mask::from_bitcount(count);\n", "        let result = (|c| Ipv4Mask::from_bitcount(c))(count);\n")]),
    ]),
    "state": dict(tool="translate_state.py", gen="StateGen", props="C03gen", mutants=[
        ("send_refuses_established", "bug", P + "tcp/tcb.rs", [
            ("State::SynSent | State::SynReceived | State::Established => {\n                self.outgoing.text.concatenate(message);",
             "State::SynSent | State::SynReceived => {\n                self.outgoing.text.concatenate(message);"),
            ("            State::FinWait1\n            | State::FinWait2\n            | State::CloseWait\n            | State::Closing\n            | State::LastAck\n            | State::TimeWait => {\n                // TODO(hardint): Return an error",
             "            State::Established\n            | State::FinWait1\n            | State::FinWait2\n            | State::CloseWait\n            | State::Closing\n            | State::LastAck\n            | State::TimeWait => {\n                // TODO(hardint): Return an error")]),
        ("segments_skips_closing", "bug", P + "tcp/tcb.rs", [("            | State::FinWait1\n            | State::Closing\n            | State::LastAck => {", "            | State::FinWait1\n            | State::LastAck => {")]),
        ("rst_finwait2_finalizes", "bug", P + "tcp/tcb.rs", [
            ("State::Established | State::FinWait1 | State::FinWait2 | State::CloseWait => {\n                    return ProcessSegmentResult::ConnectionReset;",
             "State::Established | State::FinWait1 | State::CloseWait => {\n                    return ProcessSegmentResult::ConnectionReset;"),
            ("State::Closing | State::LastAck | State::TimeWait => {\n                    return ProcessSegmentResult::FinalizeClose;",
             "State::FinWait2 | State::Closing | State::LastAck | State::TimeWait => {\n                    return ProcessSegmentResult::FinalizeClose;")]),
        ("out_of_order_test_inverted", "bug", P + "tcp/tcb.rs", [("if self.state != State::SynSent && mod_gt(segment.header.seq, self.rcv.nxt)", "if self.state == State::SynSent && mod_gt(segment.header.seq, self.rcv.nxt)")]),
        ("close_from_closewait_lost", "bug", P + "tcp/tcb.rs", [("            State::CloseWait => {\n                self.outgoing.fin_pending = true;", "            State::Closing => {\n                self.outgoing.fin_pending = true;")]),
        ("variant_removed", "bug", P + "tcp/tcb/state.rs", [("    /// Waiting for a connection termination request from the remote TCP.\n    FinWait2,\n", "")]),
        ("alternatives_reordered_wildcard", "same", P + "tcp/tcb.rs", [
            ("State::SynSent | State::SynReceived | State::Established => {\n                self.outgoing.text.concatenate(message);",
             "State::Established | State::SynSent | State::SynReceived => {\n                // accepted\n                self.outgoing.text.concatenate(message);"),
            ("            State::FinWait1\n            | State::FinWait2\n            | State::CloseWait\n            | State::Closing\n            | State::LastAck\n            | State::TimeWait => {\n                // TODO(hardint): Return an error",
             "            _ => {\n                // TODO(hardint): Return an error")]),
        ("send_arms_swapped", "same", P + "tcp/tcb.rs", [
            ("            State::SynSent | State::SynReceived | State::Established => {\n                self.outgoing.text.concatenate(message);\n            }\n\n            State::FinWait1\n            | State::FinWait2\n            | State::CloseWait\n            | State::Closing\n            | State::LastAck\n            | State::TimeWait => {\n                // TODO(hardint): Return an error that the connection is closing\n            }",
             "            State::FinWait1\n            | State::FinWait2\n            | State::CloseWait\n            | State::Closing\n            | State::LastAck\n            | State::TimeWait => {}\n\n            State::SynSent | State::SynReceived | State::Established => {\n                self.outgoing.text.concatenate(message);\n            }")]),
        ("outside_subset_guard", "reject", P + "tcp/tcb.rs", [("            State::CloseWait => {\n                self.outgoing.fin_pending = true;", "            State::CloseWait if self.outgoing.text.is_empty() => {\n                self.outgoing.fin_pending = true;")]),
    ]),
    "control": dict(tool="translate_control.py", gen="ControlGen", props="C08gen", mutants=[
        ("ack_reads_psh_bit", "bug", P + "tcp/tcp_parsing.rs", [("    pub const fn ack(self) -> bool {\n        self.bit(4)", "    pub const fn ack(self) -> bool {\n        self.bit(3)")]),
        ("set_bit_never_clears", "bug", P + "tcp/tcp_parsing.rs", [("self.0 = (self.0 & !(1 << bit)) | ((state as u8) << bit);", "self.0 = self.0 | ((state as u8) << bit);")]),
        ("new_syn_rst_swapped", "bug", P + "tcp/tcp_parsing.rs", [("| (syn as u8) << 1\n                | (rst as u8) << 2", "| (rst as u8) << 1\n                | (syn as u8) << 2")]),
        ("bit_tests_zero", "bug", P + "tcp/tcp_parsing.rs", [("(self.0 >> bit) & 0b1 == 1", "(self.0 >> bit) & 0b1 == 0")]),
        ("bit_via_mask", "same", P + "tcp/tcp_parsing.rs", [("(self.0 >> bit) & 0b1 == 1", "(self.0 >> bit) & 1 != 0")]),
        ("outside_subset_signed", "reject", P + "tcp/tcp_parsing.rs", [("(self.0 >> bit) & 0b1 == 1", "((self.0 >> bit) as i8) & 0b1 == 1")]),
    ]),
}


def sh(cmd, cwd=None, timeout=600):
    p = subprocess.run(cmd, shell=True, cwd=cwd, stdout=subprocess.PIPE, stderr=subprocess.STDOUT, text=True, timeout=timeout)
    return p.returncode, p.stdout


def lemma_at(path, line):
    name = "?"
    for i, l in enumerate(open(path).read().split("\n"), 1):
        if i > line:
            break
        m = re.match(r"\s*(Lemma|Theorem|Example|Definition|Fixpoint)\s+([A-Za-z0-9_']+)", l)
        if m:
            name = m.group(2)
    return name


def scratch_tree(d, gen):
    coq = os.path.join(d, "coq")
    shutil.rmtree(d, ignore_errors=True)
    for sub in ("Gen", "Proofs", "Props"):
        os.makedirs(os.path.join(coq, sub))
    os.symlink(os.path.join(COQ, "Model"), os.path.join(coq, "Model"))
    for f in os.listdir(os.path.join(COQ, "Proofs")):
        if f.endswith(".vo") and f != gen + ".vo":
            os.symlink(os.path.join(COQ, "Proofs", f), os.path.join(coq, "Proofs", f))
    return coq


def run_core(core):
    c = CORES[core]
    rows = []
    if not os.path.exists(os.path.join(ROOT, "tools", c["tool"])):
        return rows
    base = open(os.path.join(COQ, "Gen", c["gen"] + ".v")).read()
    body = lambda t: t.split("*)\nFrom Elvis", 1)[-1]        # generated text without the header (hashes)
    for name, kind, path, edits in c["mutants"]:
        d = os.path.join(WORK, core, name)
        coq = scratch_tree(d, c["gen"])
        os.makedirs(os.path.join(d, "src"))
        src = open(path).read()
        for old, new in edits:
            if src.count(old) != 1:
                rows.append((core, name, kind, "MUTATION DOES NOT APPLY (%d matches of %r)" % (src.count(old), old[:40]), "", ""))
                src = None
                break
            src = src.replace(old, new)
        if src is None:
            continue
        mpath = os.path.join(d, "src", os.path.basename(path))
        open(mpath, "w").write(src)
        out = os.path.join(coq, "Gen", c["gen"] + ".v")
        rc, log = sh("python3 %s --src %s --out %s" % (os.path.join(ROOT, "tools", c["tool"]), mpath, out))
        if rc != 0:
            rows.append((core, name, kind, "REJECTED: " + log.strip().split("subset: ")[-1][:150], "-", "-"))
            continue
        changed = "yes" if body(open(out).read()) != body(base) else "no (identical up to header)"
        shutil.copy(os.path.join(COQ, "Proofs", c["gen"] + ".v"), os.path.join(coq, "Proofs"))
        shutil.copy(os.path.join(COQ, "Props", c["props"] + ".v"), os.path.join(coq, "Props"))
        result = "PROVED (Props/%s.vo built)" % c["props"]
        for rel in ("Gen/%s.v" % c["gen"], "Proofs/%s.v" % c["gen"], "Props/%s.v" % c["props"]):
            rc, log = sh("timeout 300 coqc -q -Q %s Elvis -w -notation-overridden,-deprecated-hint-without-locality %s"
                         % (coq, os.path.join(coq, rel)), cwd=coq, timeout=320)
            if rc != 0:
                m = re.search(r'line (\d+), characters', log)
                where = lemma_at(os.path.join(coq, rel), int(m.group(1))) if m else "?"
                err = " ".join(log.strip().split("\n")[-3:])[:110]
                result = "FAILS in %s at %s (l.%s): %s" % (rel, where, m.group(1) if m else "?", err)
                break
        rows.append((core, name, kind, "translated", changed, result))
    return rows


def main():
    cores = sys.argv[1:] or list(CORES)
    allrows = []
    for core in cores:
        allrows += run_core(core)
    bad = 0
    for r in allrows:
        print(" | ".join(r))
        kind, res = r[2], r[5] if len(r) > 5 else ""
        if "DOES NOT APPLY" in r[3]:
            bad += 1
        elif kind == "bug" and not (r[3].startswith("REJECTED") or res.startswith("FAILS")):
            bad += 1
        elif kind == "reject" and not r[3].startswith("REJECTED"):
            bad += 1
    print("%d mutants, %d not behaving as expected (bug: rejected or proof fails; reject: translator refuses; same: informational)"
          % (len(allrows), bad))
    sys.exit(1 if bad else 0)


if __name__ == "__main__":
    main()
