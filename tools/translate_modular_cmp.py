#!/usr/bin/env python3
"""Translator Rust -> Gallina for sim/elvis-core/src/protocols/tcp/tcb/modular_cmp.rs (second tie for C12).

It parses the bodies of mod_lt / mod_leq / mod_gt / mod_geq / mod_bounded / ModCmp::offset (a small expression
language: let-bindings, u32 wrapping_add / wrapping_sub, comparisons, && ||, shifts of literals, calls of the
sibling functions, a two-arm match on ModCmp) and writes coq/Gen/ModularCmpGen.v with one definition per function.
Proofs/U32Gen.v (hand-written, fixed) proves the generated definitions equal to the hand model Model/U32.v; when the
Rust source changes, either the translation fails (outside the subset) or that proof breaks.
Exit code 0 and the path on stdout on success; exit 2 with a message when the source is outside the subset."""
import os
import re
import sys

SRC = "/repo/sim/elvis-core/src/protocols/tcp/tcb/modular_cmp.rs"
OUT = os.path.join(os.path.dirname(os.path.dirname(os.path.abspath(__file__))), "coq", "Gen", "ModularCmpGen.v")


class Unsupported(Exception):
    pass


TOKEN = re.compile(r"\s*(?:(\d[\d_]*)|([A-Za-z_][A-Za-z0-9_]*(?:::[A-Za-z_][A-Za-z0-9_]*)*)|(<<|>>|==|!=|<=|>=|&&|\|\||=>|[-+*/<>=!(){};,.]))")


def tokenize(s):
    pos, out = 0, []
    s = re.sub(r"//[^\n]*", "", s)
    while pos < len(s):
        m = TOKEN.match(s, pos)
        if not m:
            if s[pos:].strip() == "":
                break
            raise Unsupported("cannot tokenize at: %r" % s[pos:pos + 30])
        pos = m.end()
        if m.group(1):
            out.append(("num", int(m.group(1).replace("_", ""))))
        elif m.group(2):
            out.append(("id", m.group(2)))
        else:
            out.append(("op", m.group(3)))
    return out


class P:
    def __init__(self, toks):
        self.t, self.i = toks, 0

    def peek(self):
        return self.t[self.i] if self.i < len(self.t) else ("eof", None)

    def next(self):
        x = self.peek()
        self.i += 1
        return x

    def expect(self, kind, val=None):
        k, v = self.next()
        if k != kind or (val is not None and v != val):
            raise Unsupported("expected %s %s, got %s %s" % (kind, val, k, v))
        return v

    # block := { (let [mut] x = expr ;)* expr }
    def block(self):
        self.expect("op", "{")
        lets = []
        while self.peek() == ("id", "let"):
            self.next()
            if self.peek() == ("id", "mut"):
                self.next()
            name = self.expect("id")
            self.expect("op", "=")
            e = self.expr()
            self.expect("op", ";")
            lets.append((name, e))
        e = self.expr()
        self.expect("op", "}")
        return ("block", lets, e)

    def expr(self):
        return self.or_()

    def or_(self):
        l = self.and_()
        while self.peek() == ("op", "||"):
            self.next()
            l = ("or", l, self.and_())
        return l

    def and_(self):
        l = self.cmp()
        while self.peek() == ("op", "&&"):
            self.next()
            l = ("and", l, self.cmp())
        return l

    def cmp(self):
        l = self.shift()
        k, v = self.peek()
        if k == "op" and v in ("<", ">", "==", "<=", ">=", "!="):
            self.next()
            r = self.shift()
            return ("cmp", v, l, r)
        return l

    def shift(self):
        l = self.postfix()
        while self.peek() == ("op", "<<"):
            self.next()
            r = self.postfix()
            l = ("shl", l, r)
        return l

    def postfix(self):
        e = self.atom()
        while self.peek() == ("op", "."):
            self.next()
            m = self.expect("id")
            self.expect("op", "(")
            args = []
            if self.peek() != ("op", ")"):
                args.append(self.expr())
                while self.peek() == ("op", ","):
                    self.next()
                    args.append(self.expr())
            self.expect("op", ")")
            e = ("method", m, e, args)
        return e

    def atom(self):
        k, v = self.next()
        if k == "num":
            return ("num", v)
        if k == "op" and v == "(":
            e = self.expr()
            self.expect("op", ")")
            return e
        if k == "id" and v == "match":
            scrut = self.expr()
            self.expect("op", "{")
            arms = []
            while self.peek() != ("op", "}"):
                pat = self.expect("id")
                self.expect("op", "=>")
                arms.append((pat, self.expr()))
                if self.peek() == ("op", ","):
                    self.next()
            self.expect("op", "}")
            return ("match", scrut, arms)
        if k == "id":
            if self.peek() == ("op", "("):
                self.next()
                args = []
                if self.peek() != ("op", ")"):
                    args.append(self.expr())
                    while self.peek() == ("op", ","):
                        self.next()
                        args.append(self.expr())
                self.expect("op", ")")
                return ("call", v, args)
            return ("var", v)
        raise Unsupported("unexpected token %s %s" % (k, v))


FUNCS = {"mod_lt": "g_mod_lt", "mod_leq": "g_mod_leq", "mod_gt": "g_mod_gt", "mod_geq": "g_mod_geq",
         "mod_bounded": "g_mod_bounded"}


def gen(e):
    k = e[0]
    if k == "num":
        return "%d" % e[1]
    if k == "var":
        if e[1] in ("Lt", "ModCmp::Lt"):
            return "CLt"
        if e[1] in ("Leq", "ModCmp::Leq"):
            return "CLeq"
        return e[1]
    if k == "shl":
        if e[1][0] == "num" and e[2][0] == "num":
            return "%d" % (e[1][1] << e[2][1])
        raise Unsupported("shift of a non-literal")
    if k == "or":
        return "(%s || %s)" % (gen(e[1]), gen(e[2]))
    if k == "and":
        return "(%s && %s)" % (gen(e[1]), gen(e[2]))
    if k == "cmp":
        op, l, r = e[1], gen(e[2]), gen(e[3])
        return {"<": "(%s <? %s)", ">": "(%s <? %s)", "==": "(%s =? %s)", "<=": "(%s <=? %s)",
                ">=": "(%s <=? %s)", "!=": "(negb (%s =? %s))"}[op] % ((r, l) if op in (">", ">=") else (l, r))
    if k == "method":
        m, recv, args = e[1], gen(e[2]), [gen(a) for a in e[3]]
        if m == "wrapping_sub" and len(args) == 1:
            return "(wsub %s %s)" % (recv, args[0])
        if m == "wrapping_add" and len(args) == 1:
            return "(wadd %s %s)" % (recv, args[0])
        if m == "offset" and not args:
            return "(g_offset %s)" % recv
        raise Unsupported("method %s" % m)
    if k == "call":
        if e[1] in FUNCS:
            return "(%s %s)" % (FUNCS[e[1]], " ".join(gen(a) for a in e[2]))
        raise Unsupported("call of %s" % e[1])
    if k == "match":
        arms = " | ".join("%s => %s" % (gen(("var", p)), gen(b)) for p, b in e[2])
        return "(match %s with %s end)" % (gen(e[1]), arms)
    if k == "block":
        s = ""
        for n, b in e[1]:
            s += "let %s := %s in\n  " % (n, gen(b))
        return s + gen(e[2])
    raise Unsupported(k)


def fn_body(src, name):
    m = re.search(r"fn\s+%s\s*\(([^)]*)\)\s*->\s*\w+\s*\{" % re.escape(name), src)
    if not m:
        raise Unsupported("function %s not found" % name)
    params = [p.split(":")[0].strip() for p in m.group(1).split(",") if p.strip()]
    i = m.end() - 1
    depth = 0
    j = i
    while j < len(src):
        if src[j] == "{":
            depth += 1
        elif src[j] == "}":
            depth -= 1
            if depth == 0:
                break
        j += 1
    return params, src[i:j + 1]


def main():
    src = open(SRC).read()
    src = src.split("#[cfg(test)]")[0]
    out = ["(* GENERATED by tools/translate_modular_cmp.py from %s - do not edit *)" % SRC,
           "From Elvis Require Import Model.Base Model.U32.", "Local Open Scope Z_scope.", ""]
    params, body = fn_body(src, "offset")
    out.append("Definition g_offset (%s : modcmp) : Z :=\n  %s." % (params[0], gen(P(tokenize(body)).block())))
    for name in ("mod_lt", "mod_leq", "mod_gt", "mod_geq", "mod_bounded"):
        params, body = fn_body(src, name)
        ast = P(tokenize(body)).block()
        ps = " ".join("(%s : %s)" % (p, "modcmp" if p.endswith("_cmp") else "Z") for p in params)
        out.append("Definition %s %s : bool :=\n  %s." % (FUNCS[name], ps, gen(ast)))
    os.makedirs(os.path.dirname(OUT), exist_ok=True)
    txt = "\n".join(out) + "\n"
    old = open(OUT).read() if os.path.exists(OUT) else None
    if old != txt:
        open(OUT, "w").write(txt)
    print(OUT)


if __name__ == "__main__":
    try:
        main()
    except Unsupported as e:
        print("translate_modular_cmp: source outside the translated subset: %s" % e)
        sys.exit(2)
