#!/usr/bin/env python3
"""Print the prompt for an independent mutation agent: property text + its scratch worktree only."""
import json, sys
pid, wt = sys.argv[1], sys.argv[2]
p = [json.loads(l) for l in open('/verif/properties.jsonl') if json.loads(l)['id'] == pid][0]
print(f"""You are a careful software engineer playing the role of someone who introduces a SUBTLE REGRESSION into a Rust code base. The repository is srg-elvis-public (Elvis, a user-space network simulator); you have your own scratch git worktree of it at {wt} (cargo workspace in {wt}/sim). Work ONLY inside {wt} (never touch /repo or /verif, do not read /verif). Everything is offline: use `cargo ... --offline`; the first build of the workspace tests takes a few minutes.

The property your change must BREAK:
  Title: {p['title']}
  Statement: {p['statement']}
  Quantified over: {p['quantifier']['text']}
  Relevant source files (relative to {wt}): {', '.join(p['anchors']['files'])}

Task: make ONE small source change (a few lines, no test edits, must compile without new warnings being errors) to non-test code such that
  1. the property above is violated by the changed code, but
  2. the EXISTING test suite still passes: run `cd {wt}/sim && cargo nextest run --workspace --offline --test-threads 8` if cargo-nextest is available (it is), otherwise `cargo test --workspace --offline`; (some simulation tests are timing-sensitive: if a single unrelated test flakes, re-run it alone to confirm it passes), and
  3. the violation needs something SPECIFIC to manifest - an unusual input, a boundary value, a multi-step sequence of operations, a particular interleaving/order, a fault at a particular point, or two cooperating sites that each look fine alone - NOT something ordinary use would expose at once. Think like a reviewer-evading bug: off-by-one at a boundary that the tests do not hit, a wrong comparison direction that only matters on wrap-around, a condition dropped in a rarely taken branch, state not reset on a rare path, etc.
  4. write a DEMONSTRATION: a new Rust test file or small test function (put it in a NEW file, e.g. {wt}/sim/elvis-core/tests/demo_{pid.lower()}.rs or {wt}/sim/elvis/tests/demo_{pid.lower()}.rs, using only the crates' public API; if the needed items are private, add the test as a `#[cfg(test)] mod` in a NEW file included from the module - keep that inclusion line out of the patch, see below) that FAILS with your change and PASSES without it (verify both: `git stash` the source change or apply/unapply the patch).
Deliver, inside {wt}:  `patch.diff` = `git diff` of the SOURCE change only (no test/demo files; it must apply to a clean checkout with `git apply`), the demonstration file(s), and `meta.json` with keys: property ("{pid}"), summary (one sentence: what was changed), needs (what specific input/sequence/interleaving is needed to manifest), demo (how to run the demonstration: exact command), tests_run (what you ran and the result). Leave the worktree with the source change REVERTED (clean `git status` apart from the new untracked files patch.diff, meta.json and the demo). Your final message: the contents of meta.json and the patch.""")
