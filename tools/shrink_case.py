#!/usr/bin/env python3
"""Delta-debug a ';'-separated label schedule: keep the head, drop labels while the oracle still fails
with the same violation category.  usage: shrink_case.py <bin> <case-file> [match-regex]"""
import os, re, subprocess, sys, tempfile

def run(binp, case):
    d = tempfile.mkdtemp(dir="/verif/.cache")
    open(d + "/c.txt", "w").write(case + "\n")
    subprocess.run([binp, "--cases", d + "/c.txt", "--out", d], stdout=subprocess.DEVNULL, stderr=subprocess.DEVNULL)
    o = open(d + "/oracle.txt").read().strip()
    subprocess.run(["rm", "-rf", d])
    return o

def main():
    binp, f = sys.argv[1], sys.argv[2]
    pat = re.compile(sys.argv[3]) if len(sys.argv) > 3 else re.compile("FAIL")
    case = open(f).read().strip().split("\n")[0]
    head, body = case.split("|", 1)
    labs = [l.strip() for l in body.split(";") if l.strip()]
    tail = []
    for i, l in enumerate(labs):
        if l[:2] in ("F ", "G ", "H "):
            tail = labs[i:]
            labs = labs[:i]
            break
    def fails(ls):
        o = run(binp, head + "| " + " ; ".join(ls + tail))
        return bool(pat.search(o))
    assert fails(labs), "does not fail"
    n = 2
    while len(labs) >= 2:
        chunk = max(1, len(labs) // n)
        reduced = False
        for i in range(0, len(labs), chunk):
            cand = labs[:i] + labs[i + chunk:]
            if cand and fails(cand):
                labs = cand
                n = max(n - 1, 2)
                reduced = True
                break
        if not reduced:
            if chunk == 1:
                break
            n = min(n * 2, len(labs))
    out = head + "| " + " ; ".join(labs + tail)
    print(out)
    print(run(binp, out))

main()
