#!/usr/bin/env python3
"""Second tie for C03: regenerate coq/Gen/StateGen.v from
  * sim/elvis-core/src/protocols/tcp/tcb/state.rs : the enum `State` (variants in declaration order) and its derived
    PartialEq -> Inductive g_State, g_State_index, g_State_all, g_State_eqb  (library tools/rs2gallina.py);
  * sim/elvis-core/src/protocols/tcp/tcb.rs : state.rs itself has NO predicate methods - the state predicates of the
    TCB are the arm groups of every `match self.state { .. }` in `impl Tcb`.  For each such match, numbered per
    function in source order, the DISPATCH TABLE  g_Tcb_<fn>_m<k> : g_State -> Z  (index of the first arm whose
    pattern matches, patterns `State::A | State::B` or `_`) is generated.  Arm BODIES are not translated (they are
    the hand model Model/Tcb.v); Proofs/StateGen.v proves that the hand model branches exactly along these tables.
Fails (exit 2, construct and line) on: a variant with fields / explicit discriminant, a missing derive(PartialEq), a
pattern that is not a `State::V` alternative or `_`, a match guard, a binding pattern, an unknown variant, a
non-exhaustive or redundant arm list."""
import os
import sys

sys.path.insert(0, os.path.dirname(os.path.abspath(__file__)))
import rs2gallina as R  # noqa: E402

SRC = "/repo/sim/elvis-core/src/protocols/tcp/tcb/state.rs"
SRC_TCB = "/repo/sim/elvis-core/src/protocols/tcp/tcb.rs"
OUT = os.path.join(os.path.dirname(os.path.dirname(os.path.abspath(__file__))), "coq", "Gen", "StateGen.v")


def skip_arm_body(c):
    """After `=>`: skip one arm body; returns when the next arm (or the closing brace of the match) is next."""
    if c.at_op("{"):
        c.skip_balanced()
        c.accept("op", ",")
        return
    while True:
        x = c.peek()
        if x.k == "eof":
            raise R.Unsupported("unterminated match arm", x.line)
        if x.k == "op" and x.v == ",":
            c.next()
            return
        if x.k == "op" and x.v == "}":
            return
        if x.k == "op" and x.v in R.OPEN:
            c.skip_balanced()
        else:
            c.next()


def state_matches(mod, f, variants):
    """Every `match self.state {` in the body of f, in source order: [(line, [arm pattern lists])]."""
    toks = mod.toks
    out = []
    i = f.body[0]
    while i < f.body[1]:
        t = toks[i]
        if t.k == "id" and t.v == "match" and [(x.k, x.v) for x in toks[i + 1:i + 5]] == \
                [("id", "self"), ("op", "."), ("id", "state"), ("op", "{")]:
            c = R.Cursor(toks, i + 4, f.body[1])
            a, b = c.skip_balanced()
            c = R.Cursor(toks, a, b)
            ep = R.ExprParser(c)
            arms = []
            while not c.at("eof"):
                c.accept("op", "|")
                pats = [ep.pattern()]
                while c.accept("op", "|"):
                    pats.append(ep.pattern())
                if c.at_id("if"):
                    raise R.Unsupported("match guard on self.state", c.peek().line)
                c.expect("op", "=>")
                labs = []
                for p in pats:
                    if p[0] == "wild":
                        labs.append("_")
                    elif p[0] == "path" and len(p[1]) == 2 and p[1][0] == "State":
                        if p[1][1] not in variants:
                            raise R.Unsupported("State::%s is not a variant of state.rs" % p[1][1], p[2])
                        labs.append(p[1][1])
                    else:
                        raise R.Unsupported("pattern %r in a match on self.state (only State::V and _ are translated)"
                                            % (p[1],), p[-1] if isinstance(p[-1], int) else t.line)
                arms.append(labs)
                skip_arm_body(c)
            seen = set()
            for labs in arms:
                new = set(variants) - seen if "_" in labs else set(labs) - seen
                if not new:
                    raise R.Unsupported("match self.state: an arm is unreachable (rustc warns; Coq would reject it)", t.line)
                if "_" not in labs and len(set(labs)) != len(labs):
                    raise R.Unsupported("match self.state: a variant is repeated in one arm", t.line)
                seen |= set(variants) if "_" in labs else set(labs)
            if seen != set(variants):
                raise R.Unsupported("match self.state is not exhaustive", t.line)
            out.append((t.line, arms))
        i += 1
    return out


def build(paths):
    d_state, d_tcb = open(paths[0], "rb").read(), open(paths[1], "rb").read()
    st, tcb = R.Module(paths[0], d_state.decode()), R.Module(paths[1], d_tcb.decode())
    tr = R.Translator([st], {}, "")
    if "State" not in st.enums:
        raise R.Unsupported("enum State not found in state.rs")
    if "PartialEq" not in st.enums["State"]["derives"]:
        raise R.Unsupported("enum State does not derive PartialEq (tcb.rs compares states with == / !=)",
                            st.enums["State"]["line"])
    tr.out.append("(* ==== state.rs ==== *)")
    tr.emit_adt("State")
    variants = [v for v, _ in st.enums["State"]["variants"]]
    tr.out.append("(* ==== tcb.rs: dispatch tables of every `match self.state` in `impl Tcb` ==== *)")
    n, tables, cmps = 0, [], []
    for im in tcb.impls:
        if im.trait is not None or im.for_ty != ("adt", "Tcb"):
            continue
        for f in im.fns:
            if f.body is None or f.cfg:
                continue
            for k, (line, arms) in enumerate(state_matches(tcb, f, variants), 1):
                n += 1
                tables.append("g_Tcb_%s_m%d" % (f.name, k))
                rows = []
                for idx, labs in enumerate(arms):
                    pat = "_" if "_" in labs else " | ".join("g_State_%s" % v for v in labs)
                    rows.append("  | %s => %d" % (pat, idx))
                tr.out.append("(* tcb.rs:%d  fn %s, match self.state #%d: %d arms *)\n"
                              "Definition g_Tcb_%s_m%d (s : g_State) : Z :=\n  match s with\n%s\n  end."
                              % (line, f.name, k, len(arms), f.name, k, "\n".join(rows)))
            # comparisons `self.state == State::V` / `self.state != State::V`
            toks, k = tcb.toks, 0
            for i in range(f.body[0], f.body[1] - 5):
                if [(x.k, x.v) for x in toks[i:i + 3]] == [("id", "self"), ("op", "."), ("id", "state")] and \
                        toks[i + 3].k == "op" and toks[i + 3].v in ("==", "!="):
                    rhs = toks[i + 4:i + 7]
                    if [(x.k, x.v) for x in rhs[:2]] != [("id", "State"), ("op", "::")] or rhs[2].k != "id" \
                            or rhs[2].v not in variants:
                        raise R.Unsupported("comparison of self.state with something that is not a State::V literal",
                                            toks[i].line)
                    k += 1
                    e = "g_State_eqb s g_State_%s" % rhs[2].v
                    cmps.append("g_Tcb_%s_c%d" % (f.name, k))
                    tr.out.append("(* tcb.rs:%d  fn %s, comparison #%d: self.state %s State::%s *)\n"
                                  "Definition g_Tcb_%s_c%d (s : g_State) : bool :=\n  %s."
                                  % (toks[i].line, f.name, k, toks[i + 3].v, rhs[2].v, f.name, k,
                                     e if toks[i + 3].v == "==" else "negb (%s)" % e))
                elif [(x.k, x.v) for x in toks[i:i + 3]] == [("id", "self"), ("op", "."), ("id", "state")] and \
                        not (toks[i + 3].k == "op" and toks[i + 3].v in ("=", "{", ",", ";", ")", "}")) and \
                        not (toks[i - 1].k == "id" and toks[i - 1].v == "match"):
                    raise R.Unsupported("use of self.state that is neither a match, a comparison with a literal, an "
                                        "assignment nor a plain read", toks[i].line)
    if n == 0:
        raise R.Unsupported("no `match self.state` found in impl Tcb of tcb.rs")
    tr.out.append("(* every dispatch table / comparison above, in order: a new `match self.state` or comparison in tcb.rs "
                  "changes these lists *)\nDefinition g_Tcb_state_tables : list (g_State -> Z) :=\n  [%s].\n"
                  "Definition g_Tcb_state_comparisons : list (g_State -> bool) :=\n  [%s]."
                  % ("; ".join(tables), "; ".join(cmps)))
    notes = ["from tcb.rs only the PATTERNS of `match self.state` are read; arm bodies, and every other construct of "
             "tcb.rs, are not translated",
             "functions of `impl Tcb` under any cfg attribute are skipped (verif_snapshot)"]
    return R.header("translate_state.py", [(paths[0], d_state), (paths[1], d_tcb)], notes) + "\n\n".join(tr.out) + "\n"


if __name__ == "__main__":
    R.frontend_main("translate_state.py", build, [SRC, SRC_TCB], OUT)
