//! Shared scaffolding of the correspondence harness.
//!
//! A "family" generates case lines (plain text, one case per line), runs the
//! real implementation on a case and renders a canonical result line, and
//! evaluates the property oracle on the implementation's output.  The same
//! case lines are fed to the extracted Coq model by the OCaml driver; the
//! python driver diffs `impl.txt` against `model.txt` line by line.

pub mod stack;

use std::collections::BTreeMap;
use std::fmt::Write as _;
use std::io::Write as _;
use std::panic::{catch_unwind, AssertUnwindSafe};

/// splitmix64: every random choice of a run derives from one seed.
#[derive(Clone)]
pub struct Rng(pub u64);

impl Rng {
    pub fn new(seed: u64) -> Self {
        Rng(seed ^ 0x9E37_79B9_7F4A_7C15)
    }
    pub fn next_u64(&mut self) -> u64 {
        self.0 = self.0.wrapping_add(0x9E37_79B9_7F4A_7C15);
        let mut z = self.0;
        z = (z ^ (z >> 30)).wrapping_mul(0xBF58_476D_1CE4_E5B9);
        z = (z ^ (z >> 27)).wrapping_mul(0x94D0_49BB_1331_11EB);
        z ^ (z >> 31)
    }
    pub fn u32(&mut self) -> u32 {
        (self.next_u64() >> 32) as u32
    }
    /// uniform in 0..n (n > 0)
    pub fn below(&mut self, n: u64) -> u64 {
        self.next_u64() % n
    }
    /// uniform in lo..=hi
    pub fn range(&mut self, lo: u64, hi: u64) -> u64 {
        lo + self.below(hi - lo + 1)
    }
    pub fn coin(&mut self, num: u64, den: u64) -> bool {
        self.below(den) < num
    }
    pub fn pick<'a, T>(&mut self, xs: &'a [T]) -> &'a T {
        &xs[self.below(xs.len() as u64) as usize]
    }
    pub fn bytes(&mut self, n: usize) -> Vec<u8> {
        (0..n).map(|_| self.next_u64() as u8).collect()
    }
    pub fn fork(&mut self) -> Rng {
        Rng(self.next_u64())
    }
}

pub fn hex(bs: &[u8]) -> String {
    if bs.is_empty() {
        return "-".to_string();
    }
    let mut s = String::with_capacity(bs.len() * 2);
    for b in bs {
        let _ = write!(s, "{:02x}", b);
    }
    s
}

pub fn unhex(s: &str) -> Vec<u8> {
    if s == "-" {
        return vec![];
    }
    (0..s.len() / 2)
        .map(|i| u8::from_str_radix(&s[2 * i..2 * i + 2], 16).expect("hex"))
        .collect()
}

/// Verdict of the property oracle on the implementation's behaviour.
pub enum Oracle {
    Ok,
    /// property violated on this case
    Fail(String),
    /// property violated, inside a class listed in known_findings.json
    Known(String, String),
}

pub struct Outcome {
    /// canonical rendering of what the implementation did (compared with the model)
    pub impl_line: String,
    pub oracle: Oracle,
}

thread_local! {
    static STATS: std::cell::RefCell<BTreeMap<String, u64>> = Default::default();
}

/// Count an occurrence for the input-distribution report in the evidence file.
pub fn stat(key: &str) {
    STATS.with(|s| *s.borrow_mut().entry(key.to_string()).or_insert(0) += 1);
}

pub trait Family {
    /// Generate case number `idx`; two streams are interleaved by the family itself.
    fn gen(rng: &mut Rng, idx: usize) -> String;
    /// Run the implementation on a case line.
    fn run(case: &str) -> Outcome;
    /// Does this case run on the real-time multi-thread runtime (its verdict may then depend on wall-clock
    /// deadlines)?  Only such cases are re-run when the machine is overloaded, see `main_loop`.
    fn realtime(_case: &str) -> bool {
        false
    }
}

/// 1-minute load average above 1.5 x the number of CPUs: wall-clock deadlines of real-time scenarios are not
/// meaningful then.
pub fn overloaded() -> bool {
    let cpus = std::thread::available_parallelism().map(|n| n.get()).unwrap_or(1) as f64;
    std::fs::read_to_string("/proc/loadavg")
        .ok()
        .and_then(|s| s.split_whitespace().next().and_then(|x| x.parse::<f64>().ok()))
        .map_or(false, |l| l > 1.5 * cpus)
}

/// Factor by which wall-clock limits are stretched in a re-run on an overloaded machine (env VERIF_SLOW,
/// inherited by the child process of a scenario)
pub fn slow_factor() -> u32 {
    std::env::var("VERIF_SLOW").ok().and_then(|v| v.parse().ok()).unwrap_or(1).max(1)
}

pub struct Args {
    pub seed: u64,
    pub n: usize,
    pub out: String,
    pub cases: Option<String>,
    pub extra: Vec<String>,
}

pub fn parse_args() -> Args {
    let mut a = Args { seed: 1, n: 100, out: ".".into(), cases: None, extra: vec![] };
    let mut it = std::env::args().skip(1);
    while let Some(k) = it.next() {
        match k.as_str() {
            "--seed" => a.seed = it.next().unwrap().parse().unwrap(),
            "--n" => a.n = it.next().unwrap().parse().unwrap(),
            "--out" => a.out = it.next().unwrap(),
            "--cases" => a.cases = Some(it.next().unwrap()),
            other => a.extra.push(other.to_string()),
        }
    }
    a
}

pub fn panic_message(e: Box<dyn std::any::Any + Send>) -> String {
    if let Some(s) = e.downcast_ref::<&str>() {
        s.to_string()
    } else if let Some(s) = e.downcast_ref::<String>() {
        s.clone()
    } else {
        "panic".to_string()
    }
}

/// Generic main: writes cases.txt, impl.txt, oracle.txt, stats.json into --out.
pub fn main_loop<F: Family>() {
    let args = parse_args();
    std::panic::set_hook(Box::new(|_| {}));
    let cases: Vec<String> = match &args.cases {
        Some(p) => std::fs::read_to_string(p)
            .expect("cases file")
            .lines()
            .filter(|l| !l.trim().is_empty())
            .map(|l| l.to_string())
            .collect(),
        None => {
            let mut rng = Rng::new(args.seed);
            (0..args.n).map(|i| {
                let mut sub = rng.fork();
                F::gen(&mut sub, i)
            }).collect()
        }
    };
    std::fs::create_dir_all(&args.out).unwrap();
    let mut fc = std::io::BufWriter::new(std::fs::File::create(format!("{}/cases.txt", args.out)).unwrap());
    let mut fi = std::io::BufWriter::new(std::fs::File::create(format!("{}/impl.txt", args.out)).unwrap());
    let mut fo = std::io::BufWriter::new(std::fs::File::create(format!("{}/oracle.txt", args.out)).unwrap());
    for case in &cases {
        let run1 = |case: &str| match catch_unwind(AssertUnwindSafe(|| F::run(case))) {
            Ok(o) => o,
            Err(e) => Outcome {
                impl_line: "PANIC".into(),
                oracle: Oracle::Fail(format!("harness-level panic: {}", panic_message(e).replace('\n', " "))),
            },
        };
        let mut out = run1(case);
        // A real-time scenario that fails while the machine is overloaded (load average above 1.5 x CPUs) is run
        // once more with its wall-clock limits stretched: a genuine violation reproduces, a missed deadline does
        // not.  On a machine that is not overloaded nothing is ever re-run.
        if matches!(out.oracle, Oracle::Fail(_)) && F::realtime(case) && overloaded() {
            stat("realtime_rerun_under_overload");
            std::env::set_var("VERIF_SLOW", "5");
            let again = run1(case);
            std::env::remove_var("VERIF_SLOW");
            if let Oracle::Fail(m2) = &again.oracle {
                let m1 = match &out.oracle {
                    Oracle::Fail(m) => m.clone(),
                    _ => String::new(),
                };
                out = Outcome { impl_line: again.impl_line.clone(), oracle: Oracle::Fail(format!("{} [again on re-run; first run: {}]", m2, m1)) };
            } else {
                stat("realtime_rerun_passed");
                out = again;
            }
        }
        writeln!(fc, "{}", case).unwrap();
        writeln!(fi, "{}", out.impl_line.replace('\n', " ")).unwrap();
        match out.oracle {
            Oracle::Ok => writeln!(fo, "ok").unwrap(),
            Oracle::Fail(m) => writeln!(fo, "FAIL {}", m.replace('\n', " ")).unwrap(),
            Oracle::Known(c, m) => writeln!(fo, "KNOWN {} {}", c, m.replace('\n', " ")).unwrap(),
        }
    }
    let mut js = String::from("{");
    STATS.with(|s| {
        let mut first = true;
        for (k, v) in s.borrow().iter() {
            if !first {
                js.push(',');
            }
            first = false;
            let _ = write!(js, "\"{}\":{}", k.replace('"', "'"), v);
        }
    });
    js.push('}');
    std::fs::write(format!("{}/stats.json", args.out), js).unwrap();
}
