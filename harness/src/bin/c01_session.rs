//! C01 (part s), full stack: the TCP *session task* (tcp_session.rs) under the real runtime.
//!
//! Two machines (Tcp / Ipv4 / [Arp] / Pci + a recording application) on one network.  Machine A opens a
//! connection to machine B, which listens; both applications write byte streams (pattern bytes that depend on
//! the side and on the position in the stream) on their own schedules, the link drops / duplicates / delays
//! selected frames, and a fault-free tail lets retransmission finish.  A `SessionObserver` records, per session,
//! every call the task makes on its TCB, in order, with full segment headers and text, and the snapshot of
//! the TCB the task started with.
//!
//! case line:
//!   `f=<0|n> mtu=<m> arp=<0|1> lat=<us> tail=<ms> inj=<J> plan=<seed>:<drop%>:<dup%>:<delay%>:<max delay ms>:<n> tgt=<T> wa=<W> wb=<W>`
//!   f: 0 = current-thread runtime with paused (virtual) time, n = multi-thread runtime with n workers
//!   plan: among the first n TCP frames given to the link, fate from hash(seed, TCP frame index)
//!   T: `-` or `<kind><k>:<fate>,...` - the k-th frame of a kind (syn, synack, data, ack, other; counted from 0)
//!      gets the fate (drop, dup, delay<ms>)
//!   W: `-` or `<gap ms>:<len>,...` - writes of the application on side A (the opener) / B (the listener), each
//!      after a sleep (0 = back to back; A starts right after Tcp::open returned, i.e. before the handshake
//!      completed; B starts when it is notified of the connection)
//!   tail: fault-free time after the last write
//!   inj: `-` or `<rst|fin>:<side>:<ms>` - a forged RST (or FIN|ACK) with the sequence number the side expects reaches
//!        the side's Tcp so long after Tcp::open returned (no liveness / quiescence expected afterwards)
//! impl line:
//!   `<ok|CRASH c|HANG> ;; S <lip>:<lport>-<rip>:<rport> <start snapshot> <event> <event> ... ;; S ...`
//!   events: C connected, I<seg> incoming, O<hex> outgoing, A<ns> advance_time, E<seg> emitted, F<hex> flushed,
//!           X<snapshot> ended, Z<n> = n idle rounds `A5000000 F-`
//!   seg: `sport.dport.seq.ack.ctl.wnd.urg.<text hex|->`
//!   snapshot: `st.listen.una.nxt.wnd.wl1.wl2.iss.irs.rnxt.rwnd.outlen.<retx>.oneshot.<insegs>.inlen.rto_ns.tw_ns.finp`
use elvis_core::{
    message::Message,
    network::verif::{FrameFate, FrameInfo},
    network::{Latency, NetworkBuilder},
    new_machine_arc,
    protocol::{DemuxError, NotifyType, StartError},
    protocols::{
        arp::subnetting::{Ipv4Mask, SubnetInfo},
        ipv4::{Ipv4, Ipv4Address, Recipient},
        tcp::verif::{install_session_observer, Segment, SessionEvent, SessionObserver, State, VerifSnapshot},
        tcp::Tcp,
        Arp, Endpoint, Endpoints, Pci,
    },
    run_internet, Control, IpTable, Machine, Protocol, Session, Shutdown,
};
use elvis_verif_harness::stack::*;
use elvis_verif_harness::*;
use std::collections::HashMap;
use std::fmt::Write as _;
use std::sync::atomic::{AtomicUsize, Ordering::SeqCst};
use std::sync::{Arc, Mutex};
use std::time::Duration;
use tokio::sync::Barrier;

// ------------------------------------------------------------------ case
#[derive(Clone, Debug, Default)]
struct Cfg {
    flavor: usize,
    mtu: u32,
    arp: bool,
    lat_us: u64,
    tail_ms: u64,
    /// forged segment: (kind rst|fin, receiving side, ms after Tcp::open returned)
    inj: Option<(String, usize, u64)>,
    seed: u64,
    drop: u64,
    dup: u64,
    delay: u64,
    maxdelay: u64,
    nfault: u64,
    tgt: Vec<(String, u64, String)>,
    w: [Vec<(u64, usize)>; 2],
}

fn parse_w(s: &str) -> Option<Vec<(u64, usize)>> {
    if s == "-" {
        return Some(vec![]);
    }
    s.split(',')
        .map(|x| {
            let (a, b) = x.split_once(':')?;
            Some((a.parse().ok()?, b.parse().ok()?))
        })
        .collect()
}

fn parse_case(case: &str) -> Option<Cfg> {
    let mut c = Cfg::default();
    for t in case.split_whitespace() {
        let (k, v) = t.split_once('=')?;
        match k {
            "f" => c.flavor = v.parse().ok()?,
            "mtu" => c.mtu = v.parse().ok()?,
            "arp" => c.arp = v == "1",
            "lat" => c.lat_us = v.parse().ok()?,
            "tail" => c.tail_ms = v.parse().ok()?,
            "inj" => {
                if v != "-" {
                    let p: Vec<&str> = v.split(':').collect();
                    if p.len() != 3 || (p[0] != "rst" && p[0] != "fin") {
                        return None;
                    }
                    c.inj = Some((p[0].to_string(), p[1].parse().ok()?, p[2].parse().ok()?));
                }
            }
            "plan" => {
                let p: Vec<u64> = v.split(':').map(|x| x.parse().ok()).collect::<Option<_>>()?;
                if p.len() != 6 {
                    return None;
                }
                c.seed = p[0];
                c.drop = p[1];
                c.dup = p[2];
                c.delay = p[3];
                c.maxdelay = p[4];
                c.nfault = p[5];
            }
            "tgt" => {
                if v != "-" {
                    for e in v.split(',') {
                        let (a, fate) = e.split_once(':')?;
                        let pos = a.find(|ch: char| ch.is_ascii_digit())?;
                        c.tgt.push((a[..pos].to_string(), a[pos..].parse().ok()?, fate.to_string()));
                    }
                }
            }
            "wa" => c.w[0] = parse_w(v)?,
            "wb" => c.w[1] = parse_w(v)?,
            _ => return None,
        }
    }
    if c.mtu < 100 || c.mtu > 65535 {
        return None;
    }
    Some(c)
}

/// byte at position p of the stream written on side s
fn pat(s: usize, p: usize) -> u8 {
    let mut x: u64 = (p as u64).wrapping_mul(2654435761).wrapping_add(s as u64 * 1000003 + 12345) & 0x3FFF_FFFF;
    x ^= x >> 13;
    x = x.wrapping_mul(40503) & 0x3FFF_FFFF;
    x ^= x >> 9;
    ((x >> 7) & 255) as u8
}

fn stream(s: usize, from: usize, len: usize) -> Vec<u8> {
    (from..from + len).map(|p| pat(s, p)).collect()
}

// ------------------------------------------------------------------ rendering
fn st_code(s: State) -> u8 {
    match s {
        State::SynSent => 1,
        State::SynReceived => 2,
        State::Established => 3,
        State::FinWait1 => 4,
        State::FinWait2 => 5,
        State::CloseWait => 6,
        State::Closing => 7,
        State::LastAck => 8,
        State::TimeWait => 9,
    }
}

fn seg_tok(s: &Segment) -> String {
    let h = &s.header;
    let c = h.ctl;
    let bits = c.fin() as u8 | (c.syn() as u8) << 1 | (c.rst() as u8) << 2 | (c.psh() as u8) << 3 | (c.ack() as u8) << 4 | (c.urg() as u8) << 5;
    format!("{}.{}.{}.{}.{}.{}.{}.{}", h.src_port, h.dst_port, h.seq, h.ack, bits, h.wnd, h.urg, hex(&s.text.to_vec()))
}

fn snap_tok(s: &VerifSnapshot) -> String {
    let mut o = String::new();
    let _ = write!(
        o,
        "{}.{}.{}.{}.{}.{}.{}.{}.{}.{}.{}.{}.",
        st_code(s.state), s.listen_initiated as u8, s.snd_una, s.snd_nxt, s.snd_wnd, s.snd_wl1, s.snd_wl2, s.snd_iss, s.rcv_irs,
        s.rcv_nxt, s.rcv_wnd, s.out_text_len
    );
    if s.retransmit.is_empty() {
        o.push('-');
    } else {
        let v: Vec<String> = s.retransmit.iter().map(|(q, l, sy, fi, n)| format!("{}:{}:{}:{}:{}", q, l, *sy as u8, *fi as u8, *n as u8)).collect();
        o.push_str(&v.join("/"));
    }
    let _ = write!(o, ".{}.", s.oneshot_len);
    if s.in_segments.is_empty() {
        o.push('-');
    } else {
        let v: Vec<String> = s.in_segments.iter().map(|(q, l)| format!("{}:{}", q, l)).collect();
        o.push_str(&v.join("/"));
    }
    let _ = write!(
        o,
        ".{}.{}.{}.{}",
        s.in_text_len,
        s.rto_nanos,
        s.time_wait_nanos.map(|x| x as i128).unwrap_or(-1),
        s.fin_pending as u8
    );
    o
}

fn ep_tok(e: &Endpoints) -> String {
    format!("{}:{}-{}:{}", e.local.address.to_u32(), e.local.port, e.remote.address.to_u32(), e.remote.port)
}

// ------------------------------------------------------------------ child: observer, applications
struct SessRec {
    ep: Endpoints,
    start: String,
    events: Vec<String>,
}

static TRACE: Mutex<Vec<SessRec>> = Mutex::new(Vec::new());

struct Obs;
impl SessionObserver for Obs {
    fn on_event(&self, ep: Endpoints, ev: SessionEvent) {
        let mut g = TRACE.lock().unwrap();
        if let SessionEvent::Start(t) = &ev {
            g.push(SessRec { ep, start: snap_tok(&t.verif_snapshot()), events: vec![] });
            return;
        }
        let tok = match ev {
            SessionEvent::Start(_) => unreachable!(),
            SessionEvent::Connected => "C".to_string(),
            SessionEvent::Incoming(s) => format!("I{}", seg_tok(s)),
            SessionEvent::Outgoing(m) => format!("O{}", hex(&m.to_vec())),
            SessionEvent::AdvanceTime(d) => format!("A{}", d.as_nanos()),
            SessionEvent::Emitted(s) => format!("E{}", seg_tok(s)),
            SessionEvent::Flushed(m) => format!("F{}", hex(&m.to_vec())),
            SessionEvent::Ended(t) => format!("X{}", snap_tok(&t.verif_snapshot())),
        };
        // the last record of these endpoints (a pair has at most one session: sessions are never removed)
        match g.iter_mut().rev().find(|r| r.ep == ep) {
            Some(r) => r.events.push(tok),
            None => g.push(SessRec { ep, start: "nostart".into(), events: vec![tok] }),
        }
    }
}

static RX: [Mutex<Vec<u8>>; 2] = [Mutex::new(Vec::new()), Mutex::new(Vec::new())];
static SESS: [Mutex<Option<Arc<dyn Session>>>; 2] = [Mutex::new(None), Mutex::new(None)];
static CONN: [AtomicUsize; 2] = [AtomicUsize::new(0), AtomicUsize::new(0)];
static DEMUX_CALLS: [AtomicUsize; 2] = [AtomicUsize::new(0), AtomicUsize::new(0)];
static EMPTY_DEMUX: AtomicUsize = AtomicUsize::new(0);
static STARTED: AtomicUsize = AtomicUsize::new(0);
static WAKE: tokio::sync::Notify = tokio::sync::Notify::const_new();

struct App {
    side: usize,
}

#[async_trait::async_trait]
impl Protocol for App {
    async fn start(&self, _shutdown: Shutdown, initialized: Arc<Barrier>, _machine: Arc<Machine>) -> Result<(), StartError> {
        initialized.wait().await;
        STARTED.fetch_add(1, SeqCst);
        WAKE.notify_waiters();
        Ok(())
    }

    fn demux(&self, message: Message, _caller: Arc<dyn Session>, _control: Control, _machine: Arc<Machine>) -> Result<(), DemuxError> {
        DEMUX_CALLS[self.side].fetch_add(1, SeqCst);
        if message.is_empty() {
            EMPTY_DEMUX.fetch_add(1, SeqCst);
        }
        RX[self.side].lock().unwrap().extend(message.to_vec());
        Ok(())
    }

    fn notify(&self, notification: NotifyType, caller: Arc<dyn Session>, _control: Control) {
        if notification == NotifyType::NewConnection {
            CONN[self.side].fetch_add(1, SeqCst);
            let mut g = SESS[self.side].lock().unwrap();
            if g.is_none() {
                *g = Some(caller);
            }
            drop(g);
            WAKE.notify_waiters();
        }
    }
}

#[derive(Clone, Copy, PartialEq, Eq, Hash, Debug)]
enum Kind {
    Syn,
    SynAck,
    Data,
    Ack,
    Other,
}

fn kind_name(k: Kind) -> &'static str {
    match k {
        Kind::Syn => "syn",
        Kind::SynAck => "synack",
        Kind::Data => "data",
        Kind::Ack => "ack",
        Kind::Other => "other",
    }
}

/// classify an IPv4 frame that carries TCP
fn tcp_kind(b: &[u8]) -> Option<Kind> {
    if b.len() < 40 || b[0] >> 4 != 4 || b[9] != 6 {
        return None;
    }
    let ihl = ((b[0] & 0xf) as usize) * 4;
    if b.len() < ihl + 20 {
        return None;
    }
    let fl = b[ihl + 13];
    let text = b.len() - ihl - 20;
    let (fin, syn, rst, ack) = (fl & 1 != 0, fl & 2 != 0, fl & 4 != 0, fl & 16 != 0);
    Some(if rst || fin {
        Kind::Other
    } else if syn && ack {
        Kind::SynAck
    } else if syn {
        Kind::Syn
    } else if text > 0 {
        Kind::Data
    } else if ack {
        Kind::Ack
    } else {
        Kind::Other
    })
}

fn mix(seed: u64, i: u64) -> u64 {
    let mut z = seed.wrapping_mul(0x9E37_79B9_7F4A_7C15).wrapping_add(i.wrapping_mul(0xBF58_476D_1CE4_E5B9)).wrapping_add(0x1234_5678);
    z = (z ^ (z >> 30)).wrapping_mul(0xBF58_476D_1CE4_E5B9);
    z = (z ^ (z >> 27)).wrapping_mul(0x94D0_49BB_1331_11EB);
    z ^ (z >> 31)
}

fn fate_of(s: &str) -> FrameFate {
    if s == "drop" {
        FrameFate::Drop
    } else if s == "dup" {
        FrameFate::Duplicate
    } else if let Some(ms) = s.strip_prefix("delay") {
        FrameFate::Delay(Duration::from_millis(ms.parse().unwrap_or(1)))
    } else {
        FrameFate::Deliver
    }
}

fn child(case: &str) -> ! {
    let cfg = match parse_case(case) {
        Some(c) => c,
        None => child_finish(&["badcase".to_string()]),
    };
    install_session_observer(Arc::new(Obs));
    let pc = cfg.clone();
    let counters: Mutex<(u64, HashMap<Kind, u64>)> = Mutex::new((0, HashMap::new()));
    Recorder::install(
        Box::new(move |_idx, f: &FrameInfo| {
            let bytes = f.message.to_vec();
            let kind = match tcp_kind(&bytes) {
                Some(k) => k,
                None => return FrameFate::Deliver,
            };
            let mut g = counters.lock().unwrap();
            let ti = g.0;
            g.0 += 1;
            let e = g.1.entry(kind).or_insert(0);
            let ki = *e;
            *e += 1;
            drop(g);
            let mut fate = FrameFate::Deliver;
            if let Some((_, _, fs)) = pc.tgt.iter().find(|(k, n, _)| k == kind_name(kind) && *n == ki) {
                fate = fate_of(fs);
            } else if ti < pc.nfault {
                let h = mix(pc.seed, ti);
                let r = h % 100;
                if r < pc.drop {
                    fate = FrameFate::Drop;
                } else if r < pc.drop + pc.dup {
                    fate = FrameFate::Duplicate;
                } else if r < pc.drop + pc.dup + pc.delay {
                    fate = FrameFate::Delay(Duration::from_micros(1 + (h >> 8) % (pc.maxdelay.max(1) * 1000)));
                }
            }
            let fs = match fate {
                FrameFate::Deliver => "deliver",
                FrameFate::Drop => "drop",
                FrameFate::Duplicate => "dup",
                FrameFate::Delay(_) => "delay",
            };
            log(format!("tcpframe {} {}", kind_name(kind), fs));
            fate
        }),
        false,
    );
    let flavor = if cfg.flavor == 0 { Flavor::CurrentPaused } else { Flavor::Multi(cfg.flavor) };
    let out = block_on(flavor, async move {
        start_clock();
        let mut nb = NetworkBuilder::new().mtu(cfg.mtu as u16);
        if cfg.lat_us > 0 {
            nb = nb.latency(Latency::constant(Duration::from_micros(cfg.lat_us)));
        }
        let network = nb.build();
        register_network(&network);
        let ip: [Ipv4Address; 2] = [[10, 0, 0, 1].into(), [10, 0, 0, 2].into()];
        let port: [u16; 2] = [40000 + (cfg.seed % 20000) as u16, 80 + (cfg.seed % 7) as u16];
        let mut machines = vec![];
        for side in 0..2 {
            if cfg.arp {
                let table: IpTable<Recipient> = [("0.0.0.0/0", Recipient::new(0, None))].into_iter().collect();
                let info = SubnetInfo { mask: Ipv4Mask::from_bitcount(0), default_gateway: Ipv4Address::from([1, 1, 1, 1]) };
                machines.push(new_machine_arc![
                    Tcp::new(),
                    Ipv4::new(table),
                    Pci::new([network.clone()]),
                    Arp::new().preconfig_subnet(ip[side], info),
                    App { side },
                ]);
            } else {
                let table: IpTable<Recipient> = [("0.0.0.0/0", Recipient::with_mac(0, (1 - side) as u64))].into_iter().collect();
                machines.push(new_machine_arc![Tcp::new(), Ipv4::new(table), Pci::new([network.clone()]), App { side }]);
            }
        }
        let ms = machines.clone();
        tokio::spawn(async move { run_internet(&ms, None).await });
        loop {
            let n = WAKE.notified();
            if STARTED.load(SeqCst) >= 2 {
                break;
            }
            n.await;
        }
        let app_id = std::any::TypeId::of::<App>();
        let mut out: Vec<String> = vec![];
        let lr = machines[1].protocol::<Tcp>().unwrap().listen(app_id, Endpoint::new(ip[1], port[1]), machines[1].clone());
        out.push(format!("listen {}", lr.is_ok()));
        let eps = Endpoints::new(Endpoint::new(ip[0], port[0]), Endpoint::new(ip[1], port[1]));
        let or = machines[0].protocol::<Tcp>().unwrap().open(app_id, eps, machines[0].clone()).await;
        out.push(format!("open {} {:?}", or.is_ok(), or.as_ref().err()));
        if let Ok(s) = or {
            *SESS[0].lock().unwrap() = Some(s);
        }
        // the two writers
        let mut handles = vec![];
        for side in 0..2 {
            let w = cfg.w[side].clone();
            let m = machines[side].clone();
            handles.push(tokio::spawn(async move {
                let mut sent = 0usize;
                if w.is_empty() {
                    return sent;
                }
                // B waits for its NewConnection notification (at most 20 s)
                let deadline = tokio::time::Instant::now() + Duration::from_secs(20);
                let sess = loop {
                    let n = WAKE.notified();
                    if let Some(s) = SESS[side].lock().unwrap().clone() {
                        break Some(s);
                    }
                    if tokio::time::timeout_at(deadline, n).await.is_err() {
                        break None;
                    }
                };
                let sess = match sess {
                    Some(s) => s,
                    None => return sent,
                };
                for (gap, len) in w {
                    if gap > 0 {
                        tokio::time::sleep(Duration::from_millis(gap)).await;
                    }
                    let _ = sess.send(Message::new(stream(side, sent, len)), m.clone());
                    sent += len;
                }
                sent
            }));
        }
        // a forged segment towards one side, built from what that side's task last emitted (its RCV.NXT is the
        // acknowledgement number it sends, its SND.NXT is at or after the sequence number it sends)
        if let Some((kind, to, at_ms)) = cfg.inj.clone() {
            let ms = machines.clone();
            handles.push(tokio::spawn(async move {
                tokio::time::sleep(Duration::from_millis(at_ms)).await;
                let last: Option<(u32, u32)> = {
                    let g = TRACE.lock().unwrap();
                    g.iter().find(|r| r.ep.local.port == port[to]).and_then(|r| {
                        r.events.iter().rev().find(|e| e.starts_with('E')).and_then(|e| {
                            let f: Vec<&str> = e[1..].split('.').collect();
                            Some((f.get(2)?.parse().ok()?, f.get(3)?.parse().ok()?))
                        })
                    })
                };
                if let Some((their_seq, their_ack)) = last {
                    let from = 1 - to;
                    // first a harmless duplicate acknowledgement, so that the forged segment is (usually) taken by the
                    // drain loop of the following round (l.67) and not by the timed receive (l.85)
                    for step in 0..2 {
                        let mut b = elvis_core::protocols::tcp::verif::TcpHeaderBuilder::new(port[from], port[to], their_ack);
                        b = if step == 0 {
                            b.ack(their_seq)
                        } else if kind == "rst" {
                            b.rst()
                        } else {
                            b.fin().ack(their_seq)
                        };
                        if let Ok(h) = b.wnd(65535).build(ip[from], ip[to], std::iter::empty(), 0) {
                            let body = h.serialize();
                            if let Ok(mut f) = elvis_core::protocols::ipv4::verif::build_ipv4_header(
                                ip[from], ip[to], 6, body.len() as u16, Default::default(), 0, 0, Default::default(),
                            ) {
                                f.extend(body);
                                let pci = ms[from].protocol::<Pci>().unwrap().open(0);
                                let _ = pci.send_pci(Message::new(f), Some(to as u64), std::any::TypeId::of::<Ipv4>());
                                if step == 1 {
                                    log(format!("injected {} to {}", kind, to));
                                }
                            }
                        }
                    }
                }
                0usize
            }));
        }
        let mut sent = [0usize; 2];
        for (side, h) in handles.into_iter().enumerate().take(2) {
            sent[side] = h.await.unwrap_or(0);
        }
        tokio::time::sleep(Duration::from_millis(cfg.tail_ms + cfg.inj.as_ref().map(|x| x.2).unwrap_or(0))).await;
        out.push(format!("sent {} {}", sent[0], sent[1]));
        out.push(format!("conn {} {}", CONN[0].load(SeqCst), CONN[1].load(SeqCst)));
        out.push(format!("demux {} {} {}", DEMUX_CALLS[0].load(SeqCst), DEMUX_CALLS[1].load(SeqCst), EMPTY_DEMUX.load(SeqCst)));
        out.push(format!("rx 0 {}", hex(&RX[0].lock().unwrap())));
        out.push(format!("rx 1 {}", hex(&RX[1].lock().unwrap())));
        let g = TRACE.lock().unwrap();
        for r in g.iter() {
            let mut line = format!("S {} {}", ep_tok(&r.ep), r.start);
            let mut i = 0;
            while i < r.events.len() {
                let mut n = 0;
                while i + 1 < r.events.len() && r.events[i] == "A5000000" && r.events[i + 1] == "F-" {
                    n += 1;
                    i += 2;
                }
                if n > 0 {
                    let _ = write!(line, " Z{}", n);
                } else {
                    line.push(' ');
                    line.push_str(&r.events[i]);
                    i += 1;
                }
            }
            out.push(line);
        }
        drop(g);
        out
    });
    child_finish(&out)
}

// ------------------------------------------------------------------ parent
struct Fam;

fn gen_writes(rng: &mut Rng, mss: usize, big_ok: bool) -> Vec<(u64, usize)> {
    let style = rng.below(10);
    let mut w = vec![];
    match style {
        0 => {}
        1..=3 => {
            // a few writes around the segment size
            for _ in 0..rng.range(1, 4) {
                let len = match rng.below(6) {
                    0 => mss,
                    1 => mss + 1,
                    2 => mss.saturating_sub(1).max(1),
                    3 => 2 * mss + rng.below(3) as usize,
                    4 => 1,
                    _ => rng.range(1, 3 * mss as u64) as usize,
                };
                w.push((*rng.pick(&[0u64, 0, 1, 5, 7, 30, 120]), len.min(20000)));
            }
        }
        4..=5 => {
            // many small writes, mostly back to back
            for _ in 0..rng.range(5, 40) {
                w.push((*rng.pick(&[0u64, 0, 0, 0, 1, 3, 6]), rng.range(1, 40) as usize));
            }
        }
        6 => {
            // one write above the 64 KiB window (only with a large segment size: the trace grows with the segment count)
            if big_ok {
                w.push((*rng.pick(&[0u64, 0, 10]), rng.range(65536, 150000) as usize));
                if rng.coin(1, 2) {
                    w.push((*rng.pick(&[0u64, 3, 50]), rng.range(1, 70000) as usize));
                }
            } else {
                w.push((0, rng.range(1000, 6000) as usize));
            }
        }
        7 => {
            // the window boundary
            if big_ok {
                w.push((0, *rng.pick(&[65534usize, 65535, 65536, 65537])));
                w.push((*rng.pick(&[0u64, 1, 20]), rng.range(1, 100) as usize));
            } else {
                w.push((0, rng.range(1, 2 * mss as u64) as usize));
            }
        }
        _ => {
            for _ in 0..rng.range(1, 8) {
                w.push((*rng.pick(&[0u64, 0, 2, 10, 60, 150, 250]), rng.range(1, 4 * mss as u64).min(30000) as usize));
            }
        }
    }
    w
}

fn fmt_w(w: &[(u64, usize)]) -> String {
    if w.is_empty() {
        "-".into()
    } else {
        w.iter().map(|(g, l)| format!("{}:{}", g, l)).collect::<Vec<_>>().join(",")
    }
}

impl Family for Fam {
    fn gen(rng: &mut Rng, idx: usize) -> String {
        let multi = idx % 16 == 15;
        let mtu: u32 = match rng.below(8) {
            0 => 100,
            1 => 101,
            2 => *rng.pick(&[150u32, 576, 1500]),
            3 => 1500,
            4 => 65535,
            5 => 65535,
            6 => 30000,
            _ => rng.range(100, 3000) as u32,
        };
        let mss = (mtu - 50) as usize;
        let big_ok = mss >= 20000 && !multi;
        let mut wa = gen_writes(rng, mss, big_ok);
        let big_b = rng.coin(1, 3);
        let mut wb = gen_writes(rng, mss, big_ok && big_b);
        if multi {
            for w in [&mut wa, &mut wb] {
                w.truncate(6);
                let spaced = rng.coin(3, 4);
                for x in w.iter_mut() {
                    x.0 = if spaced { x.0.clamp(5, 12) } else { x.0.min(10) };
                    x.1 = x.1.min(3000);
                }
            }
        }
        if mss < 200 {
            // keep the number of segments (and the trace) small
            for w in [&mut wa, &mut wb] {
                for x in w.iter_mut() {
                    x.1 = x.1.min(1500);
                }
            }
        }
        let (drop, dup, delay) = match rng.below(6) {
            0 => (0, 0, 0),
            1 => (rng.range(5, 30), 0, 0),
            2 => (0, rng.range(5, 40), 0),
            3 => (0, 0, rng.range(10, 60)),
            _ => (rng.range(0, 20), rng.range(0, 20), rng.range(0, 30)),
        };
        let nfault = if multi { rng.range(0, 12) } else { *rng.pick(&[0u64, 6, 12, 30, 80, 200]) };
        let maxdelay = if multi { 20 } else { *rng.pick(&[1u64, 4, 20, 90, 250]) };
        let mut tgt: Vec<String> = vec![];
        if rng.coin(1, 2) {
            let opts = ["syn0:drop", "syn0:dup", "syn0:delay150", "syn1:drop", "synack0:drop", "synack0:dup", "synack0:delay120",
                "synack1:drop", "data0:drop", "data0:dup", "data1:drop", "data0:delay130", "data2:dup", "ack0:drop", "ack1:drop",
                "ack0:dup", "ack2:delay40", "data3:drop", "ack3:drop"];
            for _ in 0..rng.range(1, 3) {
                let o = rng.pick(&opts).to_string();
                let key = o.split(':').next().unwrap().to_string();
                if !tgt.iter().any(|t| t.starts_with(&format!("{}:", key))) {
                    tgt.push(o);
                }
            }
        }
        let lat = *rng.pick(&[0u64, 0, 100, 1000, 2500, 7000]);
        let tail = if multi { 1500 } else { 2500 };
        // one case in seven: a forged RST or FIN reaches one side at some point of the exchange (the session task
        // must end on the reset / go on in CLOSE-WAIT, where Tcb::send ignores the application's text)
        let inj = if !multi && rng.coin(1, 7) {
            format!("{}:{}:{}", rng.pick(&["rst", "rst", "fin"]), rng.below(2), rng.pick(&[8u64, 15, 40, 130, 400]))
        } else {
            "-".to_string()
        };
        format!(
            "f={} mtu={} arp={} lat={} tail={} inj={} plan={}:{}:{}:{}:{}:{} tgt={} wa={} wb={}",
            if multi { 2 } else { 0 },
            mtu,
            rng.below(2),
            lat,
            tail,
            inj,
            rng.below(1_000_000),
            drop,
            dup,
            delay,
            maxdelay,
            nfault,
            if tgt.is_empty() { "-".to_string() } else { tgt.join(",") },
            fmt_w(&wa),
            fmt_w(&wb)
        )
    }

    fn realtime(case: &str) -> bool {
        parse_case(case).map_or(false, |c| c.flavor != 0)
    }

    fn run(case: &str) -> Outcome {
        let cfg = match parse_case(case) {
            Some(c) => c,
            None => return Outcome { impl_line: "ERR case".into(), oracle: Oracle::Ok },
        };
        let r = run_child(case, Duration::from_secs(120));
        let multi = cfg.flavor != 0;
        stat(if multi { "flavor multi" } else { "flavor paused" });
        if !r.clean {
            let tail: String = r.stderr_tail.lines().rev().find(|l| !l.trim().is_empty()).unwrap_or("").trim().chars().take(200).collect();
            if r.timed_out {
                stat("child HANG");
                return Outcome { impl_line: "HANG".into(), oracle: Oracle::Fail("the simulation did not finish within the wall-clock limit".into()) };
            }
            stat("child CRASH");
            return Outcome {
                impl_line: format!("CRASH {}", r.exit_code.unwrap_or(-1)),
                oracle: Oracle::Fail(format!("the simulation process died (exit {:?}; 1 = a task panicked); last stderr line: {}", r.exit_code, tail)),
            };
        }
        let mut fails: Vec<String> = vec![];
        let mut sent = [0usize; 2];
        let mut conn = [0usize; 2];
        let mut rx: [Vec<u8>; 2] = [vec![], vec![]];
        let mut sess_lines: Vec<String> = vec![];
        let mut empty_demux = 0usize;
        for l in &r.out {
            let t: Vec<&str> = l.split_whitespace().collect();
            match t.first().copied() {
                Some("listen") | Some("open") => {
                    if t.get(1) != Some(&"true") {
                        fails.push(format!("Tcp::{} failed", t[0]));
                    }
                }
                Some("sent") => {
                    sent = [t[1].parse().unwrap_or(0), t[2].parse().unwrap_or(0)];
                }
                Some("conn") => {
                    conn = [t[1].parse().unwrap_or(0), t[2].parse().unwrap_or(0)];
                }
                Some("demux") => {
                    empty_demux = t[3].parse().unwrap_or(0);
                }
                Some("rx") => {
                    let s: usize = t[1].parse().unwrap_or(0);
                    rx[s] = unhex(t.get(2).copied().unwrap_or("-"));
                }
                Some("S") => sess_lines.push(l.clone()),
                _ => {}
            }
        }
        // ---- distribution
        let total: [usize; 2] = [cfg.w[0].iter().map(|x| x.1).sum(), cfg.w[1].iter().map(|x| x.1).sum()];
        let mss = (cfg.mtu - 50) as usize;
        for side in 0..2 {
            for (g, l) in &cfg.w[side] {
                stat(if *g == 0 { "write back-to-back" } else { "write after a gap" });
                stat(if *l < mss.saturating_sub(1) {
                    "write size < mss-1"
                } else if *l <= mss + 1 {
                    "write size mss-1..mss+1"
                } else if *l < 65535 {
                    "write size mss+2..65534"
                } else if *l <= 65537 {
                    "write size 65535..65537"
                } else {
                    "write size > 65537"
                });
            }
            stat(match cfg.w[side].len() {
                0 => "writes per side 0",
                1..=4 => "writes per side 1-4",
                5..=12 => "writes per side 5-12",
                _ => "writes per side > 12",
            });
            if total[side] > 65535 {
                stat("stream above the 64 KiB window");
            }
        }
        if total[0] > 0 && total[1] > 0 {
            stat("both directions carry data");
        }
        if cfg.w[0].first().map(|x| x.0 == 0).unwrap_or(false) {
            stat("A writes before the handshake completes");
        }
        let mut nfaults = 0;
        for (_, e) in &r.events {
            if let Some(rest) = e.strip_prefix("tcpframe ") {
                let t: Vec<&str> = rest.split_whitespace().collect();
                if t.len() == 2 {
                    stat(&format!("frame {} {}", t[0], t[1]));
                    if t[1] != "deliver" {
                        nfaults += 1;
                    }
                }
            }
        }
        stat(match nfaults {
            0 => "faults per case 0",
            1..=3 => "faults per case 1-3",
            4..=15 => "faults per case 4-15",
            _ => "faults per case > 15",
        });
        stat(if cfg.arp { "arp" } else { "static mac" });
        // ---- the session traces
        struct Tr {
            local_port: u32,
            flushed: Vec<u8>,
            outgoing: Vec<u8>,
            out_msgs: Vec<Vec<u8>>,
            connected: usize,
            trailing_quiet: u64,
            ended: bool,
        }
        let mut trs: Vec<Tr> = vec![];
        for l in &sess_lines {
            let t: Vec<&str> = l.split_whitespace().collect();
            let lp: u32 = t[1].split('-').next().and_then(|a| a.split(':').nth(1)).and_then(|p| p.parse().ok()).unwrap_or(0);
            let mut tr = Tr { local_port: lp, flushed: vec![], outgoing: vec![], out_msgs: vec![], connected: 0, trailing_quiet: 0, ended: false };
            let mut seen_seq: std::collections::HashSet<String> = Default::default();
            let mut instr_in_round = 0;
            for tok in &t[3..] {
                let (k, rest) = tok.split_at(1);
                match k {
                    "C" => {
                        tr.connected += 1;
                        tr.trailing_quiet = 0;
                    }
                    "Z" => {
                        let n: u64 = rest.parse().unwrap_or(0);
                        tr.trailing_quiet += n;
                        stat(match n {
                            0..=20 => "idle stretch 1-20 rounds",
                            21..=100 => "idle stretch 21-100 rounds",
                            _ => "idle stretch > 100 rounds",
                        });
                    }
                    "A" => {
                        stat("advance_time calls outside idle rounds");
                    }
                    "I" => {
                        tr.trailing_quiet = 0;
                        instr_in_round += 1;
                        stat("instruction Incoming");
                    }
                    "O" => {
                        tr.trailing_quiet = 0;
                        tr.outgoing.extend(unhex(rest));
                        tr.out_msgs.push(unhex(rest));
                        instr_in_round += 1;
                        stat("instruction Outgoing");
                    }
                    "E" => {
                        tr.trailing_quiet = 0;
                        let f: Vec<&str> = rest.split('.').collect();
                        let key = format!("{}.{}.{}", f.get(2).unwrap_or(&""), f.get(4).unwrap_or(&""), f.get(7).map(|x| x.len()).unwrap_or(0));
                        let has_len = f.get(7).map(|x| *x != "-").unwrap_or(false) || f.get(4).map(|c| c.parse::<u32>().unwrap_or(0) & 3 != 0).unwrap_or(false);
                        if has_len && !seen_seq.insert(key) {
                            stat("retransmission emitted");
                        }
                        stat("segment emitted");
                    }
                    "F" => {
                        if rest != "-" {
                            tr.flushed.extend(unhex(rest));
                            stat("round flushed bytes");
                            tr.trailing_quiet = 0;
                        }
                        stat("round (non-idle)");
                        if instr_in_round >= 2 {
                            stat("round with >= 2 instructions drained");
                        }
                        instr_in_round = 0;
                    }
                    "X" => {
                        tr.ended = true;
                        stat("task ended");
                    }
                    _ => {}
                }
            }
            trs.push(tr);
        }
        stat(match trs.len() {
            0 => "sessions 0",
            1 => "sessions 1",
            2 => "sessions 2",
            _ => "sessions > 2",
        });
        // ---- the oracle (independent of the model)
        // side 0 = A (opener), side 1 = B (listener)
        let port_of_side = |side: usize| -> u32 {
            if side == 0 {
                40000 + (cfg.seed % 20000) as u32
            } else {
                80 + (cfg.seed % 7) as u32
            }
        };
        // The reference stream of a direction is what the application submitted, in the order of its send calls.
        // Recorded finding c02-write-reorder-multithread: on the multi-thread runtime TcpSession::send hands every
        // write to a freshly spawned task, so writes can reach the session task in another order.  Only there, and
        // only if the task handled exactly the submitted writes as whole pieces in another order, the order in which
        // the task handled them is the reference (and the case is reported under that class).
        let mut known: Vec<String> = vec![];
        let mut reference: [Vec<u8>; 2] = [stream(0, 0, sent[0]), stream(1, 0, sent[1])];
        for side in 0..2 {
            if let Some(t) = trs.iter().find(|t| t.local_port == port_of_side(side)) {
                let pre = t.outgoing.len() <= sent[side] && t.outgoing[..] == reference[side][..t.outgoing.len()];
                if !pre {
                    let mut off = 0;
                    let mut want: Vec<Vec<u8>> = vec![];
                    for (_, l) in &cfg.w[side] {
                        if off + l <= sent[side] {
                            want.push(stream(side, off, *l));
                        }
                        off += l;
                    }
                    let mut a = want.clone();
                    let mut b = t.out_msgs.clone();
                    a.sort();
                    b.sort();
                    if multi && a == b {
                        known.push(format!("side {}: the {} writes reached the session task in another order than they were issued", side, want.len()));
                        reference[side] = t.outgoing.clone();
                        stat("writes reordered before the session task (multi-thread, recorded finding)");
                    } else {
                        fails.push(format!("side {}: the Outgoing instructions the task handled are not a prefix of what the application sent", side));
                    }
                }
            }
        }
        for side in 0..2 {
            let peer = 1 - side;
            let tx = &reference[peer];
            let got = &rx[side];
            if got.len() > tx.len() || got[..] != tx[..got.len()] {
                let at = got.iter().zip(tx.iter()).position(|(a, b)| a != b).unwrap_or(tx.len().min(got.len()));
                fails.push(format!(
                    "bytes handed to the application on side {} are not a prefix of what side {} submitted: {} received, {} submitted, first difference at {}",
                    side, peer, got.len(), tx.len(), at
                ));
            }
        }
        if empty_demux > 0 {
            fails.push(format!("upstream.demux was called {} times with an empty message", empty_demux));
        }
        // the hook's view and the application's view of the flushed bytes must agree
        for side in 0..2 {
            let mine: Vec<&Tr> = trs.iter().filter(|t| t.local_port == port_of_side(side)).collect();
            if mine.len() > 1 {
                fails.push(format!("{} session tasks for one pair of endpoints on side {}", mine.len(), side));
            }
            if let Some(t) = mine.first() {
                if t.flushed != rx[side] {
                    fails.push(format!(
                        "side {}: the task's receive() calls returned {} bytes in total, the application was given {}",
                        side, t.flushed.len(), rx[side].len()
                    ));
                }
                if t.connected > 1 || conn[side] > 1 {
                    fails.push(format!("side {}: more than one NewConnection notification", side));
                }
                if t.connected != conn[side] {
                    fails.push(format!("side {}: task notified {} times, application notified {} times", side, t.connected, conn[side]));
                }
            }
        }
        // liveness: the faults are finite by construction (first n TCP frames + a few targeted frames) and the run
        // lasted through the fault-free tail
        let forged = r.events.iter().any(|(_, e)| e.starts_with("injected "));
        if cfg.inj.is_some() {
            stat(if forged { "forged segment injected" } else { "forged segment not injected (no segment emitted yet)" });
        }
        let full = sent == total;
        if !full && !forged {
            fails.push(format!("the applications could only submit {:?} of {:?} bytes (no session / no connection notification)", sent, total));
        }
        for side in 0..2 {
            let peer = 1 - side;
            if rx[side].len() < sent[peer] && !forged {
                fails.push(format!(
                    "liveness: side {} received {} of the {} bytes submitted by side {} although the network stopped losing segments {} ms before the end",
                    side, rx[side].len(), sent[peer], peer, cfg.tail_ms
                ));
            }
        }
        // quiescence: a non-empty retransmission queue re-emits within 100 ms + one round, i.e. within 21 idle rounds
        let need = if multi { 30 } else { 60 };
        for t in &trs {
            if !t.ended && t.trailing_quiet < need && !forged {
                fails.push(format!(
                    "quiescence: the session with local port {} was still emitting / handling instructions in its last {} rounds (only {} trailing idle rounds)",
                    t.local_port, need, t.trailing_quiet
                ));
            }
        }
        if trs.len() != 2 && !(forged && trs.len() == 1) {
            fails.push(format!("{} session traces recorded (expected 2)", trs.len()));
        }
        let impl_line = format!("ok ;; {}", sess_lines.join(" ;; "));
        let oracle = if !fails.is_empty() {
            Oracle::Fail(fails.join(" || "))
        } else if !known.is_empty() {
            Oracle::Known("c02-write-reorder-multithread".into(), known.join(" || "))
        } else {
            Oracle::Ok
        };
        Outcome { impl_line, oracle }
    }
}

fn main() {
    if let Some(case) = child_case() {
        child(&case);
    }
    main_loop::<Fam>();
}
