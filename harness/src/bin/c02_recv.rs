//! C02, unit level: the receive side of the Sockets API driven through its public interface.
//!
//! One machine [Udp, Tcp, Ipv4, Pci(no network), SocketAPI]; only `SocketAPI::start` is run (no run_internet,
//! hence no process-exiting panic hook).  A listening socket is created with the public calls; messages
//! "arrive" by calling `SocketAPI::demux` / `notify` (public through the `Protocol` trait) with the `Endpoints`
//! in the control block, exactly what a TCP session does; `accept`, `recv(n)`, `recv_msg`, `set_blocking` are
//! the calls under test.  Everything runs on a paused current-thread runtime: a call that parks is detected by
//! a virtual-time timeout.
//!
//! case: `<t> <backlog> | op op ...`   t: s|d = stream|datagram bound to the exact address, S|D = bound to 0.0.0.0
//!   D<r>:<hex> demux message for remote r      N<r> notify(NewConnection) for r      A accept
//!   R<r>:<n> recv(n) on r's socket             M<r> recv_msg                          B<r>:<0|1> set_blocking
//! result: one token per op (see `run_case`); `PANIC` ends the line.
use elvis_core::{
    protocol::{DemuxError, NotifyType},
    protocols::{
        ipv4::{Ipv4, Ipv4Address},
        socket_api::socket::{ProtocolFamily, Socket, SocketError, SocketType},
        tcp::Tcp,
        udp::Udp,
        Endpoint, Endpoints, Pci, SocketAPI,
    },
    session::SendError,
    Control, Machine, Message, Protocol, Session, Shutdown,
};
use elvis_verif_harness::*;
use std::sync::Arc;
use std::time::Duration;

struct NullSession;
impl Session for NullSession {
    fn send(&self, _message: Message, _machine: Arc<Machine>) -> Result<(), SendError> {
        Ok(())
    }
}

const LOCAL_IP: [u8; 4] = [10, 0, 0, 9];
const PORT: u16 = 0xbeef;

fn remote(r: usize) -> Endpoint {
    Endpoint::new(Ipv4Address::from([10, 0, 1, r as u8 + 1]), 5000 + r as u16)
}

#[derive(Debug, Clone)]
enum Op {
    Demux(usize, Vec<u8>),
    Notify(usize),
    Accept,
    Recv(usize, usize),
    RecvMsg(usize),
    SetBlocking(usize, bool),
}

fn parse_case(case: &str) -> Option<(char, usize, Vec<Op>)> {
    let (head, ops_s) = case.split_once('|')?;
    let h: Vec<&str> = head.split_whitespace().collect();
    if h.len() != 2 {
        return None;
    }
    let t = h[0].chars().next()?;
    let backlog: usize = h[1].parse().ok()?;
    let mut ops = vec![];
    for tok in ops_s.split_whitespace() {
        let (k, rest) = tok.split_at(1);
        let op = match k {
            "A" => Op::Accept,
            "N" => Op::Notify(rest.parse().ok()?),
            "M" => Op::RecvMsg(rest.parse().ok()?),
            "D" => {
                let (r, hx) = rest.split_once(':')?;
                Op::Demux(r.parse().ok()?, unhex(hx))
            }
            "R" => {
                let (r, n) = rest.split_once(':')?;
                Op::Recv(r.parse().ok()?, n.parse().ok()?)
            }
            "B" => {
                let (r, b) = rest.split_once(':')?;
                Op::SetBlocking(r.parse().ok()?, b == "1")
            }
            _ => return None,
        };
        ops.push(op);
    }
    Some((t, backlog, ops))
}

const PARK: Duration = Duration::from_millis(40);
/// read size of the final non-blocking drain
const DRAIN: usize = 100000;

struct Recv;

/// every byte names its remote endpoint (high 2 bits) and carries that remote's running counter (low 6 bits),
/// so that loss / duplication / reordering / delivery to another peer's socket changes the observed bytes
fn fresh(counters: &mut [u32; 4], r: usize, len: usize) -> Vec<u8> {
    (0..len)
        .map(|_| {
            counters[r] += 1;
            ((r as u8) << 6) | (counters[r] % 64) as u8
        })
        .collect()
}

impl Family for Recv {
    fn gen(rng: &mut Rng, _idx: usize) -> String {
        let t = *rng.pick(&['s', 'd', 'S', 'D']);
        let mode = rng.below(100);
        let mut counters = [rng.below(64) as u32, rng.below(64) as u32, rng.below(64) as u32, rng.below(64) as u32];
        let mut ops: Vec<String> = vec![];
        let nrem = if mode < 55 { 1 } else { rng.range(1, 4) as usize };
        let mut backlog = if rng.coin(1, 6) { rng.range(1, 2) } else { rng.range(3, 6) } as usize;
        if rng.coin(1, 60) {
            backlog = 0;
        }
        let len_of = |rng: &mut Rng| -> usize {
            match rng.below(10) {
                0 => 0,
                1 | 2 => 1,
                3..=6 => rng.range(2, 6) as usize,
                7 | 8 => rng.range(7, 14) as usize,
                _ => rng.range(15, 40) as usize,
            }
        };
        let n_of = |rng: &mut Rng| -> usize {
            match rng.below(12) {
                0 => 0,
                1 | 2 => 1,
                3..=7 => rng.range(2, 6) as usize,
                8 | 9 => rng.range(7, 14) as usize,
                10 => rng.range(15, 50) as usize,
                _ => 1000,
            }
        };
        if mode >= 95 {
            // overflow of the 255-slot channel, before or after accept
            let k = rng.range(250, 262) as usize;
            let before = rng.coin(1, 2);
            if rng.coin(1, 2) {
                ops.push("N0".into());
            }
            if before {
                for _ in 0..k {
                    ops.push(format!("D0:{}", hex(&fresh(&mut counters, 0, 1))));
                }
                ops.push("A".into());
            } else {
                ops.push(format!("D0:{}", hex(&fresh(&mut counters, 0, 2))));
                ops.push("A".into());
                for _ in 0..k {
                    ops.push(format!("D0:{}", hex(&fresh(&mut counters, 0, 1))));
                }
            }
            for _ in 0..rng.range(1, 4) {
                ops.push(format!("R0:{}", n_of(rng)));
            }
            ops.push(format!("D0:{}", hex(&fresh(&mut counters, 0, 3))));
            ops.push("R0:1000".into());
            ops.push("B0:0".into());
            ops.push(format!("R0:{}", DRAIN));
        } else {
            // structured: open the connections (by data or by notify), some messages before accept, then a mix
            let mut accepted = vec![false; nrem];
            for r in 0..nrem {
                if rng.coin(1, 3) {
                    ops.push(format!("N{}", r));
                }
                for _ in 0..rng.below(4) {
                    ops.push(format!("D{}:{}", r, hex(&fresh(&mut counters, r, len_of(rng)))));
                }
            }
            // usually accept early, so that most of the script works on live sockets
            for i in 0..nrem {
                if rng.coin(3, 4) {
                    ops.push("A".into());
                    accepted[i] = true;
                }
            }
            let steps = rng.range(4, 28);
            for _ in 0..steps {
                let r = rng.below(nrem as u64) as usize;
                match rng.below(100) {
                    0..=11 => {
                        ops.push("A".into());
                        // (which remote gets accepted is decided by the backlog order)
                        if let Some(i) = accepted.iter().position(|a| !*a) {
                            accepted[i] = true;
                        }
                    }
                    12..=44 => ops.push(format!("D{}:{}", r, hex(&fresh(&mut counters, r, len_of(rng))))),
                    45..=79 => ops.push(format!("R{}:{}", r, n_of(rng))),
                    80..=89 => ops.push(format!("M{}", r)),
                    90..=95 => ops.push(format!("B{}:{}", r, rng.below(2))),
                    _ => ops.push(format!("N{}", r)),
                }
                if rng.coin(1, 5) && !accepted.iter().all(|a| *a) {
                    ops.push("A".into());
                    if let Some(i) = accepted.iter().position(|a| !*a) {
                        accepted[i] = true;
                    }
                }
            }
            // drain
            for k in 0..nrem {
                ops.push(format!("B{}:0", k));
                ops.push(format!("R{}:{}", k, DRAIN));
            }
        }
        format!("{} {} | {}", t, backlog, ops.join(" "))
    }

    fn run(case: &str) -> Outcome {
        let (t, backlog, ops) = match parse_case(case) {
            Some(x) => x,
            None => return Outcome { impl_line: "ERR parse".into(), oracle: Oracle::Ok },
        };
        stat(&format!("type {}", t));
        stat(&format!("backlog {}", backlog.min(3)));
        for op in &ops {
            match op {
                Op::Demux(_, b) => stat(&format!("demux len {}", match b.len() { 0 => "0", 1 => "1", 2..=6 => "2-6", 7..=14 => "7-14", _ => "15+" })),
                Op::Notify(_) => stat("notify"),
                Op::Accept => stat("accept"),
                Op::Recv(_, n) => stat(&format!("recv n {}", match n { 0 => "0", 1 => "1", 2..=6 => "2-6", 7..=14 => "7-14", 15..=50 => "15-50", 1000 => "1000", _ => "drain" })),
                Op::RecvMsg(_) => stat("recv_msg"),
                Op::SetBlocking(..) => stat("set_blocking"),
            }
        }
        // run on a fresh paused current-thread runtime; tokens observed before a panic survive in `partial`
        let partial = Arc::new(std::sync::Mutex::new(Vec::<String>::new()));
        let p2 = partial.clone();
        let ops2 = ops.clone();
        let r = std::panic::catch_unwind(std::panic::AssertUnwindSafe(move || {
            let rt = tokio::runtime::Builder::new_current_thread().enable_all().start_paused(true).build().unwrap();
            rt.block_on(async move {
                let mut runner = ScriptRunner::new(t, backlog).await;
                for op in ops2 {
                    let tk = runner.step(op).await;
                    p2.lock().unwrap().push(tk);
                }
            })
        }));
        let panicked = r.is_err();
        let mut toks = partial.lock().unwrap().clone();
        if panicked {
            toks.push("PANIC".into());
        }
        for tk in &toks {
            let key = if let Some(i) = tk.find('=') { &tk[..i] } else { tk.as_str() };
            stat(&format!("result {}", key));
        }
        // ---------------- property oracle, independent of the model.  Per remote endpoint: what the reads
        // returned, concatenated, is a prefix of the messages the API accepted for THAT remote ("ok"), in
        // order (nothing lost, duplicated, reordered, nothing from another peer); every recv(n) returned at
        // most n bytes; recv_msg-only sockets get whole messages; after the final drain nothing is missing.
        let mut fails: Vec<String> = vec![];
        let mut fed: Vec<Vec<u8>> = vec![vec![]; 8]; // per remote
        let mut msgs_fed: Vec<Vec<Vec<u8>>> = vec![vec![]; 8];
        let mut got: Vec<Vec<u8>> = vec![]; // per accepted socket, in accept order
        let mut msgs_got: Vec<Vec<Vec<u8>>> = vec![];
        let mut only_msg: Vec<bool> = vec![];
        let mut drained: Vec<bool> = vec![];
        for (op, tk) in ops.iter().zip(toks.iter()) {
            match op {
                Op::Demux(r, b) => {
                    if tk == "ok" {
                        fed[*r].extend(b);
                        msgs_fed[*r].push(b.clone());
                        for d in drained.iter_mut() {
                            *d = false;
                        }
                    }
                }
                Op::Accept => {
                    if tk == "a" {
                        got.push(vec![]);
                        msgs_got.push(vec![]);
                        only_msg.push(true);
                        drained.push(false);
                    }
                }
                Op::Recv(k, n) => {
                    if let Some(h) = tk.strip_prefix("r=") {
                        let v = unhex(h);
                        if v.len() > *n {
                            fails.push(format!("recv({}) returned {} bytes", n, v.len()));
                            stat("oracle bound exceeded");
                        }
                        got[*k].extend(v);
                        only_msg[*k] = false;
                        if *n == DRAIN {
                            drained[*k] = true;
                        }
                    } else if tk.starts_with("rerr") {
                        fails.push(format!("recv on a connected socket returned an error: {}", tk));
                    }
                }
                Op::RecvMsg(k) => {
                    if let Some(h) = tk.strip_prefix("m=") {
                        let v = unhex(h);
                        got[*k].extend(&v);
                        msgs_got[*k].push(v);
                    }
                }
                _ => {}
            }
        }
        let mut owners: Vec<usize> = vec![];
        for k in 0..got.len() {
            // the peer of socket k, named by the first byte it ever returned
            let owner = match got[k].first() {
                Some(b) => (*b >> 6) as usize,
                None => continue,
            };
            if owners.contains(&owner) {
                fails.push(format!("two sockets returned bytes of remote {}", owner));
            }
            owners.push(owner);
            if !fed[owner].starts_with(&got[k]) {
                fails.push(format!("socket {}: bytes read are not a prefix of the bytes delivered for its peer {}", k, owner));
            }
            let nonempty: Vec<Vec<u8>> = msgs_fed[owner].iter().filter(|m| !m.is_empty()).cloned().collect();
            let got_nonempty: Vec<Vec<u8>> = msgs_got[k].iter().filter(|m| !m.is_empty()).cloned().collect();
            if only_msg[k] && !nonempty.starts_with(&got_nonempty) {
                fails.push(format!("socket {}: recv_msg results are not a prefix of the delivered messages", k));
            }
            if !panicked && drained[k] && got[k].len() != fed[owner].len() {
                fails.push(format!("socket {} (peer {}): {} bytes delivered, {} read after the final drain", k, owner, fed[owner].len(), got[k].len()));
            }
            stat("oracle socket checked");
        }
        let oracle = if fails.is_empty() { Oracle::Ok } else { Oracle::Fail(fails.join("; ")) };
        Outcome { impl_line: toks.join(" "), oracle }
    }
}

/// The real Sockets API of one machine, driven one op at a time.
struct ScriptRunner {
    machine: Arc<Machine>,
    api: Arc<SocketAPI>,
    _shutdown: Shutdown,
    listener: Socket,
    local: Endpoint,
    caller: Arc<dyn Session>,
    socks: Vec<Socket>,
}

impl ScriptRunner {
    async fn new(t: char, backlog: usize) -> Self {
        let local_ip = Ipv4Address::from(LOCAL_IP);
        let machine = elvis_core::new_machine_arc![
            Udp::new(),
            Tcp::new(),
            Ipv4::new(Default::default()),
            Pci::new([]),
            SocketAPI::new(Some(local_ip)),
        ];
        let api = machine.protocol::<SocketAPI>().unwrap();
        let shutdown = Shutdown::new();
        api.start(shutdown.clone(), Arc::new(tokio::sync::Barrier::new(1)), machine.clone()).await.unwrap();
        let sock_type = if t == 's' || t == 'S' { SocketType::Stream } else { SocketType::Datagram };
        let mut listener = api.new_socket(ProtocolFamily::INET, sock_type, machine.clone()).await.unwrap();
        let bind_ip = if t.is_uppercase() { Ipv4Address::CURRENT_NETWORK } else { local_ip };
        listener.bind(Endpoint::new(bind_ip, PORT)).unwrap();
        // Socket::listen -> mpsc::channel(backlog): backlog 0 panics inside tokio
        listener.listen(backlog).unwrap();
        ScriptRunner {
            machine,
            api,
            _shutdown: shutdown,
            listener,
            local: Endpoint::new(local_ip, PORT),
            caller: Arc::new(NullSession),
            socks: vec![],
        }
    }

    async fn step(&mut self, op: Op) -> String {
        match op {
            Op::Demux(r, bytes) => {
                let mut control = Control::new();
                control.insert(Endpoints::new(self.local, remote(r)));
                match self.api.demux(Message::new(bytes), self.caller.clone(), control, self.machine.clone()) {
                    Ok(()) => "ok".to_string(),
                    Err(DemuxError::ClosedSession) => "closed".to_string(),
                    Err(DemuxError::MissingSession) => "missing".to_string(),
                    Err(e) => format!("other:{:?}", e),
                }
            }
            Op::Notify(r) => {
                let mut control = Control::new();
                control.insert(Endpoints::new(self.local, remote(r)));
                self.api.notify(NotifyType::NewConnection, self.caller.clone(), control);
                "n".into()
            }
            Op::Accept => match tokio::time::timeout(PARK, self.listener.accept()).await {
                Err(_) => "block".into(),
                Ok(Ok(s)) => {
                    // (the accepted socket does not tell its peer through the public interface: sockets are
                    // addressed by accept order; the oracle identifies the peer from the bytes)
                    self.socks.push(s);
                    "a".into()
                }
                Ok(Err(SocketError::AcceptError)) => "aerr".to_string(),
                Ok(Err(e)) => format!("aerr:{:?}", e),
            },
            Op::Recv(r, n) => match self.socks.get_mut(r) {
                None => "nosock".into(),
                Some(s) => match tokio::time::timeout(PARK, s.recv(n)).await {
                    Err(_) => "block".into(),
                    Ok(Ok(v)) => format!("r={}", hex(&v)),
                    Ok(Err(e)) => format!("rerr:{:?}", e),
                },
            },
            Op::RecvMsg(r) => match self.socks.get_mut(r) {
                None => "nosock".into(),
                Some(s) => match tokio::time::timeout(PARK, s.recv_msg()).await {
                    Err(_) => "block".into(),
                    Ok(Ok(m)) => format!("m={}", hex(&m.to_vec())),
                    Ok(Err(SocketError::ReceiveError)) => "err".into(),
                    Ok(Err(e)) => format!("merr:{:?}", e),
                },
            },
            Op::SetBlocking(r, b) => match self.socks.get_mut(r) {
                None => "nosock".into(),
                Some(s) => {
                    s.set_blocking(b);
                    "b".into()
                }
            },
        }
    }
}

fn main() {
    main_loop::<Recv>();
}
