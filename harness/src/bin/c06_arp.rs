//! C06: ARP resolves an address to its owner's (or the gateway's) MAC.
//! Full-stack scenario bin: the REAL `Arp` protocol on 2..6 machines of one network, harness
//! applications calling `Arp::resolve` (or `Ipv4::open_for_sending`) concurrently, a per-frame
//! fate plan over the ARP frames; the recorded run is rendered as a labelled trace of the Coq
//! model (Model/ArpProto.v) which the extracted validator replays (`validate` stage), and the
//! property oracle is evaluated here from the recorded events only.
//!
//! case  = `<flavor> <mtu> | <machine>;... | <action>;... | <default> <idx>:<fate>,...`
//!   flavor   0 = current-thread runtime with paused clock, n>0 = multi-thread runtime, n workers
//!   mtu      0 = Network::basic(), else NetworkBuilder::mtu(mtu)
//!   machine  `ip,ip,...:ip/bits/gw,...`  claimed addresses : preconfigured subnets (`-` = none)
//!   action   `R rid m off_ms local remote slot via` resolve (via 0 = Arp::resolve, 1 = Ipv4::open_for_sending)
//!            `L m off_ms ip` Arp::listen (off 0 = before the start barrier)
//!            `S m off_ms ip bits gw` Arp::set_subnet
//!   plan     default fate of ARP frames `k` (deliver) | `d` (drop); exceptions by running frame
//!            index: `k` `d` `u` (duplicate) `y<ms>` (delay)
//! result (paused runtime) = `m <mac>.. ; <label> ; ... # <rid> <ok:mac|err> <t_ns> ...`
//!   labels: `l t m ip` `s t m ip mask gw` `b t m rid local remote slot` `p t rid`
//!           `d|x|u t oper smac sip tmac tip m`
//! result (multi-thread)   = `M <mac>.. # <m> <local> <remote> <mask|-> <gw|-> <ok:mac|err> ...`
use elvis_core::{
    message::Message,
    network::verif::FrameFate,
    new_machine_arc,
    protocol::{DemuxError, StartError},
    protocols::{
        arp::subnetting::{Ipv4Mask, SubnetInfo},
        ipv4::{AddressPair, Ipv4, Ipv4Address, Recipient},
        Arp, Pci,
    },
    run_internet, Control, IpTable, Machine, Network, Protocol, Session, Shutdown,
};
use elvis_core::network::NetworkBuilder;
use elvis_verif_harness::stack::*;
use elvis_verif_harness::*;
use std::any::TypeId;
use std::collections::{BTreeMap, HashMap};
use std::sync::atomic::{AtomicUsize, Ordering};
use std::sync::Arc;
use std::time::Duration;
use tokio::sync::Barrier;

const DELAY_NS: u128 = 200_000_000;
const TRIES: u128 = 10;

// ------------------------------------------------------------------ case

#[derive(Clone, Debug)]
struct MachineSpec {
    claims: Vec<u32>,
    pre: Vec<(u32, u32, u32)>, // ip, bits, gw
}

#[derive(Clone, Debug)]
enum Action {
    Resolve { rid: u32, m: usize, off: u64, local: u32, remote: u32, slot: u32, via: bool },
    Listen { m: usize, off: u64, ip: u32 },
    Subnet { m: usize, off: u64, ip: u32, bits: u32, gw: u32 },
}

#[derive(Clone, Copy, Debug, PartialEq)]
enum Fate {
    Keep,
    Drop,
    Dup,
    Delay(u64),
}

#[derive(Clone, Debug)]
struct Case {
    flavor: usize,
    mtu: u16,
    machines: Vec<MachineSpec>,
    actions: Vec<Action>,
    default: Fate,
    plan: BTreeMap<usize, Fate>,
}

fn parse_fate(s: &str) -> Fate {
    match s.as_bytes()[0] {
        b'k' => Fate::Keep,
        b'd' => Fate::Drop,
        b'u' => Fate::Dup,
        b'y' => Fate::Delay(s[1..].parse().unwrap()),
        _ => panic!("fate"),
    }
}

fn fate_str(f: Fate) -> String {
    match f {
        Fate::Keep => "k".into(),
        Fate::Drop => "d".into(),
        Fate::Dup => "u".into(),
        Fate::Delay(ms) => format!("y{}", ms),
    }
}

fn parse_case(s: &str) -> Case {
    let secs: Vec<&str> = s.split('|').map(|x| x.trim()).collect();
    let h: Vec<&str> = secs[0].split_whitespace().collect();
    let machines = secs[1]
        .split(';')
        .map(|ms| {
            let (c, p) = ms.trim().split_once(':').unwrap();
            let claims = c.split(',').filter(|x| !x.is_empty()).map(|x| x.parse().unwrap()).collect();
            let pre = if p == "-" {
                vec![]
            } else {
                p.split(',')
                    .map(|e| {
                        let f: Vec<u32> = e.split('/').map(|x| x.parse().unwrap()).collect();
                        (f[0], f[1], f[2])
                    })
                    .collect()
            };
            MachineSpec { claims, pre }
        })
        .collect();
    let actions = secs[2]
        .split(';')
        .filter(|x| !x.trim().is_empty())
        .map(|a| {
            let t: Vec<&str> = a.split_whitespace().collect();
            let n = |i: usize| -> u64 { t[i].parse().unwrap() };
            match t[0] {
                "R" => Action::Resolve {
                    rid: n(1) as u32,
                    m: n(2) as usize,
                    off: n(3),
                    local: n(4) as u32,
                    remote: n(5) as u32,
                    slot: n(6) as u32,
                    via: n(7) != 0,
                },
                "L" => Action::Listen { m: n(1) as usize, off: n(2), ip: n(3) as u32 },
                "S" => Action::Subnet { m: n(1) as usize, off: n(2), ip: n(3) as u32, bits: n(4) as u32, gw: n(5) as u32 },
                _ => panic!("action"),
            }
        })
        .collect();
    let p: Vec<&str> = secs[3].split_whitespace().collect();
    let default = parse_fate(p[0]);
    let mut plan = BTreeMap::new();
    if p.len() > 1 && p[1] != "-" {
        for e in p[1].split(',') {
            let (i, f) = e.split_once(':').unwrap();
            plan.insert(i.parse().unwrap(), parse_fate(f));
        }
    }
    Case { flavor: h[0].parse().unwrap(), mtu: h[1].parse().unwrap(), machines, actions, default, plan }
}

// ------------------------------------------------------------------ child: the real simulation

static REMAINING: AtomicUsize = AtomicUsize::new(0);

struct Driver {
    m: usize,
    actions: Vec<Action>,
    grace: Duration,
}

fn ip(a: u32) -> Ipv4Address {
    Ipv4Address::from(a)
}

async fn do_action(a: Action, machine: Arc<Machine>, _me: TypeId) {
    let arp = machine.protocol::<Arp>().expect("arp");
    match a {
        Action::Listen { m, off, ip: a } => {
            tokio::time::sleep(Duration::from_millis(off)).await;
            log(format!("listen {} {}", m, a));
            arp.listen(ip(a));
        }
        Action::Subnet { m, off, ip: a, bits, gw } => {
            tokio::time::sleep(Duration::from_millis(off)).await;
            log(format!("subnet {} {} {} {}", m, a, bits, gw));
            arp.set_subnet(ip(a), SubnetInfo::new(Ipv4Mask::from_bitcount(bits), ip(gw)));
        }
        Action::Resolve { rid, m, off, local, remote, slot, via } => {
            if off > 0 {
                tokio::time::sleep(Duration::from_millis(off)).await;
            }
            let pair = AddressPair { local: ip(local), remote: ip(remote) };
            log(format!("start {} {} {} {} {} {}", rid, m, local, remote, slot, via as u8));
            if via {
                let ipv4 = machine.protocol::<Ipv4>().expect("ipv4");
                match ipv4.open_for_sending(TypeId::of::<elvis_core::protocols::Udp>(), pair, machine.clone()).await {
                    Ok(session) => {
                        log(format!("done {} okv", rid));
                        let tag = vec![0xC0, 0x06, (rid >> 8) as u8, rid as u8];
                        let _ = session.send(Message::new(tag), machine.clone());
                    }
                    Err(e) => log(format!("done {} err {}", rid, format!("{:?}", e).replace(' ', ""))),
                }
            } else {
                match arp.resolve(pair, slot, machine.clone()).await {
                    Ok(mac) => log(format!("done {} ok {}", rid, mac)),
                    Err(_) => log(format!("done {} err", rid)),
                }
            }
        }
    }
}

#[async_trait::async_trait]
impl Protocol for Driver {
    async fn start(&self, shutdown: Shutdown, initialized: Arc<Barrier>, machine: Arc<Machine>) -> Result<(), StartError> {
        let arp = machine.protocol::<Arp>().expect("arp");
        let mut later = vec![];
        for a in self.actions.iter() {
            match a {
                Action::Listen { m, off: 0, ip: a } => {
                    log(format!("listen {} {}", m, a));
                    arp.listen(ip(*a));
                }
                other => later.push(other.clone()),
            }
        }
        initialized.wait().await;
        let me = self.id();
        let mut handles = vec![];
        for a in later {
            handles.push(tokio::spawn(do_action(a, machine.clone(), me)));
        }
        for h in handles {
            if h.await.is_err() {
                // a panic inside resolve: run_internet's hook has already ended the process
                std::process::exit(1);
            }
        }
        let _ = self.m;
        if REMAINING.fetch_sub(1, Ordering::SeqCst) == 1 {
            tokio::time::sleep(self.grace).await;
            shutdown.shut_down();
        }
        Ok(())
    }

    fn demux(&self, _m: Message, _c: Arc<dyn Session>, _ctl: Control, _machine: Arc<Machine>) -> Result<(), DemuxError> {
        Ok(())
    }
}

fn child(case_s: &str) -> ! {
    let case = parse_case(case_s);
    let flavor = if case.flavor == 0 { Flavor::CurrentPaused } else { Flavor::Multi(case.flavor) };
    let plan = case.plan.clone();
    let default = case.default;
    Recorder::install(
        Box::new(move |idx, f| {
            if f.protocol != TypeId::of::<Arp>() {
                return FrameFate::Deliver;
            }
            match plan.get(&idx).copied().unwrap_or(default) {
                Fate::Keep => FrameFate::Deliver,
                Fate::Drop => FrameFate::Drop,
                Fate::Dup => FrameFate::Duplicate,
                Fate::Delay(ms) => FrameFate::Delay(Duration::from_millis(ms)),
            }
        }),
        true,
    );
    let max_delay = case.plan.values().map(|f| if let Fate::Delay(ms) = f { *ms } else { 0 }).max().unwrap_or(0);
    let grace = Duration::from_millis(if case.flavor == 0 { 2 * max_delay + 500 } else { max_delay + 30 });
    let out = block_on(flavor, async move {
        start_clock();
        let network = if case.mtu == 0 { Network::basic() } else { NetworkBuilder::new().mtu(case.mtu).build() };
        register_network(&network);
        REMAINING.store(case.machines.len(), Ordering::SeqCst);
        let mut machines = vec![];
        for (i, ms) in case.machines.iter().enumerate() {
            let table: IpTable<Recipient> = ms.claims.iter().map(|a| (ip(*a), Recipient::new(0, None))).collect();
            let mut arp = Arp::new();
            for (a, bits, gw) in ms.pre.iter() {
                arp = arp.preconfig_subnet(ip(*a), SubnetInfo::new(Ipv4Mask::from_bitcount(*bits), ip(*gw)));
            }
            let actions: Vec<Action> = case
                .actions
                .iter()
                .filter(|a| match a {
                    Action::Resolve { m, .. } | Action::Listen { m, .. } | Action::Subnet { m, .. } => *m == i,
                })
                .cloned()
                .collect();
            machines.push(new_machine_arc![Driver { m: i, actions, grace }, Ipv4::new(table), arp, Pci::new([network.clone()]),]);
        }
        let macs: Vec<String> =
            machines.iter().map(|m| m.protocol::<Pci>().unwrap().mac_addresses().map(|x| x.to_string()).collect::<Vec<_>>().join("+")).collect();
        let status = run_internet(&machines, None).await;
        vec![format!("macs {}", macs.join(" ")), format!("status {:?}", status)]
    });
    child_finish(&out)
}

// ------------------------------------------------------------------ parent: trace + oracle

#[derive(Clone, Debug, PartialEq)]
struct Pkt {
    oper: u16,
    smac: u64,
    sip: u32,
    tmac: u64,
    tip: u32,
}

/// independent parse of the 28-byte ARP body (layout of the Ethernet/IPv4 ARP packet)
fn parse_arp(b: &[u8]) -> Option<Pkt> {
    if b.len() != 28 {
        return None;
    }
    let be = |s: &[u8]| s.iter().fold(0u64, |a, x| (a << 8) | *x as u64);
    Some(Pkt { oper: be(&b[6..8]) as u16, smac: be(&b[8..14]), sip: be(&b[14..18]) as u32, tmac: be(&b[18..24]), tip: be(&b[24..28]) as u32 })
}

fn kv<'a>(text: &'a str, key: &str) -> Option<&'a str> {
    text.split_whitespace().find_map(|t| t.strip_prefix(key).and_then(|r| r.strip_prefix('=')))
}

fn mask_of(bits: u32) -> u32 {
    let b = bits.min(32);
    if b == 0 {
        0
    } else {
        u32::MAX << (32 - b)
    }
}

/// the address the property says must be looked up
fn expected_target(sub: Option<(u32, u32)>, local: u32, remote: u32) -> u32 {
    match sub {
        Some((mask, gw)) if (local & mask) != (remote & mask) => gw,
        _ => remote,
    }
}

#[derive(Clone, Debug)]
struct Res {
    rid: u32,
    m: usize,
    local: u32,
    remote: u32,
    via: bool,
    born: u128,
    born_pos: usize,
    sub: Option<(u32, u32)>,
    dest: u32,
    sent: u32,
    deadline: u128,
    done: Option<(Option<u64>, u128, usize)>, // (mac | err, time, log position)
    okv: bool,
}

struct C06;

fn pkt_label(kind: &str, t: u128, p: &Pkt, m: usize) -> String {
    format!("{} {} {} {} {} {} {} {}", kind, t, p.oper, p.smac, p.sip, p.tmac, p.tip, m)
}

impl Family for C06 {
    fn gen(rng: &mut Rng, idx: usize) -> String {
        gen_case(rng, idx)
    }

    fn realtime(case: &str) -> bool {
        parse_case(case).flavor != 0
    }

    fn run(case_s: &str) -> Outcome {
        let case = parse_case(case_s);
        let paused = case.flavor == 0;
        let mut r = run_child(case_s, Duration::from_secs(if paused { 20 } else { 30 }));
        if r.timed_out {
            // the machine may be heavily loaded: a genuine hang of a deterministic scenario reproduces
            stat("retry.after_wall_timeout");
            r = run_child(case_s, Duration::from_secs(60));
        }
        stat(if paused { "flavor.paused" } else { "flavor.multi" });
        stat(&format!("machines.{}", case.machines.len()));
        if r.timed_out {
            stat("outcome.HANG");
            return Outcome { impl_line: "HANG".into(), oracle: Oracle::Fail("the simulation did not finish (a resolver hangs?)".into()) };
        }
        let expects_panic = case.actions.iter().any(|a| matches!(a, Action::Resolve { slot, via, .. } if *slot > 0 && !*via));
        if !r.clean {
            stat("outcome.CRASH");
            let line = format!("CRASH code={:?}", r.exit_code);
            // Pci::open documents the panic for a slot the machine does not have
            let oracle = if expects_panic {
                Oracle::Ok
            } else {
                Oracle::Fail(format!("child crashed: {}", r.stderr_tail.replace('\n', " ")))
            };
            return Outcome { impl_line: line, oracle };
        }
        // real MACs, from Pci
        let macs: Vec<u64> = r
            .out
            .iter()
            .find_map(|l| l.strip_prefix("macs "))
            .map(|l| l.split_whitespace().map(|x| x.parse().unwrap_or(u64::MAX)).collect())
            .unwrap_or_default();
        let mach_of_mac = |mac: u64| macs.iter().position(|x| *x == mac);
        let nm = case.machines.len();

        // subnet configuration over time (for the oracle's expected target)
        let mut subnets: Vec<HashMap<u32, (u32, u32)>> =
            case.machines.iter().map(|ms| ms.pre.iter().map(|(a, b, g)| (*a, (mask_of(*b), *g))).collect()).collect();
        let mut res: Vec<Res> = vec![];
        let mut labels: Vec<(u128, String)> = vec![];
        let mut block_start = 0usize;
        let mut last_t: u128 = 0;
        let mut bytes_of: HashMap<(String, String, String), Vec<u8>> = HashMap::new();
        let mut unattributed = 0;
        // (log position, machine, sender ip) of every ARP delivery, for the oracle
        let mut heard: Vec<(usize, usize, u32, u64)> = vec![];
        let mut ipv4_to: HashMap<u32, String> = HashMap::new();
        let mut kinds: BTreeMap<&'static str, u32> = BTreeMap::new();

        for (pos, (t, text)) in r.events.iter().enumerate() {
            let t = *t;
            if t > last_t {
                block_start = labels.len();
                last_t = t;
            }
            let tok: Vec<&str> = text.split_whitespace().collect();
            match tok[0] {
                "listen" => labels.push((t, format!("l {} {} {}", t, tok[1], tok[2]))),
                "subnet" => {
                    let (m, a, bits, gw): (usize, u32, u32, u32) = (tok[1].parse().unwrap(), tok[2].parse().unwrap(), tok[3].parse().unwrap(), tok[4].parse().unwrap());
                    subnets[m].insert(a, (mask_of(bits), gw));
                    labels.push((t, format!("s {} {} {} {} {}", t, m, a, mask_of(bits), gw)));
                }
                "start" => {
                    let rid: u32 = tok[1].parse().unwrap();
                    let m: usize = tok[2].parse().unwrap();
                    let local: u32 = tok[3].parse().unwrap();
                    let remote: u32 = tok[4].parse().unwrap();
                    let sub = subnets[m].get(&local).copied();
                    let dest = expected_target(sub, local, remote);
                    res.push(Res { rid, m, local, remote, via: tok[6] == "1", born: t, born_pos: pos, sub, dest, sent: 0, deadline: 0, done: None, okv: false });
                    // Ipv4::open_for_sending takes the slot from its routing table (always 0 here)
                    let slot = if tok[6] == "1" { "0" } else { tok[5] };
                    labels.push((t, format!("b {} {} {} {} {} {}", t, m, rid, local, remote, slot)));
                }
                "done" => {
                    let rid: u32 = tok[1].parse().unwrap();
                    if let Some(x) = res.iter_mut().find(|x| x.rid == rid) {
                        let mac = match tok[2] {
                            "ok" => Some(tok[3].parse::<u64>().unwrap()),
                            "okv" => {
                                x.okv = true;
                                None
                            }
                            _ => None,
                        };
                        x.done = Some((mac, t, pos));
                        if x.sent > 0 {
                            labels.push((t, format!("p {} {}", t, rid)));
                        }
                    }
                }
                "send" => {
                    let proto = kv(text, "proto").unwrap_or("");
                    let bytes = unhex(kv(text, "bytes").unwrap_or("-"));
                    let from: u64 = kv(text, "from").unwrap().parse().unwrap();
                    let to = kv(text, "to").unwrap();
                    let fate = kv(text, "fate").unwrap();
                    if proto == "ipv4" {
                        if bytes.len() >= 4 && bytes[bytes.len() - 4] == 0xC0 && bytes[bytes.len() - 3] == 0x06 {
                            let rid = ((bytes[bytes.len() - 2] as u32) << 8) | bytes[bytes.len() - 1] as u32;
                            ipv4_to.insert(rid, to.to_string());
                        }
                        continue;
                    }
                    if proto != "arp" {
                        continue;
                    }
                    let p = match parse_arp(&bytes) {
                        Some(p) => p,
                        None => {
                            unattributed += 1;
                            continue;
                        }
                    };
                    bytes_of.insert((kv(text, "from").unwrap().to_string(), to.to_string(), kv(text, "hash").unwrap().to_string()), bytes.clone());
                    *kinds.entry(if p.oper == 1 { "frames.request" } else { "frames.reply" }).or_insert(0) += 1;
                    // a request is either the first one of a resolver born now, or a retry = a poll at a deadline
                    if p.oper == 1 {
                        if let Some(m) = mach_of_mac(from) {
                            let cand = res.iter_mut().find(|x| x.m == m && x.local == p.sip && x.dest == p.tip && x.done.is_none() && x.sent == 0 && x.born == t);
                            if let Some(x) = cand {
                                x.sent = 1;
                                x.deadline = t + DELAY_NS;
                            } else if let Some(x) =
                                res.iter_mut().find(|x| x.m == m && x.local == p.sip && x.dest == p.tip && x.sent > 0 && x.deadline == t && x.done.map(|d| d.1 >= t).unwrap_or(true) && (x.sent as u128) < TRIES)
                            {
                                x.sent += 1;
                                x.deadline = t + DELAY_NS;
                                labels.insert(block_start, (t, format!("p {} {}", t, x.rid)));
                            } else {
                                unattributed += 1;
                            }
                        } else {
                            unattributed += 1;
                        }
                    }
                    let dests: Vec<usize> = if to == "bcast" || to == "none" { (0..nm).collect() } else { to.parse::<u64>().ok().and_then(mach_of_mac).into_iter().collect() };
                    if fate == "drop" {
                        stat("fate.drop");
                        for d in dests {
                            labels.push((t, pkt_label("x", t, &p, d)));
                        }
                    } else if fate == "dup" {
                        stat("fate.dup");
                        for d in dests {
                            labels.push((t, pkt_label("u", t, &p, d)));
                        }
                    } else if fate.starts_with("delay") {
                        stat("fate.delay");
                    } else {
                        stat("fate.deliver");
                    }
                }
                "dlv" => {
                    if kv(text, "proto") != Some("arp") {
                        continue;
                    }
                    let key = (kv(text, "from").unwrap().to_string(), kv(text, "to").unwrap().to_string(), kv(text, "hash").unwrap().to_string());
                    let tap = kv(text, "tap").unwrap();
                    if tap == "none" {
                        continue;
                    }
                    match (bytes_of.get(&key).and_then(|b| parse_arp(b)), tap.parse::<u64>().ok().and_then(mach_of_mac)) {
                        (Some(p), Some(m)) => {
                            heard.push((pos, m, p.sip, p.smac));
                            labels.push((t, pkt_label("d", t, &p, m)));
                        }
                        _ => unattributed += 1,
                    }
                }
                _ => {}
            }
        }
        for (k, v) in kinds.iter() {
            for _ in 0..*v {
                stat(k);
            }
        }
        // Ipv4 path: the MAC the datagram was sent to
        for x in res.iter_mut() {
            if x.okv {
                if let Some((_, t, pos)) = x.done {
                    let mac = ipv4_to.get(&x.rid).and_then(|s| s.parse::<u64>().ok());
                    x.done = Some((mac.or(Some(u64::MAX)), t, pos));
                }
            }
        }

        // ---------------- property oracle (no model involved)
        let mut fails: Vec<String> = vec![];
        let mut known: Vec<String> = vec![];
        let owner_of = |a: u32| -> Vec<usize> { (0..nm).filter(|i| case.machines[*i].claims.contains(&a)).collect() };
        let planned: Vec<u32> = case.actions.iter().filter_map(|a| if let Action::Resolve { rid, .. } = a { Some(*rid) } else { None }).collect();
        for rid in planned.iter() {
            match res.iter().find(|x| x.rid == *rid) {
                None => fails.push(format!("resolver {} never started", rid)),
                Some(x) if x.done.is_none() => fails.push(format!("resolver {} never returned (hang)", rid)),
                _ => {}
            }
        }
        let slack: u128 = if paused { 0 } else { 4_000_000_000 };
        for x in res.iter() {
            let (mac, t_done, pos_done) = match x.done {
                Some(d) => d,
                None => continue,
            };
            let owners = owner_of(x.dest);
            stat(if x.via { "resolve.via_ipv4" } else { "resolve.direct" });
            stat(if x.dest != x.remote { "target.gateway" } else if x.sub.is_some() { "target.remote_in_subnet" } else { "target.remote_no_subnet" });
            match mac {
                Some(mac) => {
                    stat("result.ok");
                    // never another machine's address
                    if owners.len() != 1 || macs.get(owners[0]) != Some(&mac) {
                        fails.push(format!(
                            "resolver {} on machine {} ({} -> {}, looked-up {}) got MAC {} but the address is claimed by machine(s) {:?} (MACs {:?})",
                            x.rid, x.m, x.local, x.remote, x.dest, mac, owners, macs
                        ));
                    }
                }
                None => {
                    stat("result.err");
                    // an ARP packet of the owner had reached this machine before the resolver gave up
                    if let Some(h) = heard.iter().find(|h| h.1 == x.m && h.2 == x.dest && h.0 < pos_done) {
                        // a failure cached by a sibling resolver explains an Err only if it came later
                        let _ = h;
                        let earlier_fail = res.iter().any(|y| {
                            y.rid != x.rid && y.m == x.m && y.dest == x.dest && matches!(y.done, Some((None, _, p)) if p < h.0)
                        });
                        if !earlier_fail {
                            fails.push(format!(
                                "resolver {} on machine {} returned Err although an ARP packet from the owner of {} was delivered to it before (log position {} < {})",
                                x.rid, x.m, x.dest, h.0, pos_done
                            ));
                        }
                    }
                    if case.mtu == 0 || case.mtu >= 28 {
                        let first = !res.iter().any(|y| y.rid != x.rid && y.m == x.m && y.dest == x.dest && matches!(y.done, Some((None, _, p)) if p < pos_done));
                        if first && paused && t_done - x.born != TRIES * DELAY_NS {
                            fails.push(format!("resolver {} failed after {} ns, expected exactly {} ns", x.rid, t_done - x.born, TRIES * DELAY_NS));
                        }
                    }
                }
            }
            if t_done - x.born > TRIES * DELAY_NS + slack {
                fails.push(format!("resolver {} took {} ns > RESEND_TRIES*RESEND_DELAY", x.rid, t_done - x.born));
            }
            if owners.is_empty() && mac.is_none() {
                stat("result.err_unclaimed");
            }
        }
        // all successful resolutions of one address agree; concurrent resolvers on one machine agree
        for (i, a) in res.iter().enumerate() {
            for b in res.iter().skip(i + 1) {
                if a.dest != b.dest {
                    continue;
                }
                let (da, db) = match (a.done, b.done) {
                    (Some(x), Some(y)) => (x, y),
                    _ => continue,
                };
                if let (Some(x), Some(y)) = (da.0, db.0) {
                    if x != y {
                        fails.push(format!("resolvers {} and {} of {} got different MACs {} and {}", a.rid, b.rid, a.dest, x, y));
                    }
                }
                if a.m == b.m && da.0.is_some() != db.0.is_some() {
                    // lifetimes overlap (log positions: start .. done)
                    let overlap = a.born_pos < db.2 && b.born_pos < da.2;
                    if overlap {
                        stat("concurrent.disagree");
                        known.push(format!(
                            "concurrent resolvers {} ({:?} at {} ns) and {} ({:?} at {} ns) of {} on machine {} got different answers",
                            a.rid, da.0, da.1, b.rid, db.0, db.1, a.dest, a.m
                        ));
                    }
                } else if a.m == b.m {
                    stat("concurrent.agree_or_disjoint");
                }
            }
        }
        if unattributed > 0 && paused {
            fails.push(format!("{} ARP frames could not be attributed to a resolver / tap", unattributed));
        }

        // ---------------- impl line
        let macs_s: Vec<String> = macs.iter().map(|m| m.to_string()).collect();
        let line = if paused {
            let mut s = format!("m {}", macs_s.join(" "));
            for (_, l) in labels.iter() {
                s.push_str(" ; ");
                s.push_str(l);
            }
            s.push_str(" #");
            for x in res.iter() {
                if let Some((mac, t, _)) = x.done {
                    match mac {
                        Some(mac) => s.push_str(&format!(" {} ok:{} {}", x.rid, mac, t)),
                        None => s.push_str(&format!(" {} err {}", x.rid, t)),
                    }
                }
            }
            if unattributed > 0 {
                s.push_str(" ?");
            }
            s
        } else {
            let mut s = format!("M {} #", macs_s.join(" "));
            for x in res.iter() {
                if let Some((mac, _, _)) = x.done {
                    let (mk, gw) = match x.sub {
                        Some((mk, gw)) => (mk.to_string(), gw.to_string()),
                        None => ("-".into(), "-".into()),
                    };
                    let st = match mac {
                        Some(mac) => format!("ok:{}", mac),
                        None => "err".into(),
                    };
                    s.push_str(&format!(" {} {} {} {} {} {}", x.m, x.local, x.remote, mk, gw, st));
                }
            }
            s
        };
        let oracle = if !fails.is_empty() {
            Oracle::Fail(fails.join(" || "))
        } else if !known.is_empty() {
            Oracle::Known("c06-failed-cache-race".into(), known.join(" || "))
        } else {
            Oracle::Ok
        };
        Outcome { impl_line: line, oracle }
    }
}

// ------------------------------------------------------------------ generator

fn gen_case(rng: &mut Rng, idx: usize) -> String {
    let kind = if idx % 16 == 7 { 100 } else { rng.below(100) };
    // address pool: three /24s inside 10.0.0.0/16, hosts 1..14, plus a few far away
    let mut pool: Vec<u32> = vec![];
    for sn in 0..3u32 {
        for h in 1..=14u32 {
            pool.push(0x0A00_0000 | (sn << 8) | h);
        }
    }
    for _ in 0..4 {
        pool.push(rng.u32() | 0x4000_0000);
    }
    // shuffle
    for i in (1..pool.len()).rev() {
        let j = rng.below(i as u64 + 1) as usize;
        pool.swap(i, j);
    }
    let nm = rng.range(2, 6) as usize;
    let mut machines: Vec<MachineSpec> = vec![];
    let mut next = 0usize;
    for _ in 0..nm {
        let k = *rng.pick(&[1usize, 1, 2, 2, 3]);
        let claims: Vec<u32> = pool[next..next + k].to_vec();
        next += k;
        machines.push(MachineSpec { claims, pre: vec![] });
    }
    let unclaimed: Vec<u32> = pool[next..next + 4].to_vec();
    let all_claimed: Vec<(usize, u32)> = machines.iter().enumerate().flat_map(|(i, m)| m.claims.iter().map(move |a| (i, *a))).collect();
    let bits_pool = [0u32, 8, 16, 20, 23, 24, 24, 24, 28, 30, 31, 32];
    let claims_by_m: Vec<Vec<u32>> = machines.iter().map(|m| m.claims.clone()).collect();
    let pick_gw = |rng: &mut Rng, me: usize| -> u32 {
        match rng.below(10) {
            0 => *rng.pick(&unclaimed),
            1 => *rng.pick(&claims_by_m[me]),
            _ => {
                let others: Vec<u32> = all_claimed.iter().filter(|(i, _)| *i != me).map(|(_, a)| *a).collect();
                *rng.pick(&others)
            }
        }
    };
    let mut pres: Vec<Vec<(u32, u32, u32)>> = vec![vec![]; nm];
    for m in 0..nm {
        for a in machines[m].claims.clone() {
            if rng.coin(2, 5) {
                let bits = if rng.coin(1, 8) { rng.below(33) as u32 } else { *rng.pick(&bits_pool) };
                let gw = pick_gw(rng, m);
                pres[m].push((a, bits, gw));
            }
        }
    }
    for m in 0..nm {
        machines[m].pre = pres[m].clone();
    }
    let mut flavor = 0usize;
    let mut mtu = 0u16;
    let mut actions: Vec<String> = vec![];
    let mut default = Fate::Keep;
    let mut plan: BTreeMap<usize, Fate> = BTreeMap::new();
    // claims that are listened on late (others at time 0; addresses with a preconfigured subnet are local from the start)
    let mut listen_at: HashMap<u32, u64> = HashMap::new();
    for (m, a) in all_claimed.iter() {
        let off = if rng.coin(1, 6) { *rng.pick(&[1u64, 150, 200, 250, 399, 1000, 1799, 1800, 1801, 1999, 2100]) } else { 0 };
        listen_at.insert(*a, off);
        actions.push(format!("L {} {} {}", m, off, a));
    }
    let mut rid = 0u32;
    let offs = [0u64, 0, 0, 0, 1, 50, 100, 100, 199, 200, 201, 350, 1000, 1900, 1999, 2000, 2001, 2300];
    let mut add_resolver = |actions: &mut Vec<String>, m: usize, local: u32, remote: u32, off: u64, via: bool, slot: u32| {
        rid += 1;
        actions.push(format!("R {} {} {} {} {} {} {}", rid, m, off, local, remote, slot, via as u8));
    };
    if kind == 100 {
        // the failure-cache race: resolver A exhausts its budget at the instant an answer arrives,
        // a sibling B started `d` ms later is still waiting
        let m = rng.below(nm as u64) as usize;
        let others: Vec<(usize, u32)> = all_claimed.iter().filter(|(i, _)| *i != m).cloned().collect();
        let (_, remote) = *rng.pick(&others);
        let local = machines[m].claims[0];
        // no subnet games here: make every address resolve directly and be listened on from the start
        for ms in machines.iter_mut() {
            ms.pre.clear();
        }
        actions.retain(|a| !a.starts_with("L "));
        for (mm, a) in all_claimed.iter() {
            actions.push(format!("L {} 0 {}", mm, a));
        }
        let d = *rng.pick(&[1u64, 50, 100, 100, 150, 199]);
        add_resolver(&mut actions, m, local, remote, 0, false, 0);
        add_resolver(&mut actions, m, local, remote, d, false, 0);
        if rng.coin(1, 3) {
            add_resolver(&mut actions, m, local, remote, *rng.pick(&[1999u64, 2000, 2001, 2100]), false, 0);
        }
        default = Fate::Drop;
        // frames alternate A,B,A,B..: A's k-th request has index 2k, the owner's reply to it 2k+1.
        // Either the reply or the request is delayed so that it arrives at (about) 2000 ms.
        let k = rng.below(10);
        let jitter = *rng.pick(&[0i64, 0, 0, 0, -1, 1]);
        let d = ((2000 - 200 * k) as i64 + jitter) as u64;
        if rng.coin(3, 4) {
            plan.insert((2 * k) as usize, Fate::Keep);
            plan.insert((2 * k + 1) as usize, Fate::Delay(d));
        } else {
            plan.insert((2 * k) as usize, Fate::Delay(d));
            for j in 20..40 {
                plan.insert(j, Fate::Keep);
            }
        }
    } else {
        if kind < 4 {
            flavor = *rng.pick(&[2usize, 2, 4, 8]);
        }
        if kind >= 96 {
            mtu = *rng.pick(&[1u16, 27, 28, 29, 1500]);
        }
        // optional run-time subnet changes (at odd instants, never at a resolver's start instant)
        if rng.coin(1, 5) {
            let (m, a) = *rng.pick(&all_claimed);
            let bits = *rng.pick(&bits_pool);
            let gw = pick_gw(rng, m);
            actions.push(format!("S {} {} {} {} {}", m, *rng.pick(&[3u64, 77, 333, 1777]), a, bits, gw));
        }
        let nres = if flavor == 0 { *rng.pick(&[1usize, 2, 2, 3, 3, 4, 5, 6]) } else { *rng.pick(&[1usize, 2, 3, 4]) };
        let mut groups: Vec<(usize, u32, u32)> = vec![];
        for _ in 0..nres {
            // repeat an earlier (machine, local, remote) often: concurrent resolvers of the same address
            let (m, local, remote) = if !groups.is_empty() && rng.coin(1, 2) {
                *rng.pick(&groups)
            } else {
                let m = rng.below(nm as u64) as usize;
                let local = *rng.pick(&machines[m].claims);
                let remote = match rng.below(20) {
                    0..=10 => {
                        let others: Vec<u32> = all_claimed.iter().filter(|(i, _)| *i != m).map(|(_, a)| *a).collect();
                        *rng.pick(&others)
                    }
                    11..=12 => *rng.pick(&machines[m].claims),
                    13..=15 => *rng.pick(&unclaimed),
                    16 => local ^ 1,
                    17 => 0xFFFF_FFFF,
                    _ => all_claimed[rng.below(all_claimed.len() as u64) as usize].1,
                };
                (m, local, remote)
            };
            groups.push((m, local, remote));
            let off = if flavor == 0 { *rng.pick(&offs) } else { *rng.pick(&[0u64, 0, 1, 5, 20]) };
            let slot = if kind == 95 && rng.coin(1, 2) { 1 } else { 0 };
            // the Ipv4 path shows the MAC only through a unicast datagram: not for broadcast / loopback destinations
            let via = flavor == 0 && slot == 0 && rng.coin(1, 6) && remote != 0xFFFF_FFFF && (remote >> 24) != 127;
            add_resolver(&mut actions, m, local, remote, off, via, slot);
        }
        // frame fates
        let nidx = 70usize;
        match rng.below(if flavor == 0 { 12 } else { 5 }) {
            0 | 1 => {}
            2 => {
                let k = rng.range(1, 30) as usize;
                for j in 0..k {
                    plan.insert(j, Fate::Drop);
                }
            }
            3 | 4 => {
                let p = *rng.pick(&[1u64, 3, 6]);
                for j in 0..nidx {
                    if rng.coin(p, 10) {
                        plan.insert(j, Fate::Drop);
                    }
                }
            }
            5 => default = Fate::Drop,
            6 | 7 => {
                default = Fate::Drop;
                for _ in 0..rng.range(1, 3) {
                    plan.insert(rng.below(30) as usize, Fate::Keep);
                }
            }
            8 | 9 => {
                let p = *rng.pick(&[2u64, 5, 8]);
                for j in 0..nidx {
                    if rng.coin(p, 10) {
                        let f = match rng.below(6) {
                            0 | 1 => Fate::Drop,
                            2 => Fate::Dup,
                            _ => Fate::Delay(*rng.pick(&[1u64, 50, 199, 200, 201, 400, 1000, 1800, 2000])),
                        };
                        plan.insert(j, f);
                    }
                }
            }
            10 => {
                default = Fate::Drop;
                for _ in 0..rng.range(1, 4) {
                    plan.insert(rng.below(40) as usize, Fate::Delay(*rng.pick(&[200u64, 400, 1000, 1800, 2000])));
                }
                for _ in 0..rng.range(0, 3) {
                    plan.insert(rng.below(60) as usize, Fate::Keep);
                }
            }
            _ => {
                for j in 0..nidx {
                    if rng.coin(1, 4) {
                        plan.insert(j, Fate::Dup);
                    }
                }
            }
        }
        if flavor != 0 {
            // keep multi-thread runs short: no delays, failures cost 2 s of real time each
            for f in plan.values_mut() {
                if let Fate::Delay(_) = f {
                    *f = Fate::Keep;
                }
            }
            // real time: no run-time reconfiguration racing with a resolver's start, every address
            // listened on from the start
            actions.retain(|a| !a.starts_with("S "));
            for a in actions.iter_mut() {
                if a.starts_with("L ") {
                    let t: Vec<&str> = a.split_whitespace().collect();
                    *a = format!("L {} 0 {}", t[1], t[3]);
                }
            }
        }
    }
    let ms: Vec<String> = machines
        .iter()
        .map(|m| {
            let c: Vec<String> = m.claims.iter().map(|a| a.to_string()).collect();
            let p: Vec<String> = m.pre.iter().map(|(a, b, g)| format!("{}/{}/{}", a, b, g)).collect();
            format!("{}:{}", c.join(","), if p.is_empty() { "-".to_string() } else { p.join(",") })
        })
        .collect();
    let pl: Vec<String> = plan.iter().map(|(i, f)| format!("{}:{}", i, fate_str(*f))).collect();
    format!("{} {} | {} | {} | {} {}", flavor, mtu, ms.join(";"), actions.join(";"), fate_str(default), if pl.is_empty() { "-".to_string() } else { pl.join(",") })
}

fn main() {
    if let Some(case) = child_case() {
        child(&case);
    }
    main_loop::<C06>();
}
