//! C19 part 1 / C14 (NDL part): lock-step of `elvis::ndl::core_parser` against Model/Ndl.v.
//!
//! case grammar (mirrored by ocaml/ndl_drv.ml):
//!   P <hex utf-8 text> [<expect>]   write the text to a scratch file, core_parser(path)
//!        result  `OK N[id=Network(k:v,..){IP(..);..};..] M[Machine(..){N:..|P:..|A:..};..]`
//!                 (maps sorted by the hex of the key, all strings as hex of their UTF-8, `-` = empty)
//!              | `ERR <class> <line|->`  class = which message (see classify), line = the last
//!                 "Line n:" printed before that message; the rest of the message text is NOT compared
//!              | `PANIC`
//!        expect  `=<dump>`  generated well-formed tree: the result must be exactly this dump
//!                `!<kind>`  generated tree with one structural error: the result must be ERR
//!                absent     mutant of a repository file: only "no panic" is required
//!   REN <hex utf-8 text>            parse; if Ok: render the structure canonically (maps sorted by key, the
//!                                   Rust transcription of Model/Ndl.v `render`), and parse the tab, 4-space,
//!                                   CRLF and 4-space+CRLF forms of that text again
//!        result  `REN <hex of the tab rendering> same=1111` (1 = that form parses to the same structure)
//!   FOLD <lo> <hi>                  scalar values whose lower-casing is an ASCII letter (model of
//!                                   char::to_lowercase as used by nom's tag_no_case)
//!
//! With `--panic-only` (the C14 stage) the oracle is "never PANIC" alone.
//! Oracle (independent of the model): never PANIC; `=`: dump equality (a tree holding a value with
//! `]`, four consecutive spaces or CR is the recorded class ndl-value-rewrite); `!`: must be ERR.
use elvis::ndl::core_parser;
use elvis::ndl::parsing::parsing_data::*;
use elvis_verif_harness::*;
use std::collections::HashMap;
use std::panic::{catch_unwind, AssertUnwindSafe};
use std::sync::OnceLock;

struct Ndl;

// ------------------------------------------------------------------ canonical dump

fn hx(s: &str) -> String {
    hex(s.as_bytes())
}

fn dump_params_iter<'a>(it: impl Iterator<Item = (&'a String, &'a String)>) -> String {
    let mut l: Vec<(String, String)> = it.map(|(k, v)| (hx(k), hx(v))).collect();
    if l.is_empty() {
        return "_".into();
    }
    l.sort();
    l.iter().map(|(k, v)| format!("{}:{}", k, v)).collect::<Vec<_>>().join(",")
}
fn dump_params(p: &HashMap<String, String>) -> String {
    dump_params_iter(p.iter())
}

fn dump_sim(s: &Sim) -> String {
    let mut nets: Vec<(String, String)> = s
        .networks
        .iter()
        .map(|(id, n)| {
            let ips: Vec<String> =
                n.ip.iter().map(|i| format!("{:?}({})", i.dectype, dump_params(&i.options))).collect();
            (hx(id), format!("{:?}({}){{{}}}", n.dectype, dump_params(&n.options), ips.join(";")))
        })
        .collect();
    nets.sort();
    let ms: Vec<String> = s
        .machines
        .iter()
        .map(|m| {
            let o = match &m.options {
                Some(p) => dump_params(p),
                None => "NONE".into(),
            };
            let n: Vec<String> = m
                .interfaces
                .networks
                .iter()
                .map(|i| format!("{:?}({})", i.dectype, dump_params(&i.options)))
                .collect();
            let p: Vec<String> = m
                .interfaces
                .protocols
                .iter()
                .map(|i| format!("{:?}({})", i.dectype, dump_params(&i.options)))
                .collect();
            let a: Vec<String> = m
                .interfaces
                .applications
                .iter()
                .map(|i| format!("{:?}({})", i.dectype, dump_params(&i.options)))
                .collect();
            format!("{:?}({}){{N:{}|P:{}|A:{}}}", m.dectype, o, n.join(";"), p.join(";"), a.join(";"))
        })
        .collect();
    format!(
        "OK N[{}] M[{}]",
        nets.iter().map(|(k, v)| format!("{}={}", k, v)).collect::<Vec<_>>().join(";"),
        ms.join(";")
    )
}

/// (class, line) of an error message: the earliest root-cause phrase, and the last "Line n:" before it
fn classify(msg: &str) -> String {
    const KEYS: [(&str, u32); 15] = [
        ("Parsing Error", 0),
        ("Parsing Failure", 0),
        ("extra argument at", 3),
        ("duplicate argument", 4),
        ("Cannot declare", 5),
        ("due to duplicate id", 6),
        ("Invalid tab count", 7),
        ("due to missing id", 8),
        ("expected type ", 9),
        (" tabs and got ", 10),
        ("Failed to include all required", 11),
        ("Invalid formatting", 12),
        ("Unexpected type", 13),
        ("unable to parse arguments", 14),
        ("Incomplete", 15),
    ];
    let mut best: Option<(usize, u32)> = None;
    for (k, c) in KEYS.iter() {
        if let Some(p) = msg.find(k) {
            if best.map_or(true, |(bp, _)| p < bp) {
                best = Some((p, *c));
            }
        }
    }
    let (pos, mut cls) = match best {
        Some(x) => x,
        None => return "ERR 99 -".into(),
    };
    if cls == 0 {
        let rest = &msg[pos..];
        cls = if rest.contains("Context(\"section\")") {
            1
        } else if rest.contains("Context(\"dectype\")") {
            2
        } else {
            98
        };
    }
    // last "Line <digits>:" before pos
    let head = &msg[..pos];
    let mut line: Option<String> = None;
    let mut from = 0;
    while let Some(p) = head[from..].find("Line ") {
        let st = from + p + 5;
        let digits: String = head[st..].chars().take_while(|c| c.is_ascii_digit() || *c == '-').collect();
        if !digits.is_empty() && head[st + digits.len()..].starts_with(':') {
            line = Some(digits);
        }
        from = st;
    }
    format!("ERR {} {}", cls, line.unwrap_or_else(|| "-".into()))
}

/// `--panic-only` (C14 stage): the oracle is "no panic" alone; round-trip / reject expectations are C19's
fn panic_only() -> bool {
    static F: OnceLock<bool> = OnceLock::new();
    *F.get_or_init(|| std::env::args().any(|a| a == "--panic-only"))
}

fn scratch_path() -> String {
    let _ = std::fs::create_dir_all("/verif/.cache/ndl");
    format!("/verif/.cache/ndl/scratch-{}.ndl", std::process::id())
}

fn run_parser(text: &str) -> String {
    let path = scratch_path();
    std::fs::write(&path, text.as_bytes()).expect("scratch file");
    let r = catch_unwind(AssertUnwindSafe(|| core_parser(path.clone())));
    match r {
        Ok(Ok(s)) => dump_sim(&s),
        Ok(Err(e)) => classify(&e),
        Err(_) => "PANIC".into(),
    }
}

// ------------------------------------------------------------------ canonical rendering of a parsed structure

fn render_params(p: &HashMap<String, String>, out: &mut String) {
    let mut l: Vec<(&String, &String)> = p.iter().collect();
    l.sort_by(|a, b| hx(a.0).cmp(&hx(b.0)));
    for (k, v) in l {
        out.push(' ');
        out.push_str(k);
        out.push_str("='");
        out.push_str(v);
        out.push('\'');
    }
}
fn render_canon_line(depth: usize, ty: &str, p: &HashMap<String, String>, out: &mut String) {
    for _ in 0..depth {
        out.push('\t');
    }
    out.push('[');
    out.push_str(ty);
    render_params(p, out);
    out.push_str("]\n");
}
fn type_word(d: &DecType) -> String {
    format!("{:?}", d)
}
/// transcription of Model/Ndl.v `render` (with maps in sorted order)
fn render_canon(s: &Sim) -> String {
    let mut out = String::new();
    let empty = HashMap::new();
    render_canon_line(0, "Networks", &empty, &mut out);
    let mut nets: Vec<(&String, &Network)> = s.networks.iter().collect();
    nets.sort_by(|a, b| hx(a.0).cmp(&hx(b.0)));
    for (_, n) in nets {
        render_canon_line(1, &type_word(&n.dectype), &n.options, &mut out);
        for i in &n.ip {
            render_canon_line(2, &type_word(&i.dectype), &i.options, &mut out);
        }
    }
    render_canon_line(0, "Machines", &empty, &mut out);
    for m in &s.machines {
        render_canon_line(1, &type_word(&m.dectype), m.options.as_ref().unwrap_or(&empty), &mut out);
        render_canon_line(2, "Networks", &empty, &mut out);
        for i in &m.interfaces.networks {
            render_canon_line(3, &type_word(&i.dectype), &i.options, &mut out);
        }
        render_canon_line(2, "Protocols", &empty, &mut out);
        for i in &m.interfaces.protocols {
            render_canon_line(3, &type_word(&i.dectype), &i.options, &mut out);
        }
        render_canon_line(2, "Applications", &empty, &mut out);
        for i in &m.interfaces.applications {
            render_canon_line(3, &type_word(&i.dectype), &i.options, &mut out);
        }
    }
    out
}
/// indentation tabs -> four spaces each (tabs inside a line are left alone)
fn indent_spaces(t: &str) -> String {
    let mut out = String::new();
    for l in t.split_inclusive('\n') {
        let n = l.chars().take_while(|c| *c == '\t').count();
        for _ in 0..n {
            out.push_str("    ");
        }
        out.push_str(&l[n..]);
    }
    out
}

fn parse_file(text: &str) -> Option<Result<Sim, String>> {
    let path = scratch_path();
    std::fs::write(&path, text.as_bytes()).expect("scratch file");
    catch_unwind(AssertUnwindSafe(|| core_parser(path.clone()))).ok()
}

// ------------------------------------------------------------------ repository files

fn corpus() -> &'static Vec<(String, String)> {
    static C: OnceLock<Vec<(String, String)>> = OnceLock::new();
    C.get_or_init(|| {
        let mut out = vec![];
        let root = std::env::var("VERIF_NDL_ROOT").unwrap_or_else(|_| "/repo/sim/elvis".into());
        let mut stack = vec![format!("{}/tests/parsing_tests", root), format!("{}/src/ndl", root),
                             format!("{}/tests/generator_tests", root)];
        while let Some(d) = stack.pop() {
            let mut ents: Vec<_> = match std::fs::read_dir(&d) {
                Ok(r) => r.filter_map(|e| e.ok()).map(|e| e.path()).collect(),
                Err(_) => continue,
            };
            ents.sort();
            for p in ents {
                if p.is_dir() {
                    stack.push(p.to_string_lossy().to_string());
                } else if let Some(ext) = p.extension() {
                    if ext == "txt" || ext == "ndl" {
                        if let Ok(s) = std::fs::read_to_string(&p) {
                            out.push((p.to_string_lossy().to_string(), s));
                        }
                    }
                }
            }
        }
        out.sort();
        assert!(out.len() >= 25, "repository NDL files not found");
        out
    })
}

// ------------------------------------------------------------------ generated trees

type Args = Vec<(String, String)>;

#[derive(Clone, Default)]
struct Mach {
    args: Args,
    nets: Vec<Args>,
    protos: Vec<Args>,
    apps: Vec<Args>,
    order: [u8; 3],
}
#[derive(Clone, Default)]
struct Net {
    args: Args,
    ips: Vec<Args>,
}
#[derive(Clone, Default)]
struct Tree {
    nets: Vec<Net>,
    machines: Vec<Mach>,
}

const NORMAL_POOL: [&str; 40] = [
    "a", "b", "Z", "0", "9", " ", "  ", "   ", "\t", "\n", "[", "=", "\"", ".", "-", "_", "/", ":", "!", "é", "ß",
    "\u{212A}", "\u{120}", "\u{109}", "\u{10A}", "\u{1F600}", "\u{FEFF}", "\u{0}", "\u{7f}", "\u{80}", "\u{7ff}",
    "\u{800}", "\u{ffff}", "\u{10000}", "\u{10ffff}", "IPtype", "Line 7:", "x", "y", "\\'",
];

/// a value in the form the grammar can carry: normal characters (not `\`, `'`, `]`, CR) and `\'`
fn wf_value(rng: &mut Rng) -> String {
    let n = match rng.below(8) {
        0 => 0,
        1..=4 => rng.range(1, 6),
        _ => rng.range(6, 20),
    };
    let mut s = String::new();
    for _ in 0..n {
        s.push_str(*rng.pick(&NORMAL_POOL[..]));
    }
    clean4(&s)
}
/// remove runs of four spaces (and what the 4-space rendering of indentation could create)
fn clean4(s: &str) -> String {
    let mut t = s.to_string();
    while t.contains("    ") {
        t = t.replace("    ", "   x");
    }
    t
}
fn is_ws_like(c: char) -> bool {
    let b = (c as u32 & 0xff) as u8;
    b == b' ' || b == b'\t' || b == b'\n'
}
fn wf_key(rng: &mut Rng) -> String {
    let n = match rng.below(10) {
        0 => 0,
        1..=6 => rng.range(1, 5),
        _ => rng.range(5, 12),
    };
    let mut s = String::new();
    for _ in 0..n {
        let t = *rng.pick(&NORMAL_POOL);
        if t.contains('=') {
            s.push('q');
        } else {
            s.push_str(t);
        }
    }
    let s = clean4(&s);
    // first character must not look like white space to take_while1
    match s.chars().next() {
        Some(c) if is_ws_like(c) => format!("k{}", s),
        _ => s,
    }
}

fn add_extra(rng: &mut Rng, a: &mut Args) {
    let n = match rng.below(6) {
        0 => rng.range(1, 3),
        _ => 0,
    };
    for _ in 0..n {
        let k = wf_key(rng);
        if a.iter().all(|(k2, _)| *k2 != k) {
            let v = wf_value(rng);
            let at = rng.below(a.len() as u64 + 1) as usize;
            a.insert(at, (k, v));
        }
    }
}

fn kv(k: &str, v: &str) -> (String, String) {
    (k.to_string(), v.to_string())
}

fn gen_tree(rng: &mut Rng) -> Tree {
    let mut t = Tree::default();
    let k = rng.range(0, 3);
    let mut ids: Vec<String> = vec![];
    for i in 0..k {
        let id = match rng.below(5) {
            0 => wf_value(rng),
            _ => format!("{}", rng.below(9) + 1),
        };
        if ids.contains(&id) {
            continue;
        }
        ids.push(id.clone());
        let mut n = Net { args: vec![kv("id", &id)], ips: vec![] };
        add_extra(rng, &mut n.args);
        for j in 0..rng.range(1, 3) {
            let base = format!("10.{}.{}.", i, j);
            let mut a = if rng.coin(1, 2) {
                let lo = rng.range(1, 200);
                vec![kv("range", &format!("{}{}-{}", base, lo, lo + rng.range(0, 50)))]
            } else {
                vec![kv("ip", &format!("{}{}", base, rng.range(1, 254)))]
            };
            add_extra(rng, &mut a);
            n.ips.push(a);
        }
        t.nets.push(n);
    }
    for i in 0..rng.range(0, 4) {
        let mut m = Mach::default();
        if rng.coin(5, 6) {
            m.args.push(kv("name", &format!("m{}", i)));
        }
        if rng.coin(1, 4) {
            m.args.push(kv("count", &format!("{}", rng.range(1, 5))));
        }
        if rng.coin(1, 5) {
            m.args.push(kv("auto-protocol", if rng.coin(1, 2) { "true" } else { "false" }));
        }
        add_extra(rng, &mut m.args);
        for _ in 0..rng.range(1, 2) {
            let id = if ids.is_empty() || rng.coin(1, 8) { "77".to_string() } else { rng.pick(&ids).clone() };
            let mut a = vec![kv("id", &id)];
            add_extra(rng, &mut a);
            m.nets.push(a);
        }
        for _ in 0..rng.range(1, 3) {
            let mut a = match rng.below(5) {
                0 => vec![kv("name", "ARP"), kv("local", "10.0.0.1"), kv("default", "10.0.0.2")],
                1 => vec![kv("name", "ARP")],
                2 => vec![kv("name", "UDP")],
                3 => vec![kv("name", "TCP")],
                _ => vec![kv("name", "IPv4")],
            };
            add_extra(rng, &mut a);
            m.protos.push(a);
        }
        for _ in 0..rng.range(1, 2) {
            let to = if rng.coin(1, 2) { format!("m{}", rng.below(4)) } else { format!("10.0.0.{}", rng.range(1, 9)) };
            let mut a = match rng.below(4) {
                0 => vec![kv("name", "send_message"), kv("message", &wf_value(rng)), kv("to", &to), kv("port", "0xbeef")],
                1 => vec![kv("name", "capture"), kv("ip", "10.0.0.3"), kv("port", "48879"), kv("message_count", "2")],
                2 => vec![
                    kv("name", "forward"),
                    kv("ip", "10.0.0.4"),
                    kv("to", &to),
                    kv("local_port", "0xbeef"),
                    kv("remote_port", "0xface"),
                ],
                _ => vec![
                    kv("name", "ping_pong"),
                    kv("ip", "10.0.0.5"),
                    kv("to", &to),
                    kv("local_port", "1"),
                    kv("remote_port", "2"),
                    kv("starter", "true"),
                ],
            };
            add_extra(rng, &mut a);
            m.apps.push(a);
        }
        m.order = *rng.pick(&[[0, 1, 2], [0, 2, 1], [1, 0, 2], [1, 2, 0], [2, 0, 1], [2, 1, 0], [0, 1, 2], [0, 1, 2]]);
        t.machines.push(m);
    }
    t
}

fn dump_args(a: &Args) -> String {
    dump_params_iter(a.iter().map(|(k, v)| (k, v)))
}

fn dump_tree(t: &Tree) -> String {
    let mut nets: Vec<(String, String)> = t
        .nets
        .iter()
        .map(|n| {
            let id = n.args.iter().find(|(k, _)| k == "id").map(|(_, v)| v.clone()).unwrap_or_default();
            let ips: Vec<String> = n.ips.iter().map(|a| format!("IP({})", dump_args(a))).collect();
            (hx(&id), format!("Network({}){{{}}}", dump_args(&n.args), ips.join(";")))
        })
        .collect();
    nets.sort();
    let ms: Vec<String> = t
        .machines
        .iter()
        .map(|m| {
            let f = |ty: &str, l: &Vec<Args>| -> String {
                l.iter().map(|a| format!("{}({})", ty, dump_args(a))).collect::<Vec<_>>().join(";")
            };
            format!(
                "Machine({}){{N:{}|P:{}|A:{}}}",
                dump_args(&m.args),
                f("Network", &m.nets),
                f("Protocol", &m.protos),
                f("Application", &m.apps)
            )
        })
        .collect();
    format!(
        "OK N[{}] M[{}]",
        nets.iter().map(|(k, v)| format!("{}={}", k, v)).collect::<Vec<_>>().join(";"),
        ms.join(";")
    )
}

#[derive(Clone, Copy)]
struct Style {
    spaces: bool, // indentation by four spaces instead of a tab
    crlf: bool,
    fancy: bool, // keyword case variants, several separators, blank lines, Template lines, split sections
}

fn kwcase(rng: &mut Rng, st: &Style, w: &str) -> String {
    if !st.fancy {
        return w.to_string();
    }
    match rng.below(6) {
        0 => w.to_lowercase(),
        1 => w.to_uppercase(),
        2 => w.chars().map(|c| if rng.coin(1, 2) { c.to_ascii_uppercase() } else { c.to_ascii_lowercase() }).collect(),
        _ => w.to_string(),
    }
}

fn render_line(rng: &mut Rng, st: &Style, depth: usize, ty: &str, args: &Args, out: &mut String, last: bool) {
    for _ in 0..depth {
        out.push_str(if st.spaces { "    " } else { "\t" });
    }
    out.push('[');
    out.push_str(&kwcase(rng, st, ty));
    for (k, v) in args {
        let sep = if st.fancy { *rng.pick(&[" ", " ", " ", "  ", "   ", "\t", " \t", "\n", " \n "]) } else { " " };
        out.push_str(sep);
        out.push_str(k);
        out.push_str("='");
        out.push_str(v);
        out.push('\'');
    }
    out.push(']');
    let nl = if st.crlf { "\r\n" } else { "\n" };
    if last && st.fancy && rng.coin(1, 2) {
        return; // no newline at the end of the file
    }
    out.push_str(nl);
    if st.fancy && rng.coin(1, 8) {
        for _ in 0..rng.range(1, 3) {
            out.push_str(nl);
        }
    }
}

/// structural defects for the reject classes; returns the kind injected
#[derive(Clone, Copy, PartialEq)]
enum Defect {
    None,
    WrongNesting,
    UnknownType,
    MissingSection,
    DupNetId,
    DupArg,
}

fn render_tree(rng: &mut Rng, st: &Style, t: &Tree, defect: Defect) -> Option<String> {
    // lines as (depth, type, args); defects are edits of this list
    let mut lines: Vec<(usize, String, Args)> = vec![];
    let mut sections: Vec<Vec<(usize, String, Args)>> = vec![];
    // networks, possibly split over several [Networks] sections
    let mut cur: Vec<(usize, String, Args)> = vec![(0, "Networks".into(), vec![])];
    for (i, n) in t.nets.iter().enumerate() {
        if st.fancy && i > 0 && rng.coin(1, 4) {
            sections.push(std::mem::take(&mut cur));
            cur.push((0, "Networks".into(), vec![]));
        }
        cur.push((1, "Network".into(), n.args.clone()));
        for a in &n.ips {
            cur.push((2, "IP".into(), a.clone()));
        }
    }
    sections.push(cur);
    let mut cur: Vec<(usize, String, Args)> = vec![(0, "Machines".into(), vec![])];
    for (i, m) in t.machines.iter().enumerate() {
        if st.fancy && i > 0 && rng.coin(1, 4) {
            sections.push(std::mem::take(&mut cur));
            cur.push((0, "Machines".into(), vec![]));
        }
        cur.push((1, "Machine".into(), m.args.clone()));
        for s in m.order.iter() {
            let (sec, item, l) = match s {
                0 => ("Networks", "Network", &m.nets),
                1 => ("Protocols", "Protocol", &m.protos),
                _ => ("Applications", "Application", &m.apps),
            };
            cur.push((2, sec.into(), vec![]));
            for a in l {
                cur.push((3, item.into(), a.clone()));
            }
        }
    }
    sections.push(cur);
    if st.fancy && rng.coin(1, 3) {
        // machines before networks is the same structure (machines keep their relative order)
        sections.reverse();
        // keep Networks sections in their own relative order and Machines in theirs
        let (mut a, mut b): (Vec<_>, Vec<_>) = sections.into_iter().partition(|s| s[0].1 == "Machines");
        a.reverse();
        b.reverse();
        sections = if rng.coin(1, 2) { a.into_iter().chain(b).collect() } else { b.into_iter().chain(a).collect() };
    }
    for s in sections {
        if st.fancy && rng.coin(1, 5) {
            let mut a = vec![];
            add_extra(rng, &mut a);
            lines.push((0, "Template".into(), a));
        }
        lines.extend(s);
    }
    // ---- defects
    match defect {
        Defect::None => {}
        Defect::WrongNesting => {
            // one line one level too deep or too shallow, or an item under the wrong parent
            let cands: Vec<usize> = (0..lines.len()).filter(|i| lines[*i].0 >= 1).collect();
            if cands.is_empty() {
                return None;
            }
            let i = *rng.pick(&cands);
            match rng.below(3) {
                0 => lines[i].0 += 1,
                1 => {
                    // an item of another level here: e.g. [IP] directly under [Networks]
                    let ty = match lines[i].1.as_str() {
                        "Network" if lines[i].0 == 1 => "IP",
                        "IP" => "Network",
                        "Machine" => "Application",
                        "Network" => "Protocol",
                        "Protocol" => "Application",
                        "Application" => "Network",
                        "Networks" | "Protocols" | "Applications" => "Machine",
                        _ => "Machines",
                    };
                    lines[i].1 = ty.into();
                }
                _ => {
                    // a nested kind at top level
                    let ty = *rng.pick(&["Network", "IP", "Machine", "Protocols", "Protocol", "Applications", "Application"]);
                    let at = rng.below(lines.len() as u64 + 1) as usize;
                    // only positions where the next line is at depth 0 (or the end) are "top level"
                    let at = (at..=lines.len()).find(|j| *j == lines.len() || lines[*j].0 == 0).unwrap();
                    lines.insert(at, (0, ty.into(), vec![]));
                }
            }
        }
        Defect::UnknownType => {
            let i = rng.below(lines.len() as u64) as usize;
            lines[i].1 = rng
                .pick(&["Router", "Net", "Machin", "I", "", "Potocol", "App", "Templat", "Xetworks", "Ne tworks", "'IP'"])
                .to_string();
        }
        Defect::MissingSection => {
            // remove one of the three required sections of a machine, or make it empty, or repeat one
            let heads: Vec<usize> = (0..lines.len()).filter(|i| lines[*i].0 == 2 && lines[*i].1 != "IP").collect();
            if heads.is_empty() {
                return None;
            }
            let h = *rng.pick(&heads);
            let mut e = h + 1;
            while e < lines.len() && lines[e].0 == 3 {
                e += 1;
            }
            match rng.below(3) {
                0 => {
                    lines.drain(h..e);
                }
                1 => {
                    lines.drain(h + 1..e);
                }
                _ => {
                    let other = *rng.pick(&["Networks", "Protocols", "Applications"]);
                    if other == lines[h].1 {
                        return None;
                    }
                    lines[h].1 = other.into(); // one section twice, one missing
                }
            }
        }
        Defect::DupNetId => {
            let nets: Vec<usize> = (0..lines.len()).filter(|i| lines[*i].0 == 1 && lines[*i].1 == "Network").collect();
            if nets.is_empty() {
                return None;
            }
            let i = *rng.pick(&nets);
            let mut e = i + 1;
            while e < lines.len() && lines[e].0 == 2 {
                e += 1;
            }
            let block: Vec<_> = lines[i..e].to_vec();
            // the copy goes to the end of some [Networks] section (the same or another one)
            let ends: Vec<usize> = (0..=lines.len())
                .filter(|j| {
                    *j > 0
                        && (*j == lines.len() || lines[*j].0 == 0)
                        && ((lines[*j - 1].0 == 2 && lines[*j - 1].1 == "IP") || (lines[*j - 1].1 == "Networks" && lines[*j - 1].0 == 0))
                })
                .collect();
            let at = *rng.pick(&ends);
            for (k, l) in block.into_iter().enumerate() {
                lines.insert(at + k, l);
            }
        }
        Defect::DupArg => {
            let cands: Vec<usize> = (0..lines.len()).filter(|i| !lines[*i].2.is_empty()).collect();
            if cands.is_empty() {
                return None;
            }
            let i = *rng.pick(&cands);
            let j = rng.below(lines[i].2.len() as u64) as usize;
            let (k, v) = lines[i].2[j].clone();
            let v2 = if rng.coin(1, 2) { v } else { wf_value(rng) };
            let at = rng.below(lines[i].2.len() as u64 + 1) as usize;
            lines[i].2.insert(at, (k, v2));
        }
    }
    let mut out = String::new();
    let n = lines.len();
    for (i, (d, ty, a)) in lines.iter().enumerate() {
        render_line(rng, st, *d, ty, a, &mut out, i + 1 == n);
    }
    Some(out)
}

// ------------------------------------------------------------------ mutants

const TOKENS: [&str; 44] = [
    "[", "]", "'", "=", " ", "\t", "\n", "    ", "\r", "\r\n", "\\", "\\'", "[IP]", "[IPtype x='1']", "IPtype", "iptype ",
    "Networ\u{212A}s", "\u{212A}", "é", "\u{120}", "\u{109}", "\u{10A}", "[Template]", "[Networks]", "[Machines]",
    "[Network id='5']", " id='5'", "name", "\u{1F600}", "\u{FEFF}", "]\n[", "\t\t", "\t\t\t", "[Protocols]",
    "[Applications]", "[Application name='capture']", "''", "='", "' ", " k='v'", "[Machine]", "[Protocol name='UDP']",
    "\n\n", "   ",
];

fn tokenize(s: &str) -> Vec<String> {
    let mut out: Vec<String> = vec![];
    let mut cur = String::new();
    let class = |c: char| -> u8 {
        if c.is_alphanumeric() || c == '_' || c == '.' || c == '-' {
            0
        } else if c == ' ' || c == '\t' {
            1
        } else {
            2
        }
    };
    let mut last = 9u8;
    for c in s.chars() {
        let k = class(c);
        if k == 2 || k != last {
            if !cur.is_empty() {
                out.push(std::mem::take(&mut cur));
            }
        }
        cur.push(c);
        last = k;
    }
    if !cur.is_empty() {
        out.push(cur);
    }
    out
}

fn mutate(rng: &mut Rng, s: &str) -> (String, &'static str) {
    let chars: Vec<char> = s.chars().collect();
    let n = chars.len();
    let lines: Vec<&str> = s.split_inclusive('\n').collect();
    match rng.below(13) {
        0 => {
            // token insertion
            let at = rng.below(n as u64 + 1) as usize;
            let mut t: String = chars[..at].iter().collect();
            t.push_str(*rng.pick(&TOKENS[..]));
            t.extend(chars[at..].iter());
            (t, "mut_insert")
        }
        1 => {
            // token deletion
            let mut toks = tokenize(s);
            if !toks.is_empty() {
                let i = rng.below(toks.len() as u64) as usize;
                toks.remove(i);
            }
            (toks.concat(), "mut_delete_token")
        }
        2 => {
            // truncation
            let at = rng.below(n as u64 + 1) as usize;
            (chars[..at].iter().collect(), "mut_truncate")
        }
        3 => {
            // truncation near a structural character
            let pos: Vec<usize> = (0..n).filter(|i| "[]'=\n\t".contains(chars[*i])).collect();
            let at = if pos.is_empty() { 0 } else { *rng.pick(&pos) + rng.below(2) as usize };
            (chars[..at.min(n)].iter().collect(), "mut_truncate_struct")
        }
        4 => {
            // indentation of one line: add / remove a tab, or use spaces
            let mut l: Vec<String> = lines.iter().map(|x| x.to_string()).collect();
            if !l.is_empty() {
                let i = rng.below(l.len() as u64) as usize;
                l[i] = match rng.below(6) {
                    0 => format!("\t{}", l[i]),
                    1 => l[i].strip_prefix('\t').map(|x| x.to_string()).unwrap_or_else(|| format!("\t\t{}", l[i])),
                    2 => format!("    {}", l[i]),
                    3 => format!("   {}", l[i]),
                    4 => format!(" {}", l[i]),
                    _ => l[i].replace('\t', "    "),
                };
            }
            (l.concat(), "mut_indent_line")
        }
        5 => {
            // whole-file indentation / line-ending rendering
            let t = match rng.below(5) {
                0 => s.replace('\t', "    "),
                1 => s.replace('\n', "\r\n"),
                2 => s.replace('\t', "    ").replace('\n', "\r\n"),
                3 => s.replace('\t', "   "),
                _ => s.replace('\t', "     "),
            };
            (t, "mut_indent_file")
        }
        6 => {
            // non-ASCII replacement of one character
            let mut c = chars.clone();
            if n > 0 {
                let i = rng.below(n as u64) as usize;
                c[i] = *rng.pick(&['\u{212A}', 'é', '\u{120}', '\u{109}', '\u{10A}', '\u{1F600}', '\u{130}', '\u{17F}', '\u{FEFF}', 'İ', 'K', 'k']);
            }
            (c.iter().collect(), "mut_nonascii")
        }
        7 => {
            // a 'k'/'K' of a keyword becomes the Kelvin sign, or keyword case changes
            let mut c = chars.clone();
            let ks: Vec<usize> = (0..n).filter(|i| c[*i] == 'k' || c[*i] == 'K').collect();
            if !ks.is_empty() && rng.coin(1, 2) {
                c[*rng.pick(&ks)] = '\u{212A}';
                (c.iter().collect(), "mut_kelvin")
            } else {
                let i = rng.below(n.max(1) as u64) as usize;
                for j in i..(i + 12).min(n) {
                    c[j] = if rng.coin(1, 2) { c[j].to_ascii_uppercase() } else { c[j].to_ascii_lowercase() };
                }
                (c.iter().collect(), "mut_case")
            }
        }
        8 => {
            // delete a line / duplicate a line / swap two lines
            let mut l: Vec<String> = lines.iter().map(|x| x.to_string()).collect();
            if l.len() >= 2 {
                let i = rng.below(l.len() as u64) as usize;
                let j = rng.below(l.len() as u64) as usize;
                match rng.below(3) {
                    0 => {
                        l.remove(i);
                    }
                    1 => {
                        let x = l[i].clone();
                        l.insert(j, x);
                    }
                    _ => l.swap(i, j),
                }
            }
            (l.concat(), "mut_lines")
        }
        9 => {
            // delete a character range
            if n == 0 {
                return (String::new(), "mut_delete_range");
            }
            let i = rng.below(n as u64) as usize;
            let k = rng.range(1, 6) as usize;
            let mut t: String = chars[..i].iter().collect();
            t.extend(chars[(i + k).min(n)..].iter());
            (t, "mut_delete_range")
        }
        10 => {
            // the type word of one section is replaced
            let pos: Vec<usize> = (0..n).filter(|i| chars[*i] == '[').collect();
            if pos.is_empty() {
                return (s.to_string(), "mut_type");
            }
            let i = *rng.pick(&pos) + 1;
            let mut e = i;
            while e < n && chars[e].is_alphabetic() {
                e += 1;
            }
            let w = *rng.pick(&[
                "IPtype", "iptype", "IPTYPE", "IP", "Network", "Networks", "Machine", "Machines", "Protocol", "Protocols",
                "Application", "Applications", "Template", "Networ\u{212A}", "networ\u{212A}s", "Foo", "", "IPt", "IPtyp", "IPtypes",
            ]);
            let mut t: String = chars[..i].iter().collect();
            t.push_str(w);
            t.extend(chars[e..].iter());
            (t, "mut_type")
        }
        11 => {
            // an argument value is replaced by a hostile one
            let pos: Vec<usize> = (0..n).filter(|i| chars[*i] == '\'' && *i > 0 && chars[*i - 1] == '=').collect();
            if pos.is_empty() {
                return (s.to_string(), "mut_value");
            }
            let i = *rng.pick(&pos) + 1;
            let mut e = i;
            while e < n && chars[e] != '\'' {
                e += 1;
            }
            let w = *rng.pick(&[
                "", "\\", "\\\\", "\\'", "a\\'b", "a\\b", "it's", "]", "a]b", "    ", "a    b", "\r", "a\rb", "\n", "=", "'",
                "\\'\\'", "x\\", "\u{212A}", "a=b c='d'", "[", "\t", "  ", "é\\'é",
            ]);
            let mut t: String = chars[..i].iter().collect();
            t.push_str(w);
            t.extend(chars[e..].iter());
            (t, "mut_value")
        }
        _ => {
            // a key is replaced / duplicated
            let pos: Vec<usize> = (0..n).filter(|i| chars[*i] == '=').collect();
            if pos.is_empty() {
                return (s.to_string(), "mut_key");
            }
            let e = *rng.pick(&pos);
            let mut i = e;
            while i > 0 && !chars[i - 1].is_whitespace() && chars[i - 1] != '[' {
                i -= 1;
            }
            let w = *rng.pick(&["", "id", "name", "a b", "'", "x'y", "\u{120}k", "é", "k\nk", "[", "ID"]);
            let mut t: String = chars[..i].iter().collect();
            t.push_str(w);
            t.extend(chars[e..].iter());
            (t, "mut_key")
        }
    }
}

// ------------------------------------------------------------------ family

fn has_rewrite_class(dump: &str) -> bool {
    // every maximal run of hex digits of even length >= 2 in the dump is a string
    let mut cur = String::new();
    let mut hit = false;
    let mut check = |h: &str| {
        if h.len() >= 2 && h.len() % 2 == 0 {
            let b = unhex(h);
            if b.contains(&b']') || b.contains(&b'\r') || b.windows(4).any(|w| w == b"    ") {
                hit = true;
            }
        }
    };
    for c in dump.chars() {
        if c.is_ascii_hexdigit() && !c.is_ascii_uppercase() {
            cur.push(c);
        } else {
            check(&cur);
            cur.clear();
        }
    }
    check(&cur);
    hit
}

impl Family for Ndl {
    fn gen(rng: &mut Rng, idx: usize) -> String {
        let files = corpus();
        // the repository files themselves, then the case-folding sweep, then the random streams
        if idx < files.len() {
            return format!("P {}", hx(&files[idx].1));
        }
        let idx = idx - files.len();
        if idx < 17 {
            return format!("FOLD {} {}", idx * 0x10000, idx * 0x10000 + 0xffff);
        }
        let idx = idx - 17;
        // systematic truncation of the two valid parsing fixtures: one cut per case, walking through the file
        if idx % 10 == 9 {
            let f = &files.iter().filter(|(p, _)| p.contains("basic_correct")).collect::<Vec<_>>()[(idx / 10) % 2];
            let chars: Vec<char> = f.1.chars().collect();
            let at = (idx / 20) % (chars.len() + 1);
            let t: String = chars[..at].iter().collect();
            return format!("P {}", hx(&t));
        }
        match rng.below(10) {
            // well-formed generated trees in the renderings of the property's quantifier
            0..=3 => {
                let mut t = gen_tree(rng);
                let mut st = Style { spaces: rng.coin(1, 2), crlf: rng.coin(1, 3), fancy: rng.coin(1, 2) };
                if rng.coin(1, 25) {
                    // the three value classes the global rewrites / section cut cannot carry
                    let bad = *rng.pick(&["a]b", "]", "a    b", "     ", "a\rb", "\r"]);
                    let mut slots: Vec<&mut Args> = vec![];
                    for n in t.nets.iter_mut() {
                        slots.push(&mut n.args);
                        for a in n.ips.iter_mut() {
                            slots.push(a);
                        }
                    }
                    for m in t.machines.iter_mut() {
                        slots.push(&mut m.args);
                        for a in m.nets.iter_mut().chain(m.protos.iter_mut()).chain(m.apps.iter_mut()) {
                            slots.push(a);
                        }
                    }
                    let slots: Vec<&mut Args> = slots.into_iter().filter(|a| !a.is_empty()).collect();
                    if !slots.is_empty() {
                        let k = rng.below(slots.len() as u64) as usize;
                        for (i, a) in slots.into_iter().enumerate() {
                            if i == k {
                                let j = rng.below(a.len() as u64) as usize;
                                if a[j].0 != "id" {
                                    a[j].1 = bad.to_string();
                                }
                            }
                        }
                    }
                    st.fancy = false;
                }
                let text = render_tree(rng, &st, &t, Defect::None).unwrap();
                if rng.coin(1, 4) {
                    return format!("REN {}", hx(&text));
                }
                format!("P {} ={}", hx(&text), dump_tree(&t))
            }
            // one structural error in an otherwise well-formed tree
            4 | 5 => {
                let t = gen_tree(rng);
                let st = Style { spaces: rng.coin(1, 2), crlf: rng.coin(1, 3), fancy: rng.coin(1, 3) };
                let (d, name) = *rng.pick(&[
                    (Defect::WrongNesting, "nesting"),
                    (Defect::UnknownType, "unknown_type"),
                    (Defect::MissingSection, "missing_section"),
                    (Defect::DupNetId, "dup_net_id"),
                    (Defect::DupArg, "dup_arg"),
                ]);
                match render_tree(rng, &st, &t, d) {
                    Some(text) => format!("P {} !{}", hx(&text), name),
                    None => {
                        let text = render_tree(rng, &st, &t, Defect::None).unwrap();
                        format!("P {} ={}", hx(&text), dump_tree(&t))
                    }
                }
            }
            // mutants of the repository files (1..3 mutations)
            _ => {
                let f = rng.pick(files);
                let mut s = f.1.clone();
                let k = match rng.below(4) {
                    0 => 2,
                    1 => 3,
                    _ => 1,
                };
                let mut tag = "";
                for _ in 0..k {
                    let (t, g) = mutate(rng, &s);
                    s = t;
                    tag = g;
                    stat(g);
                }
                let _ = tag;
                if rng.coin(1, 8) {
                    return format!("REN {}", hx(&s));
                }
                format!("P {}", hx(&s))
            }
        }
    }

    fn run(case: &str) -> Outcome {
        let t: Vec<&str> = case.split_whitespace().collect();
        match t[0] {
            "FOLD" => {
                let lo: u32 = t[1].parse().unwrap();
                let hi: u32 = t[2].parse().unwrap();
                let mut out = String::new();
                for c in lo..=hi {
                    if let Some(ch) = char::from_u32(c) {
                        if ch.is_ascii_lowercase() {
                            continue;
                        }
                        let mut it = ch.to_lowercase();
                        if let (Some(l), None) = (it.next(), it.next()) {
                            if l.is_ascii_lowercase() {
                                // exactly the comparison nom makes: a.to_lowercase().ne(b.to_lowercase())
                                assert!(ch.to_lowercase().eq(l.to_lowercase()));
                                out.push_str(&format!("{:x}:{:x} ", c, l as u32));
                            }
                        }
                    }
                }
                stat("fold_sweep");
                let line = if out.is_empty() { ".".to_string() } else { out.trim().to_string() };
                Outcome { impl_line: line, oracle: Oracle::Ok }
            }
            "REN" => {
                let text = String::from_utf8(unhex(t[1])).expect("case text is utf-8");
                stat("ren_cases");
                match parse_file(&text) {
                    None => Outcome { impl_line: "PANIC".into(), oracle: Oracle::Fail("the parser panicked on this text".into()) },
                    Some(Err(e)) => Outcome { impl_line: classify(&e), oracle: Oracle::Ok },
                    Some(Ok(sim)) => {
                        let d = dump_sim(&sim);
                        let r = render_canon(&sim);
                        let r4 = indent_spaces(&r);
                        let forms = [r.clone(), r4.clone(), r.replace('\n', "\r\n"), r4.replace('\n', "\r\n")];
                        let mut flags = String::new();
                        for f in forms.iter() {
                            let same = matches!(parse_file(f), Some(Ok(s2)) if dump_sim(&s2) == d);
                            flags.push(if same { '1' } else { '0' });
                        }
                        stat("ren_ok");
                        let oracle = if flags == "1111" || panic_only() {
                            Oracle::Ok
                        } else {
                            Oracle::Fail(format!("an accepted description does not survive rendering + parsing: same={}", flags))
                        };
                        Outcome { impl_line: format!("REN {} same={}", hx(&r), flags), oracle }
                    }
                }
            }
            "P" => {
                let text = String::from_utf8(unhex(t[1])).expect("case text is utf-8");
                let res = run_parser(&text);
                let kind = if res.starts_with("OK") {
                    "res_ok".to_string()
                } else if res.starts_with("ERR") {
                    format!("res_err_{}", res.split(' ').nth(1).unwrap_or("?"))
                } else {
                    "res_panic".to_string()
                };
                stat(&kind);
                if text.contains("    ") {
                    stat("text_has_4sp");
                }
                if text.contains('\r') {
                    stat("text_has_cr");
                }
                if !text.is_ascii() {
                    stat("text_non_ascii");
                }
                let oracle = if res == "PANIC" {
                    stat("expect_any");
                    Oracle::Fail("the parser panicked on this text".to_string())
                } else if panic_only() {
                    Oracle::Ok
                } else if t.len() >= 3 && t[2].starts_with('=') {
                    stat("expect_roundtrip");
                    let want = &case[case.find(" =").unwrap() + 2..];
                    if res == want {
                        Oracle::Ok
                    } else if has_rewrite_class(want) {
                        stat("roundtrip_known_rewrite");
                        Oracle::Known(
                            "ndl-value-rewrite".into(),
                            "a value containing ']', four consecutive spaces or CR does not survive render+parse".into(),
                        )
                    } else {
                        Oracle::Fail(format!("round trip: parsed {} expected {}", res, want))
                    }
                } else if t.len() >= 3 && t[2].starts_with('!') {
                    stat(&format!("expect_reject_{}", &t[2][1..]));
                    if res.starts_with("ERR") {
                        Oracle::Ok
                    } else {
                        Oracle::Fail(format!("structural error ({}) accepted: {}", &t[2][1..], res))
                    }
                } else {
                    stat("expect_any");
                    Oracle::Ok
                };
                Outcome { impl_line: res, oracle }
            }
            _ => panic!("bad case"),
        }
    }
}

fn main() {
    main_loop::<Ndl>();
    let _ = std::fs::remove_file(scratch_path());
}
