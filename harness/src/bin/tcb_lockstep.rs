//! C01 / C03 / C12 / C17: lock-step of the real `Tcb` against the Coq model of the
//! two-endpoint system, plus the property oracles evaluated on the implementation.
//!
//! case line:  `<mode> <issA> <issB> <mtuA> <mtuB> | <label> ; <label> ; ...`
//!   mode 0: A closed (opens by label `O 0`), B listening; mode 1: both closed (simultaneous open)
//! labels (s = side 0/1, d = direction 0: A->B, 1: B->A):
//!   G k ms (like F k with ticks of ms milliseconds) | H k ms (like G but only the oldest third of the in-flight segments, at least one, is delivered per direction and round) |
//!   O s | S s n | R s | C s | T s ms (= E s, then advance_time) | E s | D d i | X d i | U d i | F k
//!   I d seq ack ctl wnd len      (inject a forged segment into direction d and deliver it at once)
//!   Q                            (oracle check-point: liveness conditions must hold here)
//! result line: one record per label, separated by ';'
use elvis_core::protocols::ipv4::Ipv4Address;
use elvis_core::protocols::tcp::verif::*;
use elvis_core::protocols::{Endpoint, Endpoints};
use elvis_core::Message;
use elvis_verif_harness::*;
use std::fmt::Write as _;
use std::panic::{catch_unwind, AssertUnwindSafe};
use std::time::Duration;

const ADDR: [[u8; 4]; 2] = [[10, 0, 0, 1], [10, 0, 0, 2]];
const PORT: [u16; 2] = [1000, 2000];

pub fn pat(side: usize, k: usize) -> u8 {
    ((k * 131 + side * 7 + (k >> 8)) & 0xff) as u8
}

thread_local! {
    /// Some([issA, issB]) = print sequence numbers relative to the ISNs (C12 paired runs)
    static NORM: std::cell::Cell<Option<[u32; 2]>> = std::cell::Cell::new(None);
}

enum End {
    Closed,
    Listen,
    Live(Box<Tcb>),
    Dead,
}

struct Sys {
    end: [End; 2],
    net: [Vec<Segment>; 2],
    sub: [Vec<u8>; 2],
    del: [Vec<u8>; 2],
    del_hash: [u64; 2],
    del_checked: [usize; 2],
    iss: [u32; 2],
    mtu: [u16; 2],
    // oracle bookkeeping
    closed_by_app: [bool; 2],
    injected: bool,
    rst_seen: bool,
    reset_or_refused: bool,
    violations: Vec<String>,
    fin_consumed_seen: [bool; 2],
    reached_closed: bool,
    /// C17 window oracle, per receiving side: circular maximum of the sequence numbers of the peer's processed
    /// ACK segments, and the window that a conforming endpoint must be using (None = not determined)
    peer_seq_max: [Option<u32>; 2],
    adv_wnd: [Option<u16>; 2],
    in_tail: bool,
    expired_before_tail: bool,
}

fn endpoints(side: usize) -> Endpoints {
    Endpoints::new(
        Endpoint::new(Ipv4Address::new(ADDR[side]), PORT[side]),
        Endpoint::new(Ipv4Address::new(ADDR[1 - side]), PORT[1 - side]),
    )
}

fn thash(t: &[u8]) -> u64 {
    let mut h: u64 = 7;
    for b in t {
        h = (h * 31 + *b as u64) % 1_000_003;
    }
    h
}

fn st_code(s: State) -> u8 {
    match s {
        State::SynSent => 1,
        State::SynReceived => 2,
        State::Established => 3,
        State::FinWait1 => 4,
        State::FinWait2 => 5,
        State::CloseWait => 6,
        State::Closing => 7,
        State::LastAck => 8,
        State::TimeWait => 9,
    }
}

fn ctl_bits(c: Control) -> u8 {
    c.fin() as u8 | (c.syn() as u8) << 1 | (c.rst() as u8) << 2 | (c.psh() as u8) << 3 | (c.ack() as u8) << 4 | (c.urg() as u8) << 5
}

fn seg_str(s: &Segment) -> String {
    let t = s.text.to_vec();
    format!(
        "<{} {} {} {} {} {} {} {} {}>",
        s.header.src_port, s.header.dst_port, s.header.seq, s.header.ack, ctl_bits(s.header.ctl), s.header.wnd,
        s.header.urg, t.len(), thash(&t)
    )
}

/// segment sent by side `from`, with seq/ack relative to the ISNs when normalising
fn seg_str_from(s: &Segment, from: usize) -> String {
    match NORM.with(|n| n.get()) {
        None => seg_str(s),
        Some(iss) => {
            let t = s.text.to_vec();
            let ack = if s.header.ctl.ack() { s.header.ack.wrapping_sub(iss[1 - from]) } else { s.header.ack };
            format!(
                "<{} {} {} {} {} {} {} {} {}>",
                s.header.src_port, s.header.dst_port, s.header.seq.wrapping_sub(iss[from]), ack, ctl_bits(s.header.ctl),
                s.header.wnd, s.header.urg, t.len(), thash(&t)
            )
        }
    }
}

fn snap_str(side: usize, e: &End, del: (usize, u64)) -> String {
    if let (Some(iss), End::Live(t)) = (NORM.with(|n| n.get()), e) {
        let s = t.verif_snapshot();
        let own = iss[side];
        let peer = iss[1 - side];
        let unsync = matches!(s.state, State::SynSent);
        let p = |v: u32| if unsync { "x".to_string() } else { v.wrapping_sub(peer).to_string() };
        // SND.WL1/WL2 are internal bookkeeping whose initial values are raw header fields of the
        // SYN; their effect is observable only through SND.WND, which is compared
        let wl2 = "x".to_string();
        let mut o = String::new();
        let _ = write!(
            o,
            "{} {} {} {} {} {} {} {} {} {} {} {} {} {} [",
            st_code(s.state), s.listen_initiated as u8, s.fin_pending as u8, s.snd_una.wrapping_sub(own),
            s.snd_nxt.wrapping_sub(own), s.snd_wnd, "x", wl2, 0, p(s.rcv_irs), p(s.rcv_nxt), s.rcv_wnd,
            s.out_text_len, s.oneshot_len
        );
        for (q, l, sy, f, n) in &s.retransmit {
            let _ = write!(o, "{}:{}:{}{}{},", q.wrapping_sub(own), l, *sy as u8, *f as u8, *n as u8);
        }
        o.push_str("] [");
        let mut ins: Vec<(u32, usize)> = s.in_segments.iter().map(|(q, l)| (q.wrapping_sub(peer), *l)).collect();
        ins.sort();
        for (q, l) in &ins {
            let _ = write!(o, "{}:{},", q, l);
        }
        let _ = write!(
            o,
            "] {} {} {} {} {}",
            s.in_text_len,
            s.rto_nanos / 1_000_000,
            s.time_wait_nanos.map(|x| (x / 1_000_000) as i64).unwrap_or(-1),
            del.0,
            del.1
        );
        return o;
    }
    match e {
        End::Closed => "closed".into(),
        End::Listen => "listen".into(),
        End::Dead => format!("dead {} {}", del.0, del.1),
        End::Live(t) => {
            let s = t.verif_snapshot();
            let mut o = String::new();
            let _ = write!(
                o,
                "{} {} {} {} {} {} {} {} {} {} {} {} {} {} [",
                st_code(s.state), s.listen_initiated as u8, s.fin_pending as u8, s.snd_una, s.snd_nxt, s.snd_wnd, s.snd_wl1, s.snd_wl2,
                s.snd_iss, s.rcv_irs, s.rcv_nxt, s.rcv_wnd, s.out_text_len, s.oneshot_len
            );
            for (q, l, sy, f, n) in &s.retransmit {
                let _ = write!(o, "{}:{}:{}{}{},", q, l, *sy as u8, *f as u8, *n as u8);
            }
            o.push_str("] [");
            for (q, l) in &s.in_segments {
                let _ = write!(o, "{}:{},", q, l);
            }
            let _ = write!(
                o,
                "] {} {} {} {} {}",
                s.in_text_len,
                s.rto_nanos / 1_000_000,
                s.time_wait_nanos.map(|x| (x / 1_000_000) as i64).unwrap_or(-1),
                del.0,
                del.1
            );
            o
        }
    }
}


/// RFC 9293 Figure 5 edges plus the composite moves one segment arrival may make (3.10.7.4).
fn rfc_edge(a: u8, b: u8) -> bool {
    if a == b {
        return true;
    }
    matches!(
        (a, b),
        (1, 2) | (1, 3) | (2, 3) | (2, 4) | (3, 4) | (3, 6) | (2, 6) | (4, 5) | (4, 7) | (4, 9) | (5, 9) | (6, 8) | (7, 9)
            // composite within one arrival: SYN-RCVD -> ESTAB -> (FIN) CLOSE-WAIT ; SYN-SENT -> ESTAB -> CLOSE-WAIT
            | (1, 6)
    )
}

impl Sys {
    fn new(mode: u64, iss: [u32; 2], mtu: [u16; 2]) -> Self {
        Sys {
            end: [End::Closed, if mode == 0 { End::Listen } else { End::Closed }],
            net: [vec![], vec![]],
            sub: [vec![], vec![]],
            del: [vec![], vec![]],
            del_hash: [7, 7],
            del_checked: [0, 0],
            iss,
            mtu,
            closed_by_app: [false; 2],
            injected: false,
            rst_seen: false,
            reset_or_refused: false,
            violations: vec![],
            fin_consumed_seen: [false; 2],
            reached_closed: false,
            peer_seq_max: [None, None],
            adv_wnd: [None, None],
            in_tail: false,
            expired_before_tail: false,
        }
    }

    fn state(&self, s: usize) -> Option<State> {
        match &self.end[s] {
            End::Live(t) => Some(t.status()),
            _ => None,
        }
    }

    fn arrive(&mut self, r: usize, seg: Segment, out: &mut String) {
        let d_back = r; // direction r->other has index r
        let before = self.state(r).map(st_code);
        let before_snap = match &self.end[r] {
            End::Live(t) => Some(t.verif_snapshot()),
            _ => None,
        };
        let seg_copy = seg.clone();
        match &mut self.end[r] {
            End::Live(t) => {
                let res = t.segment_arrives(seg);
                match res {
                    SegmentArrivesResult::Ok => out.push_str("ok"),
                    SegmentArrivesResult::Close => {
                        out.push_str("close");
                        // which kind of close: reset / refused, or the orderly final ACK
                        let st = before.unwrap();
                        if !(st == 8 || st == 7 || st == 9) {
                            self.reset_or_refused = true;
                        } else if seg_copy.header.ctl.rst() {
                            self.reset_or_refused = true;
                        }
                        self.final_read(r);
                        self.end[r] = End::Dead;
                    }
                }
            }
            End::Listen => {
                let res = segment_arrives_listen(
                    seg,
                    Ipv4Address::new(ADDR[r]),
                    Ipv4Address::new(ADDR[1 - r]),
                    self.iss[r],
                    self.mtu[r],
                );
                match res {
                    None => out.push_str("none"),
                    Some(ListenResult::Response(h)) => {
                        let s = Segment::new(h, Message::default());
                        let _ = write!(out, "resp{}", if NORM.with(|n| n.get()).is_some() { String::new() } else { seg_str(&s) });
                        self.net[d_back].push(s);
                    }
                    Some(ListenResult::Tcb(t)) => {
                        out.push_str("tcb");
                        self.end[r] = End::Live(Box::new(t));
                    }
                }
            }
            End::Closed => {
                self.reached_closed = true;
                let res = segment_arrives_closed(
                    seg.header,
                    seg.text.len() as u32,
                    Ipv4Address::new(ADDR[r]),
                    Ipv4Address::new(ADDR[1 - r]),
                );
                match res {
                    None => out.push_str("none"),
                    Some(h) => {
                        let s = Segment::new(h, Message::default());
                        let _ = write!(out, "resp{}", if NORM.with(|n| n.get()).is_some() { String::new() } else { seg_str(&s) });
                        self.net[d_back].push(s);
                    }
                }
            }
            End::Dead => out.push_str("dead"),
        }
        // ---- oracles on the arrival
        let after = self.state(r).map(st_code);
        if let (Some(a), Some(b)) = (before, after) {
            if !rfc_edge(a, b) && !self.injected {
                self.violations.push(format!("C03 non-RFC transition {}->{} on arrival {}", a, b, seg_str(&seg_copy)));
            }
        }
        // C17: unacceptable segments are inert
        if let (Some(bs), End::Live(t)) = (&before_snap, &self.end[r]) {
            let a = t.verif_snapshot();
            let h = &seg_copy.header;
            let seg_len = seg_copy.text.len() as u32 + h.ctl.syn() as u32 + h.ctl.fin() as u32;
            let unacceptable = if bs.state == State::SynSent {
                !h.ctl.syn() && !h.ctl.rst()
            } else {
                // no sequence number of the segment lies in [rcv.nxt-1, rcv.nxt+wnd)
                let lo = bs.rcv_nxt.wrapping_sub(1);
                let span = bs.rcv_wnd as u32 + 1;
                let first = h.seq.wrapping_sub(lo);
                let last = h.seq.wrapping_add(seg_len.max(1) - 1).wrapping_sub(lo);
                // both ends outside and the segment does not wrap over the window
                first >= span && last >= span && (seg_len <= 1 || first <= last)
            };
            if unacceptable && bs.in_segments.is_empty() {
                stat("c17_unacceptable_checked");
                if a.state != bs.state || a.in_text_len != bs.in_text_len || a.rcv_nxt != bs.rcv_nxt {
                    self.violations.push(format!(
                        "C17 unacceptable segment {} changed state/data: {:?}->{:?} in_text {}->{} rcv.nxt {}->{}",
                        seg_str(&seg_copy), bs.state, a.state, bs.in_text_len, a.in_text_len, bs.rcv_nxt, a.rcv_nxt
                    ));
                }
            }
        }
        // C17: which window did the peer last advertise, independently of the implementation's bookkeeping?
        // A segment that is processed at once (nothing queued, not ahead of RCV.NXT), is acceptable, carries ACK and
        // acknowledges new data must update SND.WND whenever its sequence number is not older than any seen before
        // (RFC 9293 3.10.7.4: SND.WL1 < SEG.SEQ, or equal with SND.WL2 <= SEG.ACK).
        if let (Some(bs), End::Live(_)) = (&before_snap, &self.end[r]) {
            let h = &seg_copy.header;
            let synchronised = !matches!(bs.state, State::SynSent | State::SynReceived);
            let immediate = bs.in_segments.is_empty() && h.seq.wrapping_sub(bs.rcv_nxt) >= (1 << 31) || h.seq == bs.rcv_nxt;
            let in_window = h.seq.wrapping_sub(bs.rcv_nxt.wrapping_sub(1)) <= bs.rcv_wnd as u32;
            let acks_new = h.ack.wrapping_sub(bs.snd_una) >= 1 && h.ack.wrapping_sub(bs.snd_una) <= bs.snd_nxt.wrapping_sub(bs.snd_una);
            if synchronised && h.ctl.ack() && !h.ctl.rst() && !h.ctl.syn() {
                if immediate && bs.in_segments.is_empty() && in_window && acks_new {
                    // SND.WL1 is the sequence number of some segment processed earlier, hence <= RCV.NXT: a segment
                    // exactly at RCV.NXT is never older; one behind RCV.NXT only if it is not older than the newest
                    // sequence number this oracle has seen
                    let newer = h.seq == bs.rcv_nxt
                        || match self.peer_seq_max[r] {
                            None => false,
                            Some(m) => h.seq.wrapping_sub(m) < (1 << 31),
                        };
                    if newer {
                        self.peer_seq_max[r] = Some(h.seq);
                        self.adv_wnd[r] = Some(h.wnd);
                        stat("c17_window_oracle_updates");
                    } else {
                        self.adv_wnd[r] = None;
                    }
                } else if h.wnd != bs.snd_wnd {
                    // may or may not update the window: not determined by this oracle
                    self.adv_wnd[r] = None;
                }
            } else if !synchronised {
                self.adv_wnd[r] = None;
                self.peer_seq_max[r] = None;
            }
        }
        if let (Some(bs), End::Dead) = (&before_snap, &self.end[r]) {
            let h = &seg_copy.header;
            if bs.state == State::SynSent && !h.ctl.syn() && !h.ctl.rst() && !h.ctl.ack() {
                self.violations.push(format!("C17 SYN-SENT endpoint deleted by segment without SYN/RST/ACK {}", seg_str(&seg_copy)));
            }
        }
    }

    /// The session loop hands buffered text to the application in every iteration, so
    /// nothing is buffered when a TCB is deleted: model it as a last read at deletion.
    fn final_read(&mut self, s: usize) {
        if let End::Live(t) = &mut self.end[s] {
            let m = t.receive().to_vec();
            for b in &m {
                self.del_hash[s] = (self.del_hash[s] * 31 + *b as u64) % 1_000_003;
            }
            self.del[s].extend_from_slice(&m);
        }
    }

    fn check_sync(&mut self) {
        // C03(b): when both sides are synchronised each side's next expected sequence number
        // lies between the peer's initial number + 1 and what the peer has sent
        if self.injected {
            return;
        }
        let sn: Vec<Option<VerifSnapshot>> = (0..2)
            .map(|s| match &self.end[s] {
                End::Live(t) => Some(t.verif_snapshot()),
                _ => None,
            })
            .collect();
        if let (Some(a), Some(b)) = (&sn[0], &sn[1]) {
            for (x, y, nm) in [(a, b, "A"), (b, a, "B")] {
                let sync = |s: &VerifSnapshot| !matches!(s.state, State::SynSent | State::SynReceived);
                if sync(x) && sync(y) {
                    if x.rcv_irs != y.snd_iss {
                        self.violations.push(format!("C03 sync: {} irs {} != peer iss {}", nm, x.rcv_irs, y.snd_iss));
                    }
                    let off = x.rcv_nxt.wrapping_sub(y.snd_iss.wrapping_add(1));
                    let sent = y.snd_nxt.wrapping_sub(y.snd_iss.wrapping_add(1));
                    if off > sent {
                        self.violations.push(format!("C03 sync: {} rcv.nxt beyond what peer sent ({} > {})", nm, off, sent));
                    }
                }
            }
        }
    }

    fn check_prefix(&mut self) {
        if self.injected {
            return;
        }
        for s in 0..2 {
            let from = self.del_checked[s];
            let to = self.del[s].len();
            if to > from {
                let ok = to <= self.sub[1 - s].len() && self.del[s][from..to] == self.sub[1 - s][from..to];
                if !ok && self.violations.len() < 8 {
                    self.violations.push(format!(
                        "C01 delivered[{}] ({} bytes) is not a prefix of submitted[{}] ({} bytes)",
                        s, self.del[s].len(), 1 - s, self.sub[1 - s].len()
                    ));
                }
                self.del_checked[s] = to;
            }
        }
        // C03(c): data submitted before close is delivered before the peer sees the end of stream
        for s in 0..2 {
            if let Some(st) = self.state(s) {
                let fin_consumed = matches!(st, State::CloseWait | State::Closing | State::LastAck | State::TimeWait);
                if fin_consumed && !self.injected {
                    self.fin_consumed_seen[s] = true;
                }
            }
        }
    }

    fn emit(&mut self, s: usize, out: &mut String) {
        if let End::Live(t) = &mut self.end[s] {
            let before = t.verif_snapshot();
            let segs = t.segments();
            let after = t.verif_snapshot();
            for g in &segs {
                out.push_str(&seg_str_from(g, s));
                if g.header.ctl.rst() {
                    self.rst_seen = true;
                }
                // C17: new data never beyond the right edge of the advertised window
                let len = g.text.len() as u32;
                if len > 0 {
                    let is_new = g.header.seq.wrapping_sub(before.snd_nxt) < (1 << 31);
                    if is_new {
                        if let Some(w) = self.adv_wnd[s] {
                            let r2 = g.header.seq.wrapping_add(len).wrapping_sub(after.snd_una);
                            stat("c17_window_oracle_checked");
                            if r2 > w as u32 {
                                self.violations.push(format!(
                                    "C17 new data {} ends {} past SND.UNA although the peer last advertised a window of {}",
                                    seg_str(g), r2, w
                                ));
                            }
                        }
                        let right = g.header.seq.wrapping_add(len).wrapping_sub(after.snd_una);
                        if right > after.snd_wnd as u32 {
                            self.violations.push(format!(
                                "C17 new data {} ends {} past SND.UNA, window {}",
                                seg_str(g), right, after.snd_wnd
                            ));
                        }
                    }
                    // C01: every data segment carries the submitted bytes at its sequence offset
                    let off = g.header.seq.wrapping_sub(after.snd_iss.wrapping_add(1)) as usize;
                    let txt = g.text.to_vec();
                    if off + txt.len() > self.sub[s].len() || self.sub[s][off..off + txt.len()] != txt[..] {
                        self.violations.push(format!("C01 emitted data segment {} is not a slice of the submitted stream", seg_str(g)));
                    }
                }
            }
            self.net[s].extend(segs);
        } else {
            out.push('-');
        }
    }

    fn step(&mut self, lab: &[&str], out: &mut String) {
        let p = |i: usize| -> u64 { lab[i].parse().unwrap() };
        match lab[0] {
            "O" => {
                let s = p(1) as usize;
                if matches!(self.end[s], End::Closed) {
                    self.end[s] = End::Live(Box::new(Tcb::open(endpoints(s), self.iss[s], self.mtu[s])));
                    out.push_str("open");
                } else {
                    out.push('-');
                }
                let _ = write!(out, "|{}", snap_str(s, &self.end[s], (self.del[s].len(), self.del_hash[s])));
            }
            "S" => {
                let s = p(1) as usize;
                let n = p(2) as usize;
                if let End::Live(t) = &mut self.end[s] {
                    let accepts = matches!(t.status(), State::SynSent | State::SynReceived | State::Established);
                    let start = self.sub[s].len();
                    let bytes: Vec<u8> = (start..start + n).map(|k| pat(s, k)).collect();
                    if accepts {
                        self.sub[s].extend_from_slice(&bytes);
                    }
                    t.send(Message::new(bytes));
                    out.push_str(if accepts { "sent" } else { "ignored" });
                } else {
                    out.push('-');
                }
                let _ = write!(out, "|{}", snap_str(s, &self.end[s], (self.del[s].len(), self.del_hash[s])));
            }
            "R" => {
                let s = p(1) as usize;
                if let End::Live(t) = &mut self.end[s] {
                    let m = t.receive().to_vec();
                    let _ = write!(out, "{}", m.len());
                    for b in &m {
                        self.del_hash[s] = (self.del_hash[s] * 31 + *b as u64) % 1_000_003;
                    }
                    self.del[s].extend_from_slice(&m);
                } else {
                    out.push('-');
                }
                let _ = write!(out, "|{}", snap_str(s, &self.end[s], (self.del[s].len(), self.del_hash[s])));
            }
            "C" => {
                let s = p(1) as usize;
                if let End::Live(t) = &mut self.end[s] {
                    let b = st_code(t.status());
                    let r = t.close();
                    let _ = write!(out, "{}", match r {
                        CloseResult::Ok => "ok",
                        CloseResult::ConnectionClosing => "closing",
                        CloseResult::CloseConnection => "closeconn",
                    });
                    if r == CloseResult::Ok {
                        self.closed_by_app[s] = true;
                    }
                    let a = st_code(t.status());
                    if !rfc_edge(b, a) {
                        self.violations.push(format!("C03 non-RFC transition {}->{} on close", b, a));
                    }
                } else {
                    out.push('-');
                }
                let _ = write!(out, "|{}", snap_str(s, &self.end[s], (self.del[s].len(), self.del_hash[s])));
            }
            "T" => {
                let s = p(1) as usize;
                let ms = p(2);
                let mut dead = false;
                // the session task calls segments() after every instruction and before it
                // lets time pass: output is always flushed before a tick
                self.emit(s, out);
                out.push('/');
                if let End::Live(t) = &mut self.end[s] {
                    let b = st_code(t.status());
                    match t.advance_time(Duration::from_millis(ms)) {
                        AdvanceTimeResult::Ignore => out.push_str("ign"),
                        AdvanceTimeResult::CloseConnection => {
                            out.push_str("closeconn");
                            dead = true;
                            if b != 9 {
                                self.violations.push(format!("C03 TCB deleted by timer in state {}", b));
                            }
                        }
                    }
                } else {
                    out.push('-');
                }
                if dead {
                    self.final_read(s);
                    self.end[s] = End::Dead;
                    if !self.in_tail {
                        self.expired_before_tail = true;
                    }
                }
                let _ = write!(out, "|{}", snap_str(s, &self.end[s], (self.del[s].len(), self.del_hash[s])));
            }
            "E" => {
                let s = p(1) as usize;
                self.emit(s, out);
                let _ = write!(out, "|{}", snap_str(s, &self.end[s], (self.del[s].len(), self.del_hash[s])));
            }
            "D" => {
                let d = p(1) as usize;
                if self.net[d].is_empty() {
                    out.push('-');
                } else {
                    let i = p(2) as usize % self.net[d].len();
                    let seg = self.net[d].remove(i);
                    self.arrive(1 - d, seg, out);
                }
                let _ = write!(out, "|{}", snap_str(1 - d, &self.end[1 - d], (self.del[1 - d].len(), self.del_hash[1 - d])));
            }
            "X" => {
                let d = p(1) as usize;
                if self.net[d].is_empty() {
                    out.push('-');
                } else {
                    let i = p(2) as usize % self.net[d].len();
                    self.net[d].remove(i);
                    out.push('x');
                }
            }
            "U" => {
                let d = p(1) as usize;
                if self.net[d].is_empty() {
                    out.push('-');
                } else {
                    let i = p(2) as usize % self.net[d].len();
                    let c = self.net[d][i].clone();
                    self.net[d].push(c);
                    out.push('u');
                }
            }
            "I" => {
                let d = p(1) as usize;
                let (seq, ack, ctl, wnd, len) = (p(2) as u32, p(3) as u32, p(4) as u8, p(5) as u16, p(6) as usize);
                self.injected = true;
                let h = TcpHeader {
                    src_port: PORT[d],
                    dst_port: PORT[1 - d],
                    seq,
                    ack,
                    data_offset: 5,
                    ctl: Control::from(ctl),
                    wnd,
                    urg: 0,
                    checksum: 0,
                };
                let text: Vec<u8> = (0..len).map(|k| (k * 13 + 5) as u8).collect();
                let seg = Segment::new(h, Message::new(text));
                self.arrive(1 - d, seg, out);
                let _ = write!(out, "|{}", snap_str(1 - d, &self.end[1 - d], (self.del[1 - d].len(), self.del_hash[1 - d])));
            }
            "F" | "G" | "H" => {
                // k fair loss-free rounds with ticks of 101 ms (F) or of the given length (G)
                let k = p(1);
                let tick_ms = if lab[0] != "F" { lab[2].to_string() } else { "101".to_string() };
                let one = lab[0] == "H";
                if !self.in_tail {
                    // a 2*MSL wait that the lossy phase has all but used up runs out before the peer's
                    // retransmitted FIN can arrive: same class as an expiry before the tail
                    for s in 0..2 {
                        if let End::Live(t) = &self.end[s] {
                            if let Some(tw) = t.verif_snapshot().time_wait_nanos {
                                if tw < 500_000_000 {
                                    self.expired_before_tail = true;
                                }
                            }
                        }
                    }
                }
                self.in_tail = true;
                for _ in 0..k {
                    for s in 0..2 {
                        let mut o = String::new();
                        self.step(&["T", if s == 0 { "0" } else { "1" }, tick_ms.as_str()], &mut o);
                        o.clear();
                        self.emit(s, &mut o);
                        // all in-flight segments in order, or (H) the oldest third of them, at least one
                        let mut budget = if one { self.net[s].len() / 3 + 1 } else { usize::MAX };
                        while !self.net[s].is_empty() && budget > 0 {
                            let seg = self.net[s].remove(0);
                            o.clear();
                            self.arrive(1 - s, seg, &mut o);
                            budget -= 1;
                        }
                        for r in 0..2 {
                            o.clear();
                            self.step(&["R", if r == 0 { "0" } else { "1" }], &mut o);
                        }
                    }
                    self.check_prefix();
                }
                let _ = write!(
                    out,
                    "{}|{}|{} {}",
                    snap_str(0, &self.end[0], (self.del[0].len(), self.del_hash[0])),
                    snap_str(1, &self.end[1], (self.del[1].len(), self.del_hash[1])),
                    self.net[0].len(),
                    self.net[1].len()
                );
            }
            "Q" => {
                self.liveness_check();
                out.push('q');
            }
            _ => panic!("bad label {:?}", lab),
        }
        let _ = write!(out, "|{},{}", self.net[0].len(), self.net[1].len());
        self.check_prefix();
        self.check_sync();
    }

    /// After a fair loss-free tail: everything delivered, acknowledged, silent; closes complete.
    fn liveness_check(&mut self) {
        if self.injected {
            return;
        }
        stat("liveness_checked");
        if self.rst_seen || self.reset_or_refused {
            // a closed system of two conforming endpoints must not reset (C03)
            let both_opened = !matches!(self.end[0], End::Closed) && !matches!(self.end[1], End::Closed | End::Listen);
            if both_opened && !self.reached_closed {
                self.violations.push("C03 connection was reset/refused in a closed system without forged segments".into());
            }
            return;
        }
        let live: Vec<bool> = (0..2).map(|s| matches!(self.end[s], End::Live(_))).collect();
        let opened = !matches!(self.end[0], End::Closed) || !matches!(self.end[1], End::Closed | End::Listen);
        if !opened {
            return;
        }
        if matches!(self.end[1], End::Listen) || matches!(self.end[0], End::Closed) || matches!(self.end[1], End::Closed) {
            // one side never opened: nothing to converge to
            stat("liveness_half_open_skipped");
            return;
        }
        for s in 0..2 {
            if self.del[s] != self.sub[1 - s] {
                self.violations.push(format!(
                    "C01 liveness: after the fair tail delivered[{}] has {} of {} submitted bytes",
                    s, self.del[s].len(), self.sub[1 - s].len()
                ));
            }
        }
        if self.expired_before_tail {
            // a 2*MSL wait ran out while the network was still lossy: the surviving side
            // retransmits its FIN to a deleted peer; outside "once the network is fair"
            stat("liveness_release_skipped_msl_expired_under_loss");
            return;
        }
        for s in 0..2 {
            if let End::Live(t) = &mut self.end[s] {
                let sn = t.verif_snapshot();
                if !sn.retransmit.is_empty() || sn.out_text_len != 0 {
                    self.violations.push(format!("C01 liveness: side {} still has unacknowledged/unsent data {:?} {}", s, sn.retransmit, sn.out_text_len));
                }
                let more = t.segments();
                if !more.is_empty() {
                    self.violations.push(format!("C01 liveness: side {} still transmits after the fair tail", s));
                }
                let st = t.status();
                let ok = match (self.closed_by_app[s], self.closed_by_app[1 - s]) {
                    (false, false) => st == State::Established,
                    (true, false) => st == State::FinWait2,
                    (false, true) => st == State::CloseWait,
                    (true, true) => false, // both closed: must have been released
                };
                if !ok {
                    self.violations.push(format!(
                        "C03 release: side {} ends in state {:?} (closed_by_app {:?})",
                        s, st, self.closed_by_app
                    ));
                }
            } else if live[1 - s] || !(self.closed_by_app[0] && self.closed_by_app[1]) {
                if !(self.closed_by_app[0] && self.closed_by_app[1]) {
                    self.violations.push(format!("C03 release: side {} released although not both applications closed", s));
                }
            }
        }
    }
}

fn fnv(s: &str) -> u32 {
    let mut h: u32 = 0x811c9dc5;
    for b in s.bytes() {
        h ^= b as u32;
        h = h.wrapping_mul(16777619);
    }
    h
}

fn flag(f: &str) -> bool {
    std::env::args().any(|a| a == f)
}

fn heavy() -> bool {
    std::env::args().any(|a| a == "--heavy")
}

fn verbose() -> bool {
    std::env::args().any(|a| a == "--verbose")
}

fn run_case(case: &str, stop_on_panic: bool) -> (String, Vec<String>, bool) {
    run_case_with(case, stop_on_panic, [0, 0], false, verbose())
}

/// shift: added to the two ISNs; norm: print sequence numbers relative to the ISNs
fn run_case_with(case: &str, _stop_on_panic: bool, shift: [u32; 2], norm: bool, verbose: bool) -> (String, Vec<String>, bool) {
    let (head, body) = case.split_once('|').expect("case format");
    let h: Vec<u64> = head.split_whitespace().map(|x| x.parse().unwrap()).collect();
    let iss = [(h[1] as u32).wrapping_add(shift[0]), (h[2] as u32).wrapping_add(shift[1])];
    let mut sys = Sys::new(h[0], iss, [h[3] as u16, h[4] as u16]);
    NORM.with(|n| n.set(if norm { Some(iss) } else { None }));
    let mut out = String::new();
    let mut panicked = false;
    for lab in body.split(';') {
        let toks: Vec<&str> = lab.split_whitespace().collect();
        if toks.is_empty() {
            continue;
        }
        let mut rec = String::new();
        let r = catch_unwind(AssertUnwindSafe(|| sys.step(&toks, &mut rec)));
        match r {
            Ok(()) => {
                if verbose {
                    out.push_str(&rec);
                    out.push(';');
                } else {
                    let _ = write!(out, "{:08x}", fnv(&rec));
                }
            }
            Err(e) => {
                out.push_str("PANICKED;");
                sys.violations.push(format!("C17/C01 panic at label `{}`: {}", lab.trim(), panic_message(e)));
                panicked = true;
                break;
            }
        }
    }
    NORM.with(|n| n.set(None));
    if norm && sys.reached_closed {
        // replies of a never-opened endpoint carry the literal sequence number 0 (3.10.7.1):
        // outside "a connection", excluded from the ISN-independence comparison
        out.push_str("##reached-closed");
    }
    (out, sys.violations, panicked)
}

struct TcbFam;

const ISS_EDGE: [u32; 8] = [0, 1, 0x7fff_ffff, 0x8000_0000, 0xffff_ffff, 0xffff_0000, 300, 3_000_000_000];

fn gen_iss(rng: &mut Rng) -> u32 {
    match rng.below(4) {
        0 => *rng.pick(&ISS_EDGE),
        1 => 0u32.wrapping_sub(rng.below(70000) as u32),
        2 => 0x8000_0000u32.wrapping_add(rng.below(140000) as u32).wrapping_sub(70000),
        _ => rng.u32(),
    }
}

fn gen_mtu(rng: &mut Rng) -> u16 {
    match rng.below(5) {
        0 => 100,
        1 => 1500,
        2 => 65535,
        3 => rng.range(100, 300) as u16,
        _ => rng.range(100, 65535) as u16,
    }
}

/// Generation executes the labels on the real implementation so that forged
/// segments can be placed relative to the live sequence variables.
fn gen_case(rng: &mut Rng, idx: usize) -> String {
    let hostile = if flag("--hostile") { true } else if flag("--conformant") || flag("--shift") { false } else { idx % 3 == 2 };
    let mode = if rng.coin(1, 5) { 1 } else { 0 };
    let mut iss = [gen_iss(rng), gen_iss(rng)];
    if hostile && rng.coin(1, 3) {
        // sequence numbers that wrap after a few hundred bytes: bookkeeping that compares them as plain
        // integers (window update, retransmission queue) goes wrong only after the wrap
        let k = rng.below(2) as usize;
        iss[k] = 0u32.wrapping_sub(rng.below(3000) as u32 + 2);
    }
    let mtu = [gen_mtu(rng), gen_mtu(rng)];
    let mut sys = Sys::new(mode, iss, mtu);
    let mut labels: Vec<String> = vec![];
    let nlab = rng.range(5, if hostile { 120 } else { 260 }) as usize;
    let big_writes = rng.coin(1, 6);
    let lossy = rng.coin(2, 3);
    let closes = rng.coin(1, 2);
    let push = |sys: &mut Sys, labels: &mut Vec<String>, l: String| -> bool {
        let toks: Vec<&str> = l.split_whitespace().collect();
        let mut o = String::new();
        let ok = catch_unwind(AssertUnwindSafe(|| sys.step(&toks, &mut o))).is_ok();
        labels.push(l);
        ok
    };
    let mut alive = push(&mut sys, &mut labels, "O 0".into());
    if mode == 1 && alive {
        if rng.coin(4, 5) {
            alive = push(&mut sys, &mut labels, "O 1".into());
        }
    }
    let mut n = 0;
    while alive && n < nlab {
        n += 1;
        let s = rng.below(2);
        let d = rng.below(2);
        let r = rng.below(100);
        let l = if r < 22 {
            format!("E {}", s)
        } else if r < 50 {
            // mostly in order
            let i = if rng.coin(3, 4) { 0 } else { rng.below(8) };
            format!("D {} {}", d, i)
        } else if r < 60 {
            let ms = *rng.pick(&[1u64, 5, 50, 99, 100, 101, 150, 500, 1999, 2000, 2001]);
            format!("T {} {}", s, ms)
        } else if r < 70 {
            let mss = (sys.mtu[s as usize] - 50) as u64;
            let mut nbytes = if big_writes && rng.coin(1, 3) {
                *rng.pick(&[65535u64, 65536, 70000, 131072, 200000])
            } else {
                *rng.pick(&[0u64, 1, 2, 10, 49, 50, 51, 100, 1000, mss - 1, mss, mss + 1, 2 * mss, 3000])
            };
            if !heavy() {
                // the extracted model is ~100x slower than the Rust code: bound the number of
                // segments a case can produce (the --heavy stream, oracle only, has no such bound)
                let budget = 60 * mss;
                let used = sys.sub[s as usize].len() as u64;
                nbytes = nbytes.min(budget.saturating_sub(used));
            }
            format!("S {} {}", s, nbytes)
        } else if r < 80 {
            format!("R {}", s)
        } else if r < 84 && lossy {
            format!("X {} {}", d, rng.below(8))
        } else if r < 88 && lossy {
            format!("U {} {}", d, rng.below(8))
        } else if r < 90 && closes {
            format!("C {}", s)
        } else if r < 92 && mode == 1 {
            format!("O {}", s)
        } else if hostile && r < 100 {
            // forged segment relative to the receiver's live state
            let rcv = 1 - d as usize;
            let (rn, rw, una, nxt) = match &sys.end[rcv] {
                End::Live(t) => {
                    let sn = t.verif_snapshot();
                    (sn.rcv_nxt, sn.rcv_wnd as u32, sn.snd_una, sn.snd_nxt)
                }
                _ => (rng.u32(), 65535, rng.u32(), rng.u32()),
            };
            if rng.coin(1, 5) {
                // a legitimate-looking ACK of new data that changes the advertised window (often shrinking it)
                let a = if rng.coin(2, 3) { nxt } else { una.wrapping_add(1) };
                let w = *rng.pick(&[0u64, 1, 10, 100, 1000, 3000, 30000, 65535]);
                let l = format!("I {} {} {} 16 {} 0", d, rn, a, w);
                alive = push(&mut sys, &mut labels, l);
                if alive && rng.coin(1, 2) {
                    // and give the receiver of the ACK something to send
                    let l2 = format!("S {} {}", rcv, *rng.pick(&[100u64, 1000, 3000, 5000]));
                    alive = push(&mut sys, &mut labels, l2);
                    if alive {
                        alive = push(&mut sys, &mut labels, format!("E {}", rcv));
                    }
                }
                continue;
            }
            let seq = match rng.below(10) {
                0 => rn,
                1 => rn.wrapping_sub(1),
                2 => rn.wrapping_sub(2),
                3 => rn.wrapping_add(1),
                4 => rn.wrapping_add(rw).wrapping_sub(1),
                5 => rn.wrapping_add(rw),
                6 => rn.wrapping_add(rw).wrapping_add(1),
                7 => rn.wrapping_add(0x8000_0000),
                8 => rn.wrapping_sub(rng.below(3000) as u32),
                _ => rng.u32(),
            };
            let ack = match rng.below(8) {
                0 => una,
                1 => una.wrapping_sub(1),
                2 => una.wrapping_add(1),
                3 => nxt,
                4 => nxt.wrapping_add(1),
                5 => nxt.wrapping_sub(1),
                6 => nxt.wrapping_add(2),
                _ => rng.u32(),
            };
            let ctl = match rng.below(4) {
                0 => 0x10,
                1 => *rng.pick(&[0x10u64, 0x11, 0x12, 0x14, 0x02, 0x01, 0x04, 0x18, 0x00]),
                _ => rng.below(64),
            };
            let wnd = *rng.pick(&[0u64, 1, 10, 100, 1000, 65535, 30000]);
            let len = *rng.pick(&[0u64, 0, 1, 2, 10, 100, 536, 1450]);
            format!("I {} {} {} {} {} {}", d, seq, ack, ctl, wnd, len)
        } else {
            format!("E {}", s)
        };
        alive = push(&mut sys, &mut labels, l);
    }
    if alive && !hostile && rng.coin(1, 3) {
        // close choreography: the random part rarely loses exactly the segments of the closing handshake.
        // Settle, let one or both applications close, and move the FINs and then their ACKs step by step,
        // losing (or duplicating) each in-flight segment of a phase with probability 1/2 - e.g. both ACKs of
        // two crossing FINs, after which only retransmitted FINs can release the endpoints.
        if rng.coin(2, 3) {
            alive = push(&mut sys, &mut labels, "F 3".into());
        }
        let first = rng.below(2);
        let both_at_once = rng.coin(1, 2);
        let phases = rng.range(2, 4);
        if alive {
            alive = push(&mut sys, &mut labels, format!("C {}", first));
        }
        if alive && both_at_once {
            alive = push(&mut sys, &mut labels, format!("C {}", 1 - first));
        }
        for ph in 0..phases {
            if !alive {
                break;
            }
            for s in [first, 1 - first] {
                if alive {
                    alive = push(&mut sys, &mut labels, format!("E {}", s));
                }
            }
            let lose = rng.below(4); // 0: nothing lost, 1: direction 0, 2: direction 1, 3: both directions
            for d in 0..2u64 {
                let n = sys.net[d as usize].len();
                let hit = lose == 3 || lose == d + 1;
                for _ in 0..n {
                    if !alive {
                        break;
                    }
                    let l = if hit && rng.coin(3, 4) {
                        format!("X {} 0", d)
                    } else if rng.coin(1, 8) {
                        format!("U {} 0", d)
                    } else {
                        format!("D {} 0", d)
                    };
                    alive = push(&mut sys, &mut labels, l);
                }
            }
            if alive && ph == 0 && !both_at_once && rng.coin(2, 3) {
                alive = push(&mut sys, &mut labels, format!("C {}", 1 - first));
            }
        }
    }
    if alive && !hostile {
        // fair loss-free tail, then the liveness check-point
        // the loss-free tail uses ticks longer than the RTO, or much shorter ones with traffic in between
        // (a retransmission timer that is restarted by every emission never expires in the second kind)
        let tail = match rng.below(4) {
            0 => "F 40".to_string(),
            1 => "G 140 30".to_string(),
            2 => "G 90 50".to_string(),
            // one delivery per direction and round: queueing delay keeps ACKs flowing in every round
            _ => "H 300 30".to_string(),
        };
        let _ = push(&mut sys, &mut labels, tail);
        // let a 2*MSL wait run out - but only on a side that is in TIME-WAIT, so that the long tick cannot
        // rescue a retransmission timer that failed to expire during the tail
        // let a 2*MSL wait run out by itself: a second loss-free tail of 2.25 s in short ticks (a long tick
        // would end a wait that keeps being restarted, e.g. two TIME-WAIT endpoints answering each other's ACKs)
        if (0..2).any(|s| sys.state(s) == Some(State::TimeWait)) {
            let _ = push(&mut sys, &mut labels, "G 75 30".into());
        }
        labels.push("Q".into());
    } else if alive {
        let _ = push(&mut sys, &mut labels, "F 5".into());
    }
    if flag("--shift") {
        let mut d = [0u32; 2];
        for k in 0..2 {
            d[k] = match rng.below(5) {
                0 => 0u32.wrapping_sub(iss[k]).wrapping_sub(rng.below(70000) as u32), // lands just below the wrap point
                1 => 0x8000_0000u32.wrapping_sub(iss[k]).wrapping_sub(rng.below(70000) as u32), // just below 2^31
                2 => 0,
                _ => rng.u32(),
            };
        }
        return format!("{} {} {} {} {} {} {} | {}", mode, iss[0], iss[1], mtu[0], mtu[1], d[0], d[1], labels.join(" ; "));
    }
    format!("{} {} {} {} {} | {}", mode, iss[0], iss[1], mtu[0], mtu[1], labels.join(" ; "))
}

impl Family for TcbFam {
    fn gen(rng: &mut Rng, idx: usize) -> String {
        gen_case(rng, idx)
    }

    fn run(case: &str) -> Outcome {
        let (line, viol, panicked) = run_case(case, true);
        stat(if case.contains(" I ") { "stream_hostile" } else { "stream_conformant" });
        let nl = case.matches(';').count() + 1;
        stat(&format!("labels_{}", if nl < 20 { "lt20" } else if nl < 100 { "20_99" } else { "ge100" }));
        if case.contains("S 0 200000") || case.contains("S 1 200000") || case.contains(" 131072") || case.contains(" 70000") {
            stat("has_write_above_window");
        }
        if case.contains("; C ") {
            stat("has_close");
        }
        if case.starts_with('1') {
            stat("simultaneous_open");
        }
        let mut viol = viol;
        {
            let head = case.split_once('|').unwrap().0;
            let h: Vec<u64> = head.split_whitespace().map(|x| x.parse().unwrap()).collect();
            if h.len() >= 7 && !case.contains(" I ") {
                // C12: the same schedule with both ISNs shifted must give the same behaviour
                // once sequence numbers are taken relative to the ISNs
                let (base, _, _) = run_case_with(case, true, [0, 0], true, true);
                let (shifted, v2, _) = run_case_with(case, true, [h[5] as u32, h[6] as u32], true, true);
                stat("c12_shift_pairs");
                if (h[1] as u32).checked_add(h[5] as u32).is_none() || (h[2] as u32).checked_add(h[6] as u32).is_none() {
                    stat("c12_shift_wraps_isn");
                }
                if base.ends_with("##reached-closed") || shifted.ends_with("##reached-closed") {
                    stat("c12_pair_skipped_closed_endpoint_reply");
                } else if base != shifted {
                    let a: Vec<&str> = base.split(';').collect();
                    let b: Vec<&str> = shifted.split(';').collect();
                    let k = (0..a.len().min(b.len())).find(|&i| a[i] != b[i]).unwrap_or(a.len().min(b.len()));
                    viol.push(format!(
                        "C12 behaviour depends on the ISNs (shift {} {}): label #{} base `{}` shifted `{}`",
                        h[5], h[6], k, a.get(k).unwrap_or(&""), b.get(k).unwrap_or(&"")
                    ));
                }
                for v in v2 {
                    viol.push(format!("(shifted run) {}", v));
                }
            }
        }
        let oracle = if viol.is_empty() {
            Oracle::Ok
        } else {
            Oracle::Fail(format!("{} violation(s): {}", viol.len(), viol[..viol.len().min(3)].join(" || ")))
        };
        let _ = panicked;
        Outcome { impl_line: line, oracle }
    }
}

fn main() {
    main_loop::<TcbFam>();
}
