//! Shared part of the IPv4 / UDP / TCP codec harness (bins `c08_codecip`, default
//! build, and `c18_cksum`, built with `--features compute_checksum`).
//!
//! Case lines (numbers decimal, addresses as the u32 of their big-endian bytes):
//!   ip4b sa da proto plen tos id frag flags        build_ipv4_header (builder, ttl 30)
//!   ip4s ihl tos tl id frag flags ttl proto ck sa da   Ipv4Header{..}.serialize()
//!   ip4d P                                          Ipv4Header::from_bytes, then serialize() of the result
//!   ip4c may last | ip4t prec delay thr rel         ControlFlags::new / TypeOfService::new
//!   udpb sa sp da dp P tlen                         build_udp_header(text = P, text_len = tlen)
//!   udpd sa da plen P                               UdpHeader::from_bytes_ipv4, then rebuild
//!   tcpb sp dp seq sa da P tlen call*               TcpHeaderBuilder (calls: w<n> a<n> p r s f u<n>), build, serialize
//!   tcps sp dp seq ack doff ctl wnd urg ck          TcpHeader{..}.serialize()
//!   tcpd sa da plen P                               TcpHeader::from_bytes, then serialize() of the result
//!   ctln u a p r s f | ctls v bit state             Control::new + getters / set_<bit>
//!   cks op*                                         Checksum: w<hex4> add_u16, b<hex4> add_u8, d<hex8> add_u32, r<P> remainder
//!   flip n i [j] <ip4d|udpd|tcpd case>              decode the packet and the packet with bit(s) i, j flipped
//!                                                   (bit index = 8*byte + (7 - bit number), i.e. wire order)
//! P (bytes) = parts joined by '+': `-` empty | hex | g<len>:<seed> (generated, see `gen_bytes`).
//!
//! Property oracle (independent of the model): etherparse 0.10 and plain u64 arithmetic.
//!   builders : same bytes as etherparse for the same field values (compute_checksum build: the
//!              field may be 0xffff where etherparse has 0x0000), emitted packet verifies under
//!              RFC 1071 incl. pseudo header, own decoder gives the fields back, etherparse reads
//!              the same fields
//!   decoders : accepted => re-encoding reproduces the consumed bytes (TCP: Oracle::Known
//!              "tcp-reserved-bits" exactly when only the reserved bits of bytes 12/13 differ;
//!              not judged in the compute_checksum build, where C18 does not claim the clause),
//!              etherparse reads the same fields, packet verifies; rejected => the packet is not a
//!              conforming encoding (reference checksum cross-checked with etherparse)
//!   flip     : with checksums on, a corrupted accepted packet is rejected iff the covered word sum
//!              changed modulo 65535; single-bit flips always
//! Result lines are documented next to each runner; the OCaml driver
//! (ocaml/codecip_drv.ml) prints the same strings from the extracted model.
#![allow(dead_code)]
use elvis_core::protocols::ipv4::ipv4_parsing::{
    ControlFlags, Delay, HeaderBuildError, Ipv4Header, ParseError as IpErr, Precedence, Reliability, Throughput,
    TypeOfService,
};
use elvis_core::protocols::ipv4::verif::build_ipv4_header;
use elvis_core::protocols::ipv4::Ipv4Address;
use elvis_core::protocols::tcp::verif::{Control, ParseError as TcpErr, TcpHeaderBuilder};
use elvis_core::protocols::tcp::TcpHeader;
use elvis_core::protocols::udp::verif::{build_udp_header, ParseError as UdpErr};
use elvis_core::protocols::udp::UdpHeader;
use elvis_core::protocols::VerifChecksum;
use elvis_verif_harness::*;
use std::panic::{catch_unwind, AssertUnwindSafe};

/// whether this binary was built with real checksums
pub const CK: bool = cfg!(feature = "compute_checksum");

// ------------------------------------------------------------------ bytes

/// the generated payload `g<len>:<seed>`; the OCaml driver has the same function
pub fn gen_bytes(len: usize, seed: u64) -> Vec<u8> {
    let mut x = seed & 0x7fff_ffff;
    let mut v = Vec::with_capacity(len);
    for _ in 0..len {
        x = (x * 1103515245 + 12345) & 0x7fff_ffff;
        v.push(((x >> 16) & 0xff) as u8);
    }
    v
}

pub fn parse_p(tok: &str) -> Vec<u8> {
    let mut out = vec![];
    for part in tok.split('+') {
        if part == "-" || part.is_empty() {
        } else if let Some(g) = part.strip_prefix('g') {
            let (l, s) = g.split_once(':').expect("g<len>:<seed>");
            out.extend(gen_bytes(l.parse().unwrap(), s.parse().unwrap()));
        } else {
            out.extend(unhex(part));
        }
    }
    out
}

fn addr(v: u32) -> Ipv4Address {
    Ipv4Address::from(v)
}

fn guard<T>(f: impl FnOnce() -> T) -> Option<T> {
    catch_unwind(AssertUnwindSafe(f)).ok()
}

// ------------------------------------------------------------------ independent reference arithmetic

/// plain integer sum of the big-endian 16-bit words, odd tail padded with zero
pub fn word_sum(bs: &[u8]) -> u64 {
    let mut s = 0u64;
    let mut i = 0;
    while i < bs.len() {
        let hi = bs[i] as u64;
        let lo = if i + 1 < bs.len() { bs[i + 1] as u64 } else { 0 };
        s += hi * 256 + lo;
        i += 2;
    }
    s
}
/// RFC 1071 one's-complement sum (deferred carries)
pub fn oc_fold(mut s: u64) -> u16 {
    while s >> 16 != 0 {
        s = (s & 0xffff) + (s >> 16);
    }
    s as u16
}
pub fn pseudo(sa: u32, da: u32, proto: u8, len: u16) -> Vec<u8> {
    let mut v = vec![];
    v.extend_from_slice(&sa.to_be_bytes());
    v.extend_from_slice(&da.to_be_bytes());
    v.push(0);
    v.push(proto);
    v.extend_from_slice(&len.to_be_bytes());
    v
}
/// RFC 1071 check: sum over everything including the checksum field is all ones
pub fn verifies(sum_all: u64) -> bool {
    oc_fold(sum_all) == 0xffff
}

// ------------------------------------------------------------------ IPv4

pub fn ip_err(e: IpErr) -> String {
    match e {
        IpErr::HeaderTooShort => "ERR 1".into(),
        IpErr::IncorrectIpv4Version => "ERR 2".into(),
        IpErr::InvalidHeaderLength => "ERR 3".into(),
        IpErr::UsedReservedTos => "ERR 4".into(),
        IpErr::UsedReservedFlag => "ERR 5".into(),
        IpErr::Checksum { expected, actual } => format!("ERR ck {} {}", expected, actual),
        #[allow(unreachable_patterns)]
        other => {
            // a variant added by a repair (fix-ipv4-totlen.patch adds TotalLengthTooSmall)
            let d = format!("{:?}", other);
            if d.contains("TotalLength") {
                "ERR 6".into()
            } else {
                format!("ERR other {}", d.replace(' ', "_"))
            }
        }
    }
}
fn build_err(e: HeaderBuildError) -> String {
    match e {
        HeaderBuildError::OverlyLongPayload => "ERR 21".into(),
        HeaderBuildError::OverlyLongFragmentOffset => "ERR 22".into(),
    }
}
fn ip_fields(h: &Ipv4Header) -> String {
    format!(
        "{} {} {} {} {} {} {} {} {} {} {}",
        h.ihl,
        h.type_of_service.as_u8(),
        h.total_length,
        h.identification,
        h.fragment_offset,
        h.flags.as_u8(),
        h.time_to_live,
        h.protocol,
        h.checksum,
        u32::from(h.source),
        u32::from(h.destination)
    )
}
/// `OK <hex>` | `ERR 21|22` | `PANIC`
fn ser_line(r: Option<Result<Vec<u8>, HeaderBuildError>>) -> String {
    match r {
        None => "PANIC".into(),
        Some(Ok(v)) => format!("OK {}", hex(&v)),
        Some(Err(e)) => build_err(e),
    }
}
pub fn ip_decode(bs: &[u8]) -> Option<Result<Ipv4Header, IpErr>> {
    guard(|| Ipv4Header::from_bytes(bs.iter().cloned()))
}
/// `OK <11 fields> RE <ser_line>` | `ERR ..` | `PANIC`
pub fn ip_decode_line(bs: &[u8]) -> (String, Option<Ipv4Header>, Option<Vec<u8>>) {
    match ip_decode(bs) {
        None => ("PANIC".into(), None, None),
        Some(Err(e)) => (ip_err(e), None, None),
        Some(Ok(h)) => {
            let re = guard(|| h.serialize());
            let reb = match &re {
                Some(Ok(v)) => Some(v.clone()),
                _ => None,
            };
            (format!("OK {} RE {}", ip_fields(&h), ser_line(re)), Some(h), reb)
        }
    }
}

/// fields of a 20-byte header according to etherparse, in the order of `ip_fields`
fn ep_ip_fields(bs: &[u8]) -> Result<String, String> {
    let (h, _) = etherparse::Ipv4Header::from_slice(bs).map_err(|e| format!("{:?}", e))?;
    Ok(format!(
        "{} {} {} {} {} {} {} {} {} {} {}",
        h.ihl(),
        (h.differentiated_services_code_point << 2) | h.explicit_congestion_notification,
        h.total_len(),
        h.identification,
        h.fragments_offset,
        ((h.dont_fragment as u8) << 1) | h.more_fragments as u8,
        h.time_to_live,
        h.protocol,
        h.header_checksum,
        u32::from_be_bytes(h.source),
        u32::from_be_bytes(h.destination)
    ))
}
/// the bytes etherparse writes for the given field values (checksum: computed when CK, else 0)
#[allow(clippy::too_many_arguments)]
pub fn ep_ip_bytes(tos: u8, plen: u16, id: u16, frag: u16, flags: u8, ttl: u8, proto: u8, sa: u32, da: u32) -> Option<Vec<u8>> {
    let mut h = etherparse::Ipv4Header::new(plen, ttl, etherparse::IpNumber::Udp, sa.to_be_bytes(), da.to_be_bytes());
    h.protocol = proto;
    h.differentiated_services_code_point = tos >> 2;
    h.explicit_congestion_notification = tos & 3;
    h.identification = id;
    h.fragments_offset = frag;
    h.dont_fragment = flags & 2 != 0;
    h.more_fragments = flags & 1 != 0;
    h.header_checksum = if CK { h.calc_header_checksum().ok()? } else { 0 };
    let mut v = vec![];
    h.write_raw(&mut v).ok()?;
    Some(v)
}

/// is `bs` (>= 20 bytes) the output of a conforming RFC 791 encoder for some field values the
/// stack supports (no options, reserved bits zero), with the checksum of this build?
fn ip_reference_valid(bs: &[u8]) -> bool {
    if bs.len() < 20 || bs[0] != 0x45 || bs[1] & 3 != 0 || bs[6] & 0x80 != 0 {
        return false;
    }
    let tl = u16::from_be_bytes([bs[2], bs[3]]);
    if tl < 20 {
        return false;
    }
    let field = u16::from_be_bytes([bs[10], bs[11]]);
    if CK {
        let mut z = bs[..20].to_vec();
        z[10] = 0;
        z[11] = 0;
        field == !oc_fold(word_sum(&z))
    } else {
        field == 0
    }
}

fn run_ip4b(t: &[&str]) -> Outcome {
    let p = |i: usize| -> u64 { t[i].parse().unwrap() };
    let (sa, da, proto, plen, tos, id, frag, flags) =
        (p(1) as u32, p(2) as u32, p(3) as u8, p(4) as u16, p(5) as u8, p(6) as u16, p(7) as u16, p(8) as u8);
    let r = guard(|| {
        build_ipv4_header(addr(sa), addr(da), proto, plen, TypeOfService::from(tos), id, frag, ControlFlags::from(flags))
    });
    let line = ser_line(r.clone());
    let mut oracle = Oracle::Ok;
    let typed = tos & 3 == 0 && flags < 4;
    match &r {
        None => oracle = Oracle::Fail("builder panicked".into()),
        Some(Ok(v)) => {
            stat("ip4b_ok");
            if typed {
                // same bytes as the independent encoder
                match ep_ip_bytes(tos, plen, id, frag, flags, 30, proto, sa, da) {
                    Some(e) => {
                        let corner = CK && e[10] == 0 && e[11] == 0 && v[10] == 0xff && v[11] == 0xff && e[..10] == v[..10] && e[12..] == v[12..];
                        if &e != v && !corner {
                            oracle = Oracle::Fail(format!("ipv4 encoding differs from etherparse: {} vs {}", hex(v), hex(&e)));
                        }
                        if corner {
                            stat("ip4b_ffff_corner");
                        }
                    }
                    None => oracle = Oracle::Fail("etherparse refuses field values the builder accepts".into()),
                }
                // RFC 1071: the emitted header verifies
                if CK && !verifies(word_sum(v)) {
                    oracle = Oracle::Fail(format!("emitted ipv4 header does not verify: {}", hex(v)));
                }
                // round trip: decode(encode h) = h, and etherparse extracts the same fields
                let (dl, dh, _) = ip_decode_line(v);
                match dh {
                    Some(h) => {
                        let want = format!("5 {} {} {} {} {} 30 {} {} {} {}", tos, plen as u32 + 20, id, frag, flags, proto, h.checksum, sa, da);
                        if ip_fields(&h) != want || h.checksum != u16::from_be_bytes([v[10], v[11]]) {
                            oracle = Oracle::Fail(format!("ipv4 decode(encode h) != h: {} vs {}", ip_fields(&h), want));
                        }
                        match ep_ip_fields(v) {
                            Ok(f) if f == ip_fields(&h) => {}
                            other => oracle = Oracle::Fail(format!("etherparse reads other fields from the emitted header: {:?}", other)),
                        }
                    }
                    None => oracle = Oracle::Fail(format!("decoder rejects the header its own encoder produced: {}", dl)),
                }
            } else {
                stat("ip4b_untyped_fields");
            }
        }
        Some(Err(_)) => {
            stat("ip4b_err");
            if typed && plen as u32 + 20 <= 65535 && frag <= 8191 {
                oracle = Oracle::Fail("builder refuses representable field values".into());
            }
        }
    }
    Outcome { impl_line: line, oracle }
}

fn run_ip4s(t: &[&str]) -> Outcome {
    let p = |i: usize| -> u64 { t[i].parse().unwrap() };
    let h = Ipv4Header {
        ihl: p(1) as u8,
        type_of_service: TypeOfService::from(p(2) as u8),
        total_length: p(3) as u16,
        identification: p(4) as u16,
        fragment_offset: p(5) as u16,
        flags: ControlFlags::from(p(6) as u8),
        time_to_live: p(7) as u8,
        protocol: p(8) as u8,
        checksum: p(9) as u16,
        source: addr(p(10) as u32),
        destination: addr(p(11) as u32),
    };
    let r = guard(|| h.serialize());
    let mut oracle = Oracle::Ok;
    let typed = p(2) & 3 == 0 && p(6) < 4 && p(5) <= 8191 && p(3) >= 20;
    match &r {
        Some(Ok(v)) if typed => {
            stat("ip4s_ok_typed");
            match ep_ip_bytes(p(2) as u8, (p(3) - 20) as u16, p(4) as u16, p(5) as u16, p(6) as u8, p(7) as u8, p(8) as u8, p(10) as u32, p(11) as u32) {
                Some(e) => {
                    let corner = CK && e[10] == 0 && e[11] == 0 && v[10] == 0xff && v[11] == 0xff;
                    if &e != v && !corner {
                        oracle = Oracle::Fail(format!("ipv4 serialize differs from etherparse: {} vs {}", hex(v), hex(&e)));
                    }
                }
                None => oracle = Oracle::Fail("etherparse refuses the field values".into()),
            }
            // decode(encode h) gives h back (ihl 5, own checksum)
            match ip_decode(v) {
                Some(Ok(d)) => {
                    let want = format!("5 {} {} {} {} {} {} {} {} {} {}", p(2), p(3), p(4), p(5), p(6), p(7), p(8), d.checksum, p(10), p(11));
                    if ip_fields(&d) != want {
                        oracle = Oracle::Fail(format!("ipv4 decode(serialize h) != h: {} vs {}", ip_fields(&d), want));
                    }
                }
                _ => oracle = Oracle::Fail("decoder rejects a serialized header".into()),
            }
        }
        Some(Ok(_)) => stat("ip4s_ok_untyped"),
        Some(Err(_)) => {
            stat("ip4s_err");
            if typed {
                oracle = Oracle::Fail("serialize refuses representable field values".into());
            }
        }
        None => stat("ip4s_panic_totlen_lt_20"), // only reachable with total_length < 20; judged on the decode side
    }
    Outcome { impl_line: ser_line(r), oracle }
}

/// the decode-side oracle shared by `ip4d` and `flip`: returns a failure message
fn ip_decode_oracle(bs: &[u8], h: &Option<Ipv4Header>, re: &Option<Vec<u8>>, line: &str) -> Option<String> {
    match h {
        Some(h) => {
            // second clause of C08: re-encoding reproduces the consumed bytes
            match re {
                Some(v) if v[..] == bs[..20] => {}
                // compute_checksum build only (outside C08's default build): the received 0x0000 of a
                // header whose other words sum to 0xffff is re-emitted as the equivalent 0xffff
                Some(v) if CK && bs[10] == 0 && bs[11] == 0 && v[10] == 0xff && v[11] == 0xff && v[..10] == bs[..10] && v[12..] == bs[12..20] => {
                    stat("ip4d_reencode_zero_as_ffff")
                }
                Some(v) => return Some(format!("ipv4 re-encode mismatch: {} -> {}", hex(&bs[..20]), hex(v))),
                None => return Some(format!("ipv4 re-encode of an accepted header fails ({}): total_length {} < 20", line, h.total_length)),
            }
            // the independent decoder reads the same fields
            match ep_ip_fields(bs) {
                Ok(f) if f == ip_fields(h) => {}
                other => return Some(format!("etherparse disagrees on an accepted header: {:?} vs {}", other, ip_fields(h))),
            }
            // C18: an accepted header verifies under RFC 1071
            if CK && !verifies(word_sum(&bs[..20])) {
                return Some("accepted ipv4 header does not verify under RFC 1071".into());
            }
            None
        }
        None => {
            if ip_reference_valid(bs) {
                return Some(format!("decoder rejects a conforming header ({}): {}", line, hex(&bs[..20])));
            }
            None
        }
    }
}

fn run_ip4d(t: &[&str]) -> Outcome {
    let bs = parse_p(t[1]);
    let (line, h, re) = ip_decode_line(&bs);
    stat(&format!("ip4d_{}", err_kind(&line)));
    let oracle = if line == "PANIC" {
        Oracle::Fail("ipv4 decoder panicked".into())
    } else {
        match ip_decode_oracle(&bs, &h, &re, &line) {
            Some(m) => Oracle::Fail(m),
            None => Oracle::Ok,
        }
    };
    Outcome { impl_line: line, oracle }
}

fn run_ip4c(t: &[&str]) -> Outcome {
    let (m, l) = (t[1] == "1", t[2] == "1");
    let f = ControlFlags::new(m, l);
    let oracle = if f.may_fragment() == m && f.is_last_fragment() == l && f.as_u8() == ((!m as u8) << 1 | (!l as u8)) {
        Oracle::Ok
    } else {
        Oracle::Fail("ControlFlags accessors".into())
    };
    Outcome { impl_line: format!("{} {} {}", f.as_u8(), f.may_fragment() as u8, f.is_last_fragment() as u8), oracle }
}
fn run_ip4t(t: &[&str]) -> Outcome {
    let p = |i: usize| -> u8 { t[i].parse().unwrap() };
    let prec: Precedence = p(1).try_into().unwrap();
    let d: Delay = p(2).try_into().unwrap();
    let th: Throughput = p(3).try_into().unwrap();
    let r: Reliability = p(4).try_into().unwrap();
    let tos = TypeOfService::new(prec, d, th, r);
    let ok = tos.precedence() == prec && tos.delay() == d && tos.throughput() == th && tos.reliability() == r && tos.as_u8() & 3 == 0;
    Outcome {
        impl_line: format!("{}", tos.as_u8()),
        oracle: if ok { Oracle::Ok } else { Oracle::Fail("TypeOfService accessors".into()) },
    }
}

// ------------------------------------------------------------------ UDP

fn udp_err(e: UdpErr) -> String {
    match e {
        UdpErr::HeaderTooShort => "ERR 1".into(),
        UdpErr::LengthMismatch => "ERR 2".into(),
        UdpErr::Checksum { actual, expected } => format!("ERR ck {} {}", expected, actual),
    }
}
/// `OK <hex8>` | `ERR 21` | `PANIC`
fn udp_build_line(sa: u32, sp: u16, da: u32, dp: u16, text: &[u8], tlen: usize) -> (String, Option<Vec<u8>>) {
    match guard(|| build_udp_header(addr(sa), sp, addr(da), dp, text.iter().cloned(), tlen)) {
        None => ("PANIC".into(), None),
        Some(Ok(v)) => (format!("OK {}", hex(&v)), Some(v)),
        Some(Err(_)) => ("ERR 21".into(), None),
    }
}
pub fn udp_decode(bs: &[u8], plen: usize, sa: u32, da: u32) -> Option<Result<UdpHeader, UdpErr>> {
    guard(|| UdpHeader::from_bytes_ipv4(bs.iter().cloned(), plen, addr(sa), addr(da)))
}
fn udp_fields(h: &UdpHeader) -> String {
    format!("{} {} {} {}", h.source, h.destination, h.length, h.checksum)
}
/// `OK sp dp len ck RE <build line | NA>` | `ERR ..` | `PANIC`
pub fn udp_decode_line(bs: &[u8], plen: usize, sa: u32, da: u32) -> (String, Option<UdpHeader>, Option<Vec<u8>>) {
    match udp_decode(bs, plen, sa, da) {
        None => ("PANIC".into(), None, None),
        Some(Err(e)) => (udp_err(e), None, None),
        Some(Ok(h)) => {
            // the encoder of this codec takes the payload, not a header value: rebuild from the
            // decoded ports, the bytes after the header and the decoded length
            let (re, reb) = if h.length >= 8 {
                udp_build_line(sa, h.source, da, h.destination, &bs[8..], h.length as usize - 8)
            } else {
                ("NA".to_string(), None)
            };
            (format!("OK {} RE {}", udp_fields(&h), re), Some(h), reb)
        }
    }
}
/// conforming UDP checksum (RFC 768: a computed zero is sent as all ones)
pub fn udp_ref_cksum(sa: u32, da: u32, seg_zeroed: &[u8]) -> u16 {
    let len = u16::from_be_bytes([seg_zeroed[4], seg_zeroed[5]]);
    let c = !oc_fold(word_sum(&pseudo(sa, da, 17, len)) + word_sum(seg_zeroed));
    if c == 0 {
        0xffff
    } else {
        c
    }
}
fn udp_reference_valid(bs: &[u8], plen: usize, sa: u32, da: u32) -> bool {
    if bs.len() < 8 || plen != bs.len() || bs.len() > 65535 {
        return false;
    }
    let len = u16::from_be_bytes([bs[4], bs[5]]) as usize;
    if len != bs.len() {
        return false;
    }
    let field = u16::from_be_bytes([bs[6], bs[7]]);
    if CK {
        let mut z = bs.to_vec();
        z[6] = 0;
        z[7] = 0;
        let ours = udp_ref_cksum(sa, da, &z);
        // cross-check the reference arithmetic with etherparse
        let eh = etherparse::UdpHeader { source_port: u16::from_be_bytes([bs[0], bs[1]]), destination_port: u16::from_be_bytes([bs[2], bs[3]]), length: len as u16, checksum: 0 };
        if bs.len() - 8 <= 65527 {
            if let Ok(e) = eh.calc_checksum_ipv4_raw(sa.to_be_bytes(), da.to_be_bytes(), &bs[8..]) {
                assert_eq!(e, ours, "reference checksum arithmetic disagrees with etherparse");
            }
        }
        field == ours
    } else {
        field == 0
    }
}

fn run_udpb(t: &[&str]) -> Outcome {
    let p = |i: usize| -> u64 { t[i].parse().unwrap() };
    let (sa, sp, da, dp) = (p(1) as u32, p(2) as u16, p(3) as u32, p(4) as u16);
    let text = parse_p(t[5]);
    let tlen = p(6) as usize;
    let (line, v) = udp_build_line(sa, sp, da, dp, &text, tlen);
    let mut oracle = Oracle::Ok;
    let honest = tlen == text.len();
    stat(&format!("udpb_{}", &line[..2]));
    if honest {
        stat(size_bucket("udpb_payload", text.len()));
        match &v {
            Some(v) => {
                // independent encoder
                let e = if CK {
                    let iph = etherparse::Ipv4Header::new(0, 30, etherparse::IpNumber::Udp, sa.to_be_bytes(), da.to_be_bytes());
                    etherparse::UdpHeader::with_ipv4_checksum(sp, dp, &iph, &text)
                } else {
                    etherparse::UdpHeader::without_ipv4_checksum(sp, dp, text.len())
                };
                match e {
                    Ok(e) => {
                        let mut eb = vec![];
                        e.write(&mut eb).unwrap();
                        if &eb != v {
                            oracle = Oracle::Fail(format!("udp encoding differs from etherparse: {} vs {}", hex(v), hex(&eb)));
                        }
                    }
                    Err(_) => oracle = Oracle::Fail("etherparse refuses a payload the builder accepts".into()),
                }
                let mut pkt = v.clone();
                pkt.extend_from_slice(&text);
                if CK && !verifies(word_sum(&pseudo(sa, da, 17, pkt.len() as u16)) + word_sum(&pkt)) {
                    oracle = Oracle::Fail("emitted udp datagram does not verify".into());
                }
                if CK && v[6] == 0 && v[7] == 0 {
                    oracle = Oracle::Fail("udp checksum emitted as 0x0000 (means: no checksum)".into());
                }
                // decode(encode h ++ payload) = h ; etherparse extracts the same fields
                match udp_decode(&pkt, pkt.len(), sa, da) {
                    Some(Ok(h)) => {
                        let want = format!("{} {} {} {}", sp, dp, pkt.len(), u16::from_be_bytes([v[6], v[7]]));
                        if udp_fields(&h) != want {
                            oracle = Oracle::Fail(format!("udp decode(encode) mismatch: {} vs {}", udp_fields(&h), want));
                        }
                        let (eh, _) = etherparse::UdpHeader::from_slice(&pkt).unwrap();
                        if format!("{} {} {} {}", eh.source_port, eh.destination_port, eh.length, eh.checksum) != want {
                            oracle = Oracle::Fail("etherparse reads other fields from the emitted udp header".into());
                        }
                    }
                    _ => oracle = Oracle::Fail("udp decoder rejects what its encoder produced".into()),
                }
            }
            None => {
                if text.len() + 8 <= 65535 {
                    oracle = Oracle::Fail(format!("udp builder fails on a representable payload: {}", line));
                }
            }
        }
    } else {
        stat("udpb_dishonest_tlen");
    }
    Outcome { impl_line: line, oracle }
}

fn udp_decode_oracle(bs: &[u8], plen: usize, sa: u32, da: u32, h: &Option<UdpHeader>, re: &Option<Vec<u8>>, line: &str) -> Option<String> {
    match h {
        Some(h) => {
            if plen == bs.len() {
                match re {
                    Some(v) if v[..] == bs[..8] => {}
                    other => return Some(format!("udp re-encode mismatch: {} -> {:?}", hex(&bs[..8]), other.as_ref().map(|v| hex(v)))),
                }
            }
            let (eh, _) = etherparse::UdpHeader::from_slice(bs).unwrap();
            if format!("{} {} {} {}", eh.source_port, eh.destination_port, eh.length, eh.checksum) != udp_fields(h) {
                return Some("etherparse disagrees on an accepted udp header".into());
            }
            if CK && plen == bs.len() && !verifies(word_sum(&pseudo(sa, da, 17, h.length)) + word_sum(bs)) {
                return Some("accepted udp datagram does not verify under RFC 1071".into());
            }
            None
        }
        None => {
            if udp_reference_valid(bs, plen, sa, da) {
                return Some(format!("udp decoder rejects a conforming datagram ({})", line));
            }
            None
        }
    }
}

fn run_udpd(t: &[&str]) -> Outcome {
    let p = |i: usize| -> u64 { t[i].parse().unwrap() };
    let (sa, da, plen) = (p(1) as u32, p(2) as u32, p(3) as usize);
    let bs = parse_p(t[4]);
    let (line, h, re) = udp_decode_line(&bs, plen, sa, da);
    stat(&format!("udpd_{}", err_kind(&line)));
    stat(size_bucket("udpd_len", bs.len()));
    let oracle = if line == "PANIC" {
        Oracle::Fail("udp decoder panicked".into())
    } else {
        match udp_decode_oracle(&bs, plen, sa, da, &h, &re, &line) {
            Some(m) => Oracle::Fail(m),
            None => Oracle::Ok,
        }
    };
    Outcome { impl_line: line, oracle }
}

// ------------------------------------------------------------------ TCP

fn tcp_err(e: TcpErr) -> String {
    match e {
        TcpErr::HeaderTooShort => "ERR 1".into(),
        TcpErr::PacketTooLong => "ERR 2".into(),
        TcpErr::UnexpectedOptions => "ERR 3".into(),
        TcpErr::Checksum { actual, expected } => format!("ERR ck {} {}", expected, actual),
    }
}
fn tcp_fields(h: &TcpHeader) -> String {
    format!("{} {} {} {} {} {} {} {} {}", h.src_port, h.dst_port, h.seq, h.ack, h.data_offset, u8::from(h.ctl), h.wnd, h.urg, h.checksum)
}
pub fn tcp_decode(bs: &[u8], plen: usize, sa: u32, da: u32) -> Option<Result<TcpHeader, TcpErr>> {
    guard(|| TcpHeader::from_bytes(bs.iter().cloned(), plen, addr(sa), addr(da)))
}
/// `OK <9 fields> RE <hex20>` | `ERR ..` | `PANIC`
pub fn tcp_decode_line(bs: &[u8], plen: usize, sa: u32, da: u32) -> (String, Option<TcpHeader>, Option<Vec<u8>>) {
    match tcp_decode(bs, plen, sa, da) {
        None => ("PANIC".into(), None, None),
        Some(Err(e)) => (tcp_err(e), None, None),
        Some(Ok(h)) => {
            let re = guard(|| h.serialize());
            let s = match &re {
                Some(v) => hex(v),
                None => "PANIC".into(),
            };
            (format!("OK {} RE {}", tcp_fields(&h), s), Some(h), re)
        }
    }
}
/// run the builder calls `w<n> a<n> p r s f u<n>` in the given order
fn tcp_builder(sp: u16, dp: u16, seq: u32, calls: &[&str]) -> TcpHeaderBuilder {
    let mut b = TcpHeaderBuilder::new(sp, dp, seq);
    for c in calls {
        let (k, v) = c.split_at(1);
        b = match k {
            "w" => b.wnd(v.parse().unwrap()),
            "a" => b.ack(v.parse().unwrap()),
            "p" => b.psh(),
            "r" => b.rst(),
            "s" => b.syn(),
            "f" => b.fin(),
            "u" => b.urg(v.parse().unwrap()),
            _ => panic!("bad builder call"),
        };
    }
    b
}
/// what the calls mean, computed independently: (ack, ctl, wnd, urg)
fn tcp_calls_meaning(calls: &[&str]) -> (u32, u8, u16, u16) {
    let (mut ack, mut ctl, mut wnd, mut urg) = (0u32, 0u8, 0u16, 0u16);
    for c in calls {
        let (k, v) = c.split_at(1);
        match k {
            "w" => wnd = v.parse().unwrap(),
            "a" => {
                ack = v.parse().unwrap();
                ctl |= 16
            }
            "p" => ctl |= 8,
            "r" => ctl |= 4,
            "s" => ctl |= 2,
            "f" => ctl |= 1,
            "u" => {
                urg = v.parse().unwrap();
                ctl |= 32
            }
            _ => {}
        }
    }
    (ack, ctl, wnd, urg)
}
#[allow(clippy::too_many_arguments)]
fn ep_tcp(sp: u16, dp: u16, seq: u32, ack: u32, ctl: u8, wnd: u16, urg: u16, ck: u16) -> etherparse::TcpHeader {
    let mut e = etherparse::TcpHeader::new(sp, dp, seq, wnd);
    e.acknowledgment_number = ack;
    e.urgent_pointer = urg;
    e.fin = ctl & 1 != 0;
    e.syn = ctl & 2 != 0;
    e.rst = ctl & 4 != 0;
    e.psh = ctl & 8 != 0;
    e.ack = ctl & 16 != 0;
    e.urg = ctl & 32 != 0;
    e.checksum = ck;
    e
}
fn ep_tcp_fields(bs: &[u8]) -> Result<String, String> {
    let (h, _) = etherparse::TcpHeader::from_slice(bs).map_err(|e| format!("{:?}", e))?;
    let ctl = h.fin as u8 | (h.syn as u8) << 1 | (h.rst as u8) << 2 | (h.psh as u8) << 3 | (h.ack as u8) << 4 | (h.urg as u8) << 5;
    Ok(format!(
        "{} {} {} {} {} {} {} {} {}",
        h.source_port, h.destination_port, h.sequence_number, h.acknowledgment_number, h.data_offset(), ctl, h.window_size, h.urgent_pointer, h.checksum
    ))
}
pub fn tcp_ref_cksum(sa: u32, da: u32, seg_zeroed: &[u8]) -> u16 {
    !oc_fold(word_sum(&pseudo(sa, da, 6, seg_zeroed.len() as u16)) + word_sum(seg_zeroed))
}
fn tcp_reference_valid(bs: &[u8], plen: usize, sa: u32, da: u32) -> bool {
    if bs.len() < 20 || plen != bs.len() || bs.len() > 65535 || bs[12] != 0x50 || bs[13] & 0xc0 != 0 {
        return false;
    }
    let field = u16::from_be_bytes([bs[16], bs[17]]);
    if CK {
        let mut z = bs.to_vec();
        z[16] = 0;
        z[17] = 0;
        let ours = tcp_ref_cksum(sa, da, &z);
        let (eh, rest) = etherparse::TcpHeader::from_slice(&z).unwrap();
        if let Ok(e) = eh.calc_checksum_ipv4_raw(sa.to_be_bytes(), da.to_be_bytes(), rest) {
            assert_eq!(e, ours, "reference checksum arithmetic disagrees with etherparse");
        }
        field == ours
    } else {
        field == 0
    }
}

fn run_tcpb(t: &[&str]) -> Outcome {
    let p = |i: usize| -> u64 { t[i].parse().unwrap() };
    let (sp, dp, seq, sa, da) = (p(1) as u16, p(2) as u16, p(3) as u32, p(4) as u32, p(5) as u32);
    let text = parse_p(t[6]);
    let tlen = p(7) as usize;
    let calls = &t[8..];
    let r = guard(|| tcp_builder(sp, dp, seq, calls).build(addr(sa), addr(da), text.iter().cloned(), tlen));
    let mut oracle = Oracle::Ok;
    let honest = tlen == text.len();
    let line = match &r {
        None => "PANIC".to_string(),
        Some(Err(_)) => "ERR 21".to_string(),
        Some(Ok(h)) => format!("OK {} SER {}", tcp_fields(h), hex(&h.serialize())),
    };
    stat(&format!("tcpb_{}", &line[..2]));
    if honest {
        stat(size_bucket("tcpb_payload", text.len()));
        match &r {
            Some(Ok(h)) => {
                let (ack, ctl, wnd, urg) = tcp_calls_meaning(calls);
                stat(&format!("tcpb_ctl_{:02}", ctl));
                let v = h.serialize();
                // the independent encoder, with its own checksum
                let mut e = ep_tcp(sp, dp, seq, ack, ctl, wnd, urg, 0);
                if CK {
                    e.checksum = e.calc_checksum_ipv4_raw(sa.to_be_bytes(), da.to_be_bytes(), &text).unwrap();
                }
                let mut eb = vec![];
                e.write(&mut eb).unwrap();
                let corner = CK && eb[16] == 0 && eb[17] == 0 && v[16] == 0xff && v[17] == 0xff && eb[..16] == v[..16] && eb[18..] == v[18..];
                if eb != v && !corner {
                    oracle = Oracle::Fail(format!("tcp encoding differs from etherparse: {} vs {}", hex(&v), hex(&eb)));
                }
                if corner {
                    stat("tcpb_ffff_corner");
                }
                let mut pkt = v.clone();
                pkt.extend_from_slice(&text);
                if CK && !verifies(word_sum(&pseudo(sa, da, 6, pkt.len() as u16)) + word_sum(&pkt)) {
                    oracle = Oracle::Fail("emitted tcp segment does not verify".into());
                }
                match tcp_decode(&pkt, pkt.len(), sa, da) {
                    Some(Ok(d)) => {
                        if d != *h {
                            oracle = Oracle::Fail(format!("tcp decode(encode h) != h: {} vs {}", tcp_fields(&d), tcp_fields(h)));
                        }
                        match ep_tcp_fields(&pkt) {
                            Ok(f) if f == tcp_fields(h) => {}
                            other => oracle = Oracle::Fail(format!("etherparse reads other fields from the emitted tcp header: {:?}", other)),
                        }
                    }
                    _ => oracle = Oracle::Fail("tcp decoder rejects what its encoder produced".into()),
                }
            }
            _ => {
                if text.len() + 20 <= 65535 {
                    oracle = Oracle::Fail(format!("tcp builder fails on a representable payload: {}", line));
                }
            }
        }
    } else {
        stat("tcpb_dishonest_tlen");
    }
    Outcome { impl_line: line, oracle }
}

fn run_tcps(t: &[&str]) -> Outcome {
    let p = |i: usize| -> u64 { t[i].parse().unwrap() };
    let h = TcpHeader {
        src_port: p(1) as u16,
        dst_port: p(2) as u16,
        seq: p(3) as u32,
        ack: p(4) as u32,
        data_offset: p(5) as u8,
        ctl: Control::from(p(6) as u8),
        wnd: p(7) as u16,
        urg: p(8) as u16,
        checksum: p(9) as u16,
    };
    let r = guard(|| h.serialize());
    let mut oracle = Oracle::Ok;
    let line = match &r {
        None => {
            oracle = Oracle::Fail("tcp serialize panicked".into());
            "PANIC".to_string()
        }
        Some(v) => {
            if p(5) == 5 && p(6) < 64 {
                stat("tcps_typed");
                let e = ep_tcp(p(1) as u16, p(2) as u16, p(3) as u32, p(4) as u32, p(6) as u8, p(7) as u16, p(8) as u16, p(9) as u16);
                let mut eb = vec![];
                e.write(&mut eb).unwrap();
                if &eb != v {
                    oracle = Oracle::Fail(format!("tcp serialize differs from etherparse: {} vs {}", hex(v), hex(&eb)));
                }
            } else {
                stat("tcps_untyped");
            }
            format!("OK {}", hex(v))
        }
    };
    Outcome { impl_line: line, oracle }
}

enum DecVerdict {
    Ok,
    Fail(String),
    Known(String),
}
fn tcp_decode_oracle(bs: &[u8], plen: usize, sa: u32, da: u32, h: &Option<TcpHeader>, re: &Option<Vec<u8>>, line: &str) -> DecVerdict {
    match h {
        Some(h) => {
            match ep_tcp_fields(bs) {
                Ok(f) if f == tcp_fields(h) => {}
                other => return DecVerdict::Fail(format!("etherparse disagrees on an accepted tcp header: {:?} vs {}", other, tcp_fields(h))),
            }
            if CK && plen == bs.len() && !verifies(word_sum(&pseudo(sa, da, 6, plen as u16)) + word_sum(bs)) {
                return DecVerdict::Fail("accepted tcp segment does not verify under RFC 1071".into());
            }
            match re {
                Some(v) if v[..] == bs[..20] => DecVerdict::Ok,
                Some(v) => {
                    let reserved = bs[12] & 0x0f != 0 || bs[13] & 0xc0 != 0;
                    // with the reserved bits cleared the string must be reproduced exactly
                    let mut want = bs[..20].to_vec();
                    want[12] &= 0xf0;
                    want[13] &= 0x3f;
                    if reserved && v[..] == want[..] && CK {
                        // the re-encoding clause belongs to C08 (default build); C18 does not claim it
                        stat("tcpd_reserved_bits_dropped");
                        DecVerdict::Ok
                    } else if reserved && v[..] == want[..] {
                        DecVerdict::Known(format!("tcp re-encode drops reserved bits: {} -> {}", hex(&bs[..20]), hex(v)))
                    } else {
                        DecVerdict::Fail(format!("tcp re-encode mismatch: {} -> {}", hex(&bs[..20]), hex(v)))
                    }
                }
                None => DecVerdict::Fail("tcp re-encode panicked".into()),
            }
        }
        None => {
            if tcp_reference_valid(bs, plen, sa, da) {
                return DecVerdict::Fail(format!("tcp decoder rejects a conforming segment ({})", line));
            }
            DecVerdict::Ok
        }
    }
}

fn run_tcpd(t: &[&str]) -> Outcome {
    let p = |i: usize| -> u64 { t[i].parse().unwrap() };
    let (sa, da, plen) = (p(1) as u32, p(2) as u32, p(3) as usize);
    let bs = parse_p(t[4]);
    let (line, h, re) = tcp_decode_line(&bs, plen, sa, da);
    stat(&format!("tcpd_{}", err_kind(&line)));
    stat(size_bucket("tcpd_len", bs.len()));
    if let Some(h) = &h {
        stat(&format!("tcpd_ctl_{:02}", u8::from(h.ctl)));
    }
    let oracle = if line == "PANIC" {
        Oracle::Fail("tcp decoder panicked".into())
    } else {
        match tcp_decode_oracle(&bs, plen, sa, da, &h, &re, &line) {
            DecVerdict::Ok => Oracle::Ok,
            DecVerdict::Fail(m) => Oracle::Fail(m),
            DecVerdict::Known(m) => {
                stat("tcpd_known_reserved_bits");
                Oracle::Known("tcp-reserved-bits".into(), m)
            }
        }
    };
    Outcome { impl_line: line, oracle }
}

fn run_ctln(t: &[&str]) -> Outcome {
    let b = |i: usize| t[i] == "1";
    let c = Control::new(b(1), b(2), b(3), b(4), b(5), b(6));
    let got = [c.urg(), c.ack(), c.psh(), c.rst(), c.syn(), c.fin()];
    let want = [b(1), b(2), b(3), b(4), b(5), b(6)];
    let v = u8::from(c);
    let wv = (b(1) as u8) << 5 | (b(2) as u8) << 4 | (b(3) as u8) << 3 | (b(4) as u8) << 2 | (b(5) as u8) << 1 | b(6) as u8;
    Outcome {
        impl_line: format!("{} {}", v, got.iter().map(|x| (*x as u8).to_string()).collect::<Vec<_>>().join(" ")),
        oracle: if got == want && v == wv { Oracle::Ok } else { Oracle::Fail("Control::new / getters".into()) },
    }
}
fn run_ctls(t: &[&str]) -> Outcome {
    let v: u8 = t[1].parse().unwrap();
    let bit: u8 = t[2].parse().unwrap();
    let st = t[3] == "1";
    let mut c = Control::from(v);
    match bit {
        0 => c.set_fin(st),
        1 => c.set_syn(st),
        2 => c.set_rst(st),
        3 => c.set_psh(st),
        4 => c.set_ack(st),
        _ => c.set_urg(st),
    }
    let bit = bit.min(5);
    let want = (v & !(1 << bit)) | ((st as u8) << bit);
    let got = [c.urg(), c.ack(), c.psh(), c.rst(), c.syn(), c.fin()];
    Outcome {
        impl_line: format!("{} {}", u8::from(c), got.iter().map(|x| (*x as u8).to_string()).collect::<Vec<_>>().join(" ")),
        oracle: if u8::from(c) == want { Oracle::Ok } else { Oracle::Fail("Control::set_bit".into()) },
    }
}

// ------------------------------------------------------------------ Checksum accumulator

fn run_cks(t: &[&str]) -> Outcome {
    let mut c = VerifChecksum::new();
    let mut sum = 0u64; // independent: plain sum of everything added
    for op in &t[1..] {
        let (k, v) = op.split_at(1);
        match k {
            "w" => {
                let x = u16::from_str_radix(v, 16).unwrap();
                c.add_u16(x);
                sum += x as u64;
            }
            "b" => {
                let x = u16::from_str_radix(v, 16).unwrap();
                c.add_u8((x >> 8) as u8, x as u8);
                sum += x as u64;
            }
            "d" => {
                let x = u32::from_str_radix(v, 16).unwrap();
                c.add_u32(x.to_be_bytes());
                sum += (x >> 16) as u64 + (x & 0xffff) as u64;
            }
            "r" => {
                let bs = parse_p(v);
                c.accumulate_remainder(bs.iter().cloned());
                sum += word_sum(&bs);
                stat(size_bucket("cks_rem", bs.len()));
            }
            _ => panic!("bad cks op"),
        }
    }
    let out = c.as_u16();
    let state = format!("{:?}", c); // "Checksum(n)"
    let state = state.trim_start_matches("Checksum(").trim_end_matches(')').to_string();
    let oracle = if CK {
        let fold = oc_fold(sum);
        stat(match fold {
            0 => "cks_sum_0000",
            0xffff => "cks_sum_ffff",
            _ => "cks_sum_other",
        });
        // the accumulator is the one's-complement sum; the result is its complement (0xffff for a complement of 0)
        let want = if !fold == 0 { 0xffff } else { !fold };
        if state != fold.to_string() || out != want {
            Oracle::Fail(format!("checksum accumulator: state {} result {:#06x}, reference sum {:#06x}", state, out, fold))
        } else if !verifies(sum + out as u64) {
            Oracle::Fail("sum plus emitted checksum is not all ones".into())
        } else {
            Oracle::Ok
        }
    } else if out != 0 || state != "0" {
        Oracle::Fail("checksum not constant 0 in the default build".into())
    } else {
        Oracle::Ok
    };
    Outcome { impl_line: format!("{} {}", state, out), oracle }
}

// ------------------------------------------------------------------ corruption

fn flip(bs: &mut [u8], i: usize) {
    bs[i / 8] ^= 0x80 >> (i % 8);
}

/// `flip n i [j] <decode case>` -> "<line of the intact packet> | <line of the corrupted packet>"
fn run_flip(t: &[&str]) -> Outcome {
    let n: usize = t[1].parse().unwrap();
    let pos: Vec<usize> = t[2..2 + n].iter().map(|x| x.parse().unwrap()).collect();
    let inner = &t[2 + n..];
    let p = |i: usize| -> u64 { inner[i].parse().unwrap() };
    let kind = inner[0];
    let (bs, sa, da, plen) = match kind {
        "ip4d" => (parse_p(inner[1]), 0u32, 0u32, 0usize),
        _ => (parse_p(inner[4]), p(1) as u32, p(2) as u32, p(3) as usize),
    };
    let mut cs = bs.clone();
    for &i in &pos {
        if i / 8 < cs.len() {
            flip(&mut cs, i);
        }
    }
    let dec = |b: &[u8]| -> (String, bool) {
        match kind {
            "ip4d" => {
                let (l, h, _) = ip_decode_line(b);
                (l, h.is_some())
            }
            "udpd" => {
                let (l, h, _) = udp_decode_line(b, plen, sa, da);
                (l, h.is_some())
            }
            _ => {
                let (l, h, _) = tcp_decode_line(b, plen, sa, da);
                (l, h.is_some())
            }
        }
    };
    let (l0, ok0) = dec(&bs);
    let (l1, ok1) = dec(&cs);
    // the sum the checksum covers (pseudo header included), before and after
    let covered = |b: &[u8]| -> u64 {
        match kind {
            "ip4d" => word_sum(&b[..20.min(b.len())]),
            "udpd" => word_sum(&pseudo(sa, da, 17, if b.len() >= 6 { u16::from_be_bytes([b[4], b[5]]) } else { 0 })) + word_sum(b),
            _ => word_sum(&pseudo(sa, da, 6, plen as u16)) + word_sum(b),
        }
    };
    let in_cover = match kind {
        "ip4d" => pos.iter().all(|&i| i / 8 < 20),
        _ => pos.iter().all(|&i| i / 8 < bs.len()),
    };
    let changed = cs != bs;
    let detectable = changed && covered(&bs) % 65535 != covered(&cs) % 65535;
    stat(&format!("flip{}_{}_{}", n, kind, if !ok0 { "orig_rejected" } else if ok1 { "accepted" } else { "rejected" }));
    let mut oracle = Oracle::Ok;
    if l0 == "PANIC" || l1 == "PANIC" {
        oracle = Oracle::Fail("decoder panicked".into());
    } else if CK && ok0 && in_cover && changed {
        if pos.len() == 1 && !detectable {
            oracle = Oracle::Fail("harness arithmetic: a single-bit flip left the sum unchanged".into());
        }
        if detectable && ok1 {
            oracle = Oracle::Fail(format!("detectable corruption (bits {:?}) accepted: {}", pos, l1));
        }
        stat(if detectable { "flip_detectable" } else { "flip_compensating" });
    }
    Outcome { impl_line: format!("{} | {}", l0, l1), oracle }
}

// ------------------------------------------------------------------ helpers for stats

fn err_kind(line: &str) -> String {
    let mut it = line.split(' ');
    match it.next() {
        Some("OK") => "ok".into(),
        Some("ERR") => format!("err_{}", it.next().unwrap_or("")),
        Some(x) => x.to_lowercase(),
        None => "empty".into(),
    }
}
fn size_bucket(prefix: &str, n: usize) -> &'static str {
    // leaked strings: a handful of distinct keys
    let b = match n {
        0 => "0",
        1..=3 => "1-3",
        4..=64 => "4-64",
        65..=1500 => "65-1500",
        1501..=65000 => "1501-65000",
        _ => "65001+",
    };
    let odd = if n % 2 == 1 { "odd" } else { "even" };
    Box::leak(format!("{}_{}_{}", prefix, b, odd).into_boxed_str())
}

pub fn run_case(case: &str) -> Outcome {
    let t: Vec<&str> = case.split_whitespace().collect();
    stat(&format!("op_{}", t[0]));
    match t[0] {
        "ip4b" => run_ip4b(&t),
        "ip4s" => run_ip4s(&t),
        "ip4d" => run_ip4d(&t),
        "ip4c" => run_ip4c(&t),
        "ip4t" => run_ip4t(&t),
        "udpb" => run_udpb(&t),
        "udpd" => run_udpd(&t),
        "tcpb" => run_tcpb(&t),
        "tcps" => run_tcps(&t),
        "tcpd" => run_tcpd(&t),
        "ctln" => run_ctln(&t),
        "ctls" => run_ctls(&t),
        "cks" => run_cks(&t),
        "flip" => run_flip(&t),
        _ => panic!("unknown op {}", t[0]),
    }
}

// ================================================================== generators

const E16: [u16; 10] = [0, 1, 2, 0xff, 0x100, 0x7fff, 0x8000, 0xfffe, 0xffff, 0x00ff];
const E32: [u32; 9] = [0, 1, 0xffff, 0x1_0000, 0x7fff_ffff, 0x8000_0000, 0xffff_fffe, 0xffff_ffff, 0xffff_0000];
const E8: [u8; 7] = [0, 1, 6, 17, 0x7f, 0x80, 0xff];

pub fn v16(r: &mut Rng) -> u16 {
    if r.coin(1, 3) {
        *r.pick(&E16)
    } else {
        r.next_u64() as u16
    }
}
pub fn v32(r: &mut Rng) -> u32 {
    if r.coin(1, 3) {
        *r.pick(&E32)
    } else {
        r.u32()
    }
}
pub fn v8(r: &mut Rng) -> u8 {
    if r.coin(1, 3) {
        *r.pick(&E8)
    } else {
        r.next_u64() as u8
    }
}
/// a payload token and its bytes; `max` is the largest length that still fits the 16-bit field
pub fn payload(r: &mut Rng, max: usize, big_permille: u64) -> (String, Vec<u8>) {
    let len = if r.below(1000) < big_permille {
        *r.pick(&[max, max - 1, max - 2, 1459, 1460, 1461, 4096, 32767, 32768, max / 2])
    } else {
        match r.below(6) {
            0 => 0,
            1 => r.range(1, 3) as usize,
            2 => r.range(4, 9) as usize,
            _ => r.range(0, 48) as usize,
        }
    };
    if len > 64 {
        let seed = r.below(1 << 31);
        (format!("g{}:{}", len, seed), gen_bytes(len, seed))
    } else {
        let b = match r.below(8) {
            0 => vec![0u8; len],
            1 => vec![0xffu8; len],
            _ => r.bytes(len),
        };
        (hex(&b), b)
    }
}
fn tos_typed(r: &mut Rng) -> u8 {
    ((r.below(8) as u8) << 5) | ((r.below(8) as u8) << 2)
}

/// the 20 bytes of an IPv4 header assembled by plain arithmetic (independent of the stack),
/// checksum: `ckv`
#[allow(clippy::too_many_arguments)]
pub fn raw_ip(vi: u8, tos: u8, tl: u16, id: u16, ff: u16, ttl: u8, proto: u8, ckv: u16, sa: u32, da: u32) -> Vec<u8> {
    let mut v = vec![vi, tos];
    v.extend_from_slice(&tl.to_be_bytes());
    v.extend_from_slice(&id.to_be_bytes());
    v.extend_from_slice(&ff.to_be_bytes());
    v.push(ttl);
    v.push(proto);
    v.extend_from_slice(&ckv.to_be_bytes());
    v.extend_from_slice(&sa.to_be_bytes());
    v.extend_from_slice(&da.to_be_bytes());
    v
}
/// the conforming checksum of this build for a header whose field is zero
pub fn ip_ck_field(z: &[u8]) -> u16 {
    if CK {
        !oc_fold(word_sum(&z[..20]))
    } else {
        0
    }
}
/// x such that (s + x) is congruent to `target` modulo 65535
pub fn solve16(s: u64, target: u16) -> u16 {
    (((target as u64 % 65535) + 65535 - s % 65535) % 65535) as u16
}
pub const TARGETS: [u16; 5] = [0xffff, 0xfffe, 0x0001, 0x8000, 0x00ff];

/// a valid IPv4 header in reference encoding; `target`: force the one's-complement sum of the
/// ten other words (by choosing the identification)
pub fn ref_ip(r: &mut Rng, target: Option<u16>) -> Vec<u8> {
    let tos = tos_typed(r);
    let tl = if r.coin(1, 4) { *r.pick(&[20u16, 21, 28, 576, 1500, 65535]) } else { 20 + (v16(r) % 65516) };
    let ff = ((r.below(4) as u16) << 13) | if r.coin(1, 2) { *r.pick(&[0u16, 1, 8190, 8191]) } else { r.below(8192) as u16 };
    let (ttl, proto, sa, da) = (v8(r), v8(r), v32(r), v32(r));
    let mut id = v16(r);
    if let Some(tg) = target {
        let z = raw_ip(0x45, tos, tl, 0, ff, ttl, proto, 0, sa, da);
        id = solve16(word_sum(&z), tg);
        if id == 0 && r.coin(1, 2) {
            id = 0xffff;
        }
    }
    let mut v = raw_ip(0x45, tos, tl, id, ff, ttl, proto, 0, sa, da);
    let c = ip_ck_field(&v);
    v[10..12].copy_from_slice(&c.to_be_bytes());
    v
}

/// a valid UDP datagram (header + payload token) in reference encoding
pub fn ref_udp(r: &mut Rng, target: Option<u16>, big: u64) -> (u32, u32, Vec<u8>, String) {
    let (sa, da, dp) = (v32(r), v32(r), v16(r));
    let mut sp = v16(r);
    let (ptok, pb) = payload(r, 65527, big);
    let len = (pb.len() + 8) as u16;
    let mk = |sp: u16, c: u16| {
        let mut h = vec![];
        h.extend_from_slice(&sp.to_be_bytes());
        h.extend_from_slice(&dp.to_be_bytes());
        h.extend_from_slice(&len.to_be_bytes());
        h.extend_from_slice(&c.to_be_bytes());
        h
    };
    if let Some(tg) = target {
        let s = word_sum(&pseudo(sa, da, 17, len)) + word_sum(&mk(0, 0)) + word_sum(&pb);
        sp = solve16(s, tg);
    }
    let mut h = mk(sp, 0);
    if CK {
        let mut seg = h.clone();
        seg.extend_from_slice(&pb);
        let c = udp_ref_cksum(sa, da, &seg);
        h[6..8].copy_from_slice(&c.to_be_bytes());
    }
    (sa, da, h, ptok)
}

/// a valid TCP segment in reference encoding; the window is the free word for `target`
pub fn ref_tcp(r: &mut Rng, target: Option<u16>, big: u64) -> (u32, u32, Vec<u8>, String, usize) {
    let (sa, da, sp, dp, seq, ack, urg) = (v32(r), v32(r), v16(r), v16(r), v32(r), v32(r), v16(r));
    let ctl = r.below(64) as u8;
    let mut wnd = v16(r);
    let (ptok, pb) = payload(r, 65515, big);
    let mk = |wnd: u16, c: u16| {
        let mut h = vec![];
        h.extend_from_slice(&sp.to_be_bytes());
        h.extend_from_slice(&dp.to_be_bytes());
        h.extend_from_slice(&seq.to_be_bytes());
        h.extend_from_slice(&ack.to_be_bytes());
        h.push(0x50);
        h.push(ctl);
        h.extend_from_slice(&wnd.to_be_bytes());
        h.extend_from_slice(&c.to_be_bytes());
        h.extend_from_slice(&urg.to_be_bytes());
        h
    };
    let total = pb.len() + 20;
    if let Some(tg) = target {
        let s = word_sum(&pseudo(sa, da, 6, total as u16)) + word_sum(&mk(0, 0)) + word_sum(&pb);
        wnd = solve16(s, tg);
        if wnd == 0 && r.coin(1, 2) {
            wnd = 0xffff;
        }
    }
    let mut h = mk(wnd, 0);
    if CK {
        let mut seg = h.clone();
        seg.extend_from_slice(&pb);
        let c = tcp_ref_cksum(sa, da, &seg);
        h[16..18].copy_from_slice(&c.to_be_bytes());
    }
    (sa, da, h, ptok, total)
}

fn join_p(h: &[u8], ptok: &str) -> String {
    if ptok == "-" {
        hex(h)
    } else {
        format!("{}+{}", hex(h), ptok)
    }
}

/// hostile variant of a byte string: truncation, bit flips, field surgery
fn mutate(r: &mut Rng, mut bs: Vec<u8>, hdr: usize) -> Vec<u8> {
    match r.below(8) {
        0 | 1 => {
            // truncation at every length up to (and a little beyond) the header
            let n = r.below((hdr.min(bs.len()) + 1) as u64) as usize;
            bs.truncate(n);
        }
        2 => {
            if !bs.is_empty() {
                let i = r.below((bs.len().min(hdr + 4) * 8) as u64) as usize;
                flip(&mut bs, i);
            }
        }
        3 => {
            // several flips inside the header
            for _ in 0..r.range(2, 4) {
                if !bs.is_empty() {
                    let i = r.below((bs.len().min(hdr) * 8) as u64) as usize;
                    flip(&mut bs, i);
                }
            }
        }
        4 => {
            // extreme values in one 16-bit word of the header
            if bs.len() >= hdr {
                let w = r.below((hdr / 2) as u64) as usize * 2;
                let x = *r.pick(&[0u16, 1, 0xffff, 0x8000, 0x7fff]);
                bs[w..w + 2].copy_from_slice(&x.to_be_bytes());
            }
        }
        5 => {
            // first byte / offset byte surgery: version, IHL, data offset, reserved bits
            if !bs.is_empty() {
                let i = *r.pick(&[0usize, 1, 6, 12, 13]);
                if i < bs.len() {
                    bs[i] = if r.coin(1, 2) { r.next_u64() as u8 } else { bs[i] ^ (1 << r.below(8)) };
                }
            }
        }
        6 => {
            let n = r.range(1, 5) as usize;
            bs.extend(r.bytes(n))
        }
        _ => {
            let n = r.range(0, 44) as usize;
            bs = r.bytes(n)
        }
    }
    bs
}

fn tcp_calls(r: &mut Rng, ctl: Option<u8>) -> String {
    let ctl = ctl.unwrap_or(r.below(64) as u8);
    let mut v: Vec<String> = vec![];
    if r.coin(3, 4) {
        v.push(format!("w{}", v16(r)));
    }
    if ctl & 16 != 0 {
        v.push(format!("a{}", v32(r)));
    }
    if ctl & 8 != 0 {
        v.push("p".into());
    }
    if ctl & 4 != 0 {
        v.push("r".into());
    }
    if ctl & 2 != 0 {
        v.push("s".into());
    }
    if ctl & 1 != 0 {
        v.push("f".into());
    }
    if ctl & 32 != 0 {
        v.push(format!("u{}", v16(r)));
    }
    // random order, occasional repetition
    for i in (1..v.len()).rev() {
        let j = r.below(i as u64 + 1) as usize;
        v.swap(i, j);
    }
    if r.coin(1, 8) && !v.is_empty() {
        let d = v[r.below(v.len() as u64) as usize].clone();
        v.push(d);
    }
    v.join(" ")
}

pub struct Mix {
    /// permille of big payloads
    pub big: u64,
    /// weight of the checksum-centred cases (constructed sums, accumulator, flips)
    pub cksum_heavy: bool,
}

pub fn gen_case(r: &mut Rng, idx: usize, mix: &Mix) -> String {
    let sel = r.below(100);
    if mix.cksum_heavy {
        match sel {
            0..=11 => gen_flip(r, idx, mix),
            12..=21 => gen_cks(r, mix),
            22..=33 => gen_constructed(r, mix),
            34..=49 => gen_builder(r, mix),
            50..=79 => gen_decode_valid(r, mix),
            _ => gen_decode_hostile(r, mix),
        }
    } else {
        match sel {
            0..=2 => gen_flip(r, idx, mix),
            3..=5 => gen_cks(r, mix),
            6..=8 => gen_small(r, idx),
            9..=11 => gen_constructed(r, mix),
            12..=41 => gen_builder(r, mix),
            42..=66 => gen_decode_valid(r, mix),
            _ => gen_decode_hostile(r, mix),
        }
    }
}

fn gen_small(r: &mut Rng, idx: usize) -> String {
    match r.below(4) {
        0 => format!("ip4c {} {}", r.below(2), r.below(2)),
        1 => format!("ip4t {} {} {} {}", r.below(8), r.below(2), r.below(2), r.below(2)),
        2 => {
            let k = idx % 64;
            format!("ctln {} {} {} {} {} {}", (k >> 5) & 1, (k >> 4) & 1, (k >> 3) & 1, (k >> 2) & 1, (k >> 1) & 1, k & 1)
        }
        _ => format!("ctls {} {} {}", v8(r), r.below(6), r.below(2)),
    }
}

fn gen_builder(r: &mut Rng, mix: &Mix) -> String {
    match r.below(10) {
        0..=2 => {
            // ip4b sa da proto plen tos id frag flags
            let hostile = r.coin(1, 6);
            let plen = if r.coin(1, 3) { *r.pick(&[0u16, 1, 65514, 65515, 65516, 65535]) } else { v16(r) };
            let frag = if r.coin(1, 2) { r.below(8192) as u16 } else { *r.pick(&[0u16, 1, 8190, 8191, 8192, 0xffff]) };
            let tos = if hostile { v8(r) } else { tos_typed(r) };
            let flags = if hostile { v8(r) } else { r.below(4) as u8 };
            format!("ip4b {} {} {} {} {} {} {} {}", v32(r), v32(r), v8(r), plen, tos, v16(r), frag, flags)
        }
        3 => {
            // ip4s ihl tos tl id frag flags ttl proto ck sa da
            let hostile = r.coin(1, 5);
            let tl = if r.coin(1, 4) { *r.pick(&[0u16, 19, 20, 21, 65535]) } else { v16(r) };
            let frag = if hostile { v16(r) } else { r.below(8192) as u16 };
            let tos = if hostile { v8(r) } else { tos_typed(r) };
            let flags = if hostile { v8(r) } else { r.below(4) as u8 };
            format!("ip4s {} {} {} {} {} {} {} {} {} {} {}", if hostile { v8(r) } else { 5 }, tos, tl, v16(r), frag, flags, v8(r), v8(r), v16(r), v32(r), v32(r))
        }
        4..=5 => {
            // udpb sa sp da dp P tlen
            let (ptok, pb) = payload(r, 65535, mix.big);
            let tlen: u64 = match r.below(12) {
                0 => *r.pick(&[65527u64, 65528, 65535, 1 << 32, u64::MAX - 8, u64::MAX - 7, u64::MAX]),
                1 => r.below(70000),
                _ => pb.len() as u64,
            };
            format!("udpb {} {} {} {} {} {}", v32(r), v16(r), v32(r), v16(r), ptok, tlen)
        }
        6..=8 => {
            // tcpb sp dp seq sa da P tlen call*
            let (ptok, pb) = payload(r, 65535, mix.big);
            let tlen: u64 = match r.below(12) {
                0 => *r.pick(&[65515u64, 65516, 65535, 1 << 32, u64::MAX - 20, u64::MAX - 19, u64::MAX]),
                1 => r.below(70000),
                _ => pb.len() as u64,
            };
            format!("tcpb {} {} {} {} {} {} {} {}", v16(r), v16(r), v32(r), v32(r), v32(r), ptok, tlen, tcp_calls(r, None))
        }
        _ => {
            // tcps sp dp seq ack doff ctl wnd urg ck
            let hostile = r.coin(1, 3);
            format!(
                "tcps {} {} {} {} {} {} {} {} {}",
                v16(r), v16(r), v32(r), v32(r),
                if hostile { v8(r) } else { 5 },
                if hostile { v8(r) } else { r.below(64) as u8 },
                v16(r), v16(r), v16(r)
            )
        }
    }
}

fn gen_decode_valid(r: &mut Rng, mix: &Mix) -> String {
    match r.below(3) {
        0 => {
            let mut v = ref_ip(r, None);
            if r.coin(1, 3) {
                let n = r.range(1, 30) as usize;
                v.extend(r.bytes(n));
            }
            format!("ip4d {}", hex(&v))
        }
        1 => {
            let (sa, da, h, ptok) = ref_udp(r, None, mix.big);
            let n = parse_p(&ptok).len() + 8;
            format!("udpd {} {} {} {}", sa, da, n, join_p(&h, &ptok))
        }
        _ => {
            let (sa, da, mut h, ptok, n) = ref_tcp(r, None, mix.big);
            // reserved bits set by the sender (checksum adjusted when it is computed)
            if r.coin(1, 8) {
                let pb = parse_p(&ptok);
                h[12] |= r.below(16) as u8;
                h[13] |= (r.below(4) as u8) << 6;
                if CK {
                    h[16] = 0;
                    h[17] = 0;
                    let mut seg = h.clone();
                    seg.extend_from_slice(&pb);
                    let c = tcp_ref_cksum(sa, da, &seg);
                    h[16..18].copy_from_slice(&c.to_be_bytes());
                }
            }
            format!("tcpd {} {} {} {}", sa, da, n, join_p(&h, &ptok))
        }
    }
}

fn gen_decode_hostile(r: &mut Rng, _mix: &Mix) -> String {
    match r.below(3) {
        0 => {
            let v = ref_ip(r, None);
            let m = mutate(r, v, 20);
            // keep the checksum right after the surgery in half of the cases so that later checks are reached
            let m = if m.len() >= 20 && r.coin(1, 2) {
                let mut z = m.clone();
                z[10] = 0;
                z[11] = 0;
                let c = ip_ck_field(&z);
                z[10..12].copy_from_slice(&c.to_be_bytes());
                z
            } else {
                m
            };
            format!("ip4d {}", hex(&m))
        }
        1 => {
            let (sa, da, h, ptok) = ref_udp(r, None, 0);
            let mut all = h.clone();
            all.extend(parse_p(&ptok));
            let m = mutate(r, all, 8);
            let plen = match r.below(6) {
                0 => *r.pick(&[0u64, 7, 8, 65535, 65536, 1 << 40]),
                1 => m.len() as u64 + 1,
                _ => m.len() as u64,
            };
            format!("udpd {} {} {} {}", sa, da, plen, hex(&m))
        }
        _ => {
            let (sa, da, h, ptok, _) = ref_tcp(r, None, 0);
            let mut all = h.clone();
            all.extend(parse_p(&ptok));
            let m = mutate(r, all, 20);
            let plen = match r.below(6) {
                0 => *r.pick(&[0u64, 19, 20, 65535, 65536, 1 << 40]),
                1 => m.len() as u64 + 1,
                _ => m.len() as u64,
            };
            let m = if CK && m.len() >= 20 && plen == m.len() as u64 && r.coin(1, 2) {
                let mut z = m.clone();
                z[16] = 0;
                z[17] = 0;
                let c = tcp_ref_cksum(sa, da, &z);
                z[16..18].copy_from_slice(&c.to_be_bytes());
                z
            } else {
                m
            };
            format!("tcpd {} {} {} {}", sa, da, plen, hex(&m))
        }
    }
}

/// reference packets and builder calls whose one's-complement sum hits chosen values
fn gen_constructed(r: &mut Rng, mix: &Mix) -> String {
    let tg = *r.pick(&TARGETS);
    let tg = if r.coin(1, 2) { 0xffff } else { tg };
    match r.below(6) {
        0 => format!("ip4d {}", hex(&ref_ip(r, Some(tg)))),
        1 => {
            // the same through the builder: choose the identification
            let (sa, da, proto, plen, tos, frag, flags) = (v32(r), v32(r), v8(r), v16(r) % 65516, tos_typed(r), r.below(8192) as u16, r.below(4) as u8);
            let z = raw_ip(0x45, tos, plen + 20, 0, ((flags as u16) << 13) | frag, 30, proto, 0, sa, da);
            let id = solve16(word_sum(&z), tg);
            format!("ip4b {} {} {} {} {} {} {} {}", sa, da, proto, plen, tos, id, frag, flags)
        }
        2 => {
            let (sa, da, h, ptok) = ref_udp(r, Some(tg), mix.big);
            let n = parse_p(&ptok).len() + 8;
            format!("udpd {} {} {} {}", sa, da, n, join_p(&h, &ptok))
        }
        3 => {
            let (sa, da, h, ptok) = ref_udp(r, Some(tg), mix.big);
            let n = parse_p(&ptok).len();
            format!("udpb {} {} {} {} {} {}", sa, u16::from_be_bytes([h[0], h[1]]), da, u16::from_be_bytes([h[2], h[3]]), ptok, n)
        }
        4 => {
            let (sa, da, h, ptok, n) = ref_tcp(r, Some(tg), mix.big);
            format!("tcpd {} {} {} {}", sa, da, n, join_p(&h, &ptok))
        }
        _ => {
            let (sa, da, h, ptok, n) = ref_tcp(r, Some(tg), mix.big);
            let ctl = h[13];
            let mut calls: Vec<String> = vec![format!("w{}", u16::from_be_bytes([h[14], h[15]]))];
            // ack number and urgent pointer are only settable together with their bits
            let ack = u32::from_be_bytes([h[8], h[9], h[10], h[11]]);
            let urg = u16::from_be_bytes([h[18], h[19]]);
            if ctl & 16 == 0 && ack != 0 || ctl & 32 == 0 && urg != 0 {
                // not expressible through the builder: decode it instead
                return format!("tcpd {} {} {} {}", sa, da, n, join_p(&h, &ptok));
            }
            if ctl & 16 != 0 {
                calls.push(format!("a{}", ack));
            }
            if ctl & 32 != 0 {
                calls.push(format!("u{}", urg));
            }
            for (b, c) in [(8, "p"), (4, "r"), (2, "s"), (1, "f")] {
                if ctl & b != 0 {
                    calls.push(c.into());
                }
            }
            format!(
                "tcpb {} {} {} {} {} {} {} {}",
                u16::from_be_bytes([h[0], h[1]]), u16::from_be_bytes([h[2], h[3]]), u32::from_be_bytes([h[4], h[5], h[6], h[7]]),
                sa, da, ptok, n - 20, calls.join(" ")
            )
        }
    }
}

fn gen_cks(r: &mut Rng, mix: &Mix) -> String {
    let mut ops: Vec<String> = vec![];
    let mut sum = 0u64;
    let shape = r.below(6);
    if shape == 0 {
        // all-zero words: the only way to a sum of 0x0000
        for _ in 0..r.range(0, 4) {
            ops.push(match r.below(3) {
                0 => "w0000".to_string(),
                1 => "d00000000".to_string(),
                _ => format!("r{}", hex(&vec![0u8; r.range(1, 5) as usize])),
            });
        }
        return format!("cks {}", ops.join(" "));
    }
    for _ in 0..r.range(1, 7) {
        match r.below(4) {
            0 => {
                let x = v16(r);
                sum += x as u64;
                ops.push(format!("w{:04x}", x));
            }
            1 => {
                let x = v16(r);
                sum += x as u64;
                ops.push(format!("b{:04x}", x));
            }
            2 => {
                let x = v32(r);
                sum += (x >> 16) as u64 + (x & 0xffff) as u64;
                ops.push(format!("d{:08x}", x));
            }
            _ => {
                let (ptok, pb) = payload(r, 65535, mix.big);
                sum += word_sum(&pb);
                ops.push(format!("r{}", ptok));
            }
        }
    }
    if shape <= 3 {
        // close the sum on a chosen value
        let tg = if shape == 1 { 0xffff } else { *r.pick(&TARGETS) };
        let x = solve16(sum, tg);
        let x = if x == 0 && r.coin(1, 2) { 0xffff } else { x };
        ops.push(format!("w{:04x}", x));
    }
    format!("cks {}", ops.join(" "))
}

/// single- and double-bit corruption of packets in reference encoding (= what the stack emits,
/// which the builder cases establish)
fn gen_flip(r: &mut Rng, idx: usize, mix: &Mix) -> String {
    let kind = r.below(3);
    let (inner, nbits, hdr_bits) = match kind {
        0 => {
            let tg = if r.coin(1, 4) { Some(*r.pick(&TARGETS)) } else { None };
            let v = ref_ip(r, tg);
            (format!("ip4d {}", hex(&v)), 160usize, 160usize)
        }
        1 => {
            let (sa, da, h, ptok) = ref_udp(r, None, mix.big / 4);
            let n = parse_p(&ptok).len() + 8;
            (format!("udpd {} {} {} {}", sa, da, n, join_p(&h, &ptok)), n * 8, 64)
        }
        _ => {
            let (sa, da, h, ptok, n) = ref_tcp(r, None, mix.big / 4);
            (format!("tcpd {} {} {} {}", sa, da, n, join_p(&h, &ptok)), n * 8, 160)
        }
    };
    let pick = |r: &mut Rng| -> usize {
        // half of the flips in the header, the rest anywhere (last byte over-weighted: odd-length padding)
        match r.below(8) {
            0..=3 => r.below(hdr_bits as u64) as usize,
            4 => nbits - 1 - r.below(8) as usize,
            _ => r.below(nbits as u64) as usize,
        }
    };
    if r.coin(1, 2) {
        // single bit; the index sweeps the header systematically
        let i = if r.coin(1, 2) { idx % hdr_bits } else { pick(r) };
        format!("flip 1 {} {}", i, inner)
    } else {
        let i = pick(r);
        let j = if r.coin(1, 2) {
            // same bit position in another 16-bit word: the candidates for compensation
            let words = nbits / 16;
            if words > 1 {
                let w = r.below(words as u64) as usize;
                w * 16 + i % 16
            } else {
                pick(r)
            }
        } else {
            pick(r)
        };
        if i == j {
            format!("flip 1 {} {}", i, inner)
        } else {
            format!("flip 2 {} {} {}", i, j, inner)
        }
    }
}
