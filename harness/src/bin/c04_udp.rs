//! C04 — datagrams reach exactly the listener bound to their address and port.
//!
//! Every case is a full-stack scenario run in a child process: 2..5 machines on one network
//! (Udp / Ipv4 / Pci, optionally Arp with subnet info), up to four recording applications per
//! machine (`Rec<0>`..`Rec<3>`, one Rust type each so that each has its own TypeId), a per-machine
//! `Driver` that issues the bind operations through the real `Udp::listen` / `Udp::open_and_listen`
//! (and, in "raw" cases, `Ipv4::listen` for protocol 17 by a non-UDP upstream) before the start barrier
//! and the sends through `Udp::open_for_sending` + `Session::send` after it.
//!
//! case line (all tokens decimal):
//!   `v1 <flavor 0=paused current-thread | n=multi-thread n workers> <mtu> <latency_us> <reply 0|1> <nm>`
//!   per machine: `M <arp> <napps> <nsub> {<local> <maskbits> <gateway>}* <nroutes> {<local addr> <mac|-1>}*
//!                 <nlisten> {<kind 0=listen 1=open_and_listen 2=raw ipv4 listen> <app> <addr> <port>}*`
//!   `S <nsend> {<machine> <delay_us> <local addr> <sport> <dst addr> <dport> <len> <seed> <count>}*`
//! impl line (the recorded trace, in log order):
//!   `L=<codes of machine 0>/<machine 1>/.. T=<code per send call> F=<from>:<to>:<src>:<sport>:<dst>:<dport>:<len>:<digest>;..
//!    D=<kind>:<app>:<machine>:<laddr>:<lport>:<raddr>:<rport>:<len>:<digest>;.. X=<number of anomalies>`
//!   bind codes: 0 ok, 1 udp Existing, 2 ipv4 Exists, 3 open: unknown recipient, 4 open: ARP failure
//!   send codes: 0 ok, 3 / 4 as above (open failed), 5 Header, 6 Mtu, 7 Other, 9 anything else
//!   frame `to`: -2 broadcast MAC, -3 none, otherwise the MAC; machine i owns MAC i.
//! A crashed or hung child renders as `CRASH ...` and fails the oracle.
use elvis_core::{
    machine::Machine,
    message::Message,
    network::{
        verif::{FrameFate, FrameInfo, Observer},
        Latency, NetworkBuilder,
    },
    protocol::{DemuxError, StartError},
    protocols::{
        arp::subnetting::{Ipv4Mask, SubnetInfo},
        ipv4::{self, ipv4_parsing::Ipv4Header, Ipv4, Ipv4Address, ProtocolNumber, Recipient},
        udp::{self, Udp, UdpHeader},
        Arp, Endpoint, Endpoints, Pci,
    },
    run_internet,
    session::SendError,
    Control, IpTable, Network, Protocol, Session, Shutdown,
};
use elvis_verif_harness::stack::{block_on, child_case, child_finish, log, run_child, start_clock, Flavor};
use elvis_verif_harness::*;
use std::any::TypeId;
use std::collections::HashMap;
use std::sync::atomic::{AtomicUsize, Ordering::SeqCst};
use std::sync::Arc;
use std::time::Duration;
use tokio::sync::Barrier;

// ------------------------------------------------------------------ case

const ANY: u32 = 0;
const BCAST: u32 = 0xffff_ffff;
const LOOP1: u32 = 0x7f00_0001;
const SHARED: u32 = 0x0a00_6301; // 10.0.99.1 bound on several machines
const UNOWNED: u32 = 0x0a00_4d07; // 10.0.77.7 bound nowhere as a specific address
const O_REMOTE: (u32, u16) = (0x0a09_0909, 9);
const PORTS: [u16; 5] = [5000, 5001, 5002, 0, 65535];
const RPY: &[u8] = b"RPY";

fn own(i: usize, k: u8) -> u32 {
    u32::from_be_bytes([10, 0, i as u8, k])
}
fn is_loopback(a: u32) -> bool {
    a >> 24 == 127
}

#[derive(Clone, Debug)]
struct LOp {
    kind: u8,
    app: usize,
    addr: u32,
    port: u16,
}
#[derive(Clone, Debug, Default)]
struct MCfg {
    arp: bool,
    napps: usize,
    subs: Vec<(u32, u32, u32)>,
    routes: Vec<(u32, i64)>,
    listens: Vec<LOp>,
}
#[derive(Clone, Debug)]
struct SOp {
    m: usize,
    delay_us: u64,
    laddr: u32,
    sport: u16,
    daddr: u32,
    dport: u16,
    len: usize,
    seed: u64,
    count: usize,
}
#[derive(Clone, Debug)]
struct Case {
    flavor: usize,
    mtu: u16,
    lat_us: u64,
    reply: bool,
    machines: Vec<MCfg>,
    sends: Vec<SOp>,
}

impl Case {
    fn render(&self) -> String {
        let mut t: Vec<String> = vec!["v1".into()];
        let mut p = |x: String| t.push(x);
        p(self.flavor.to_string());
        p(self.mtu.to_string());
        p(self.lat_us.to_string());
        p((self.reply as u8).to_string());
        p(self.machines.len().to_string());
        for m in &self.machines {
            p("M".into());
            p((m.arp as u8).to_string());
            p(m.napps.to_string());
            p(m.subs.len().to_string());
            for s in &m.subs {
                p(s.0.to_string());
                p(s.1.to_string());
                p(s.2.to_string());
            }
            p(m.routes.len().to_string());
            for r in &m.routes {
                p(r.0.to_string());
                p(r.1.to_string());
            }
            p(m.listens.len().to_string());
            for l in &m.listens {
                p(l.kind.to_string());
                p(l.app.to_string());
                p(l.addr.to_string());
                p(l.port.to_string());
            }
        }
        p("S".into());
        p(self.sends.len().to_string());
        for s in &self.sends {
            for x in [s.m as u64, s.delay_us, s.laddr as u64, s.sport as u64, s.daddr as u64, s.dport as u64, s.len as u64, s.seed, s.count as u64] {
                p(x.to_string());
            }
        }
        t.join(" ")
    }

    fn parse(line: &str) -> Case {
        let t: Vec<&str> = line.split_whitespace().collect();
        let mut i = 0usize;
        let mut nx = || {
            i += 1;
            t[i - 1]
        };
        assert_eq!(nx(), "v1");
        let flavor: usize = nx().parse().unwrap();
        let mtu: u16 = nx().parse().unwrap();
        let lat_us: u64 = nx().parse().unwrap();
        let reply = nx() == "1";
        let nm: usize = nx().parse().unwrap();
        let mut machines = vec![];
        for _ in 0..nm {
            assert_eq!(nx(), "M");
            let mut m = MCfg { arp: nx() == "1", napps: nx().parse().unwrap(), ..Default::default() };
            let ns: usize = nx().parse().unwrap();
            for _ in 0..ns {
                m.subs.push((nx().parse().unwrap(), nx().parse().unwrap(), nx().parse().unwrap()));
            }
            let nr: usize = nx().parse().unwrap();
            for _ in 0..nr {
                m.routes.push((nx().parse().unwrap(), nx().parse().unwrap()));
            }
            let nl: usize = nx().parse().unwrap();
            for _ in 0..nl {
                m.listens.push(LOp { kind: nx().parse().unwrap(), app: nx().parse().unwrap(), addr: nx().parse().unwrap(), port: nx().parse().unwrap() });
            }
            machines.push(m);
        }
        assert_eq!(nx(), "S");
        let ns: usize = nx().parse().unwrap();
        let mut sends = vec![];
        for _ in 0..ns {
            sends.push(SOp {
                m: nx().parse().unwrap(),
                delay_us: nx().parse().unwrap(),
                laddr: nx().parse().unwrap(),
                sport: nx().parse().unwrap(),
                daddr: nx().parse().unwrap(),
                dport: nx().parse().unwrap(),
                len: nx().parse().unwrap(),
                seed: nx().parse().unwrap(),
                count: nx().parse().unwrap(),
            });
        }
        Case { flavor, mtu, lat_us, reply, machines, sends }
    }

    fn route(&self, m: usize, a: u32) -> Option<i64> {
        self.machines[m].routes.iter().find(|r| r.0 == a).map(|r| r.1)
    }
}

fn pattern(seed: u64, len: usize) -> Vec<u8> {
    (0..len).map(|i| ((seed as usize).wrapping_add(i * 7).wrapping_add((i >> 8) * 13) & 0xff) as u8).collect()
}

/// two 30-bit polynomial hashes; the OCaml driver computes the same from (seed, len)
fn digest(b: &[u8]) -> u64 {
    let (mut h1, mut h2) = (1u64, 7u64);
    for x in b {
        h1 = (h1 * 257 + *x as u64 + 1) % 1_000_000_007;
        h2 = (h2 * 263 + *x as u64 + 1) % 998_244_353;
    }
    (h1 << 30) | h2
}

// ------------------------------------------------------------------ child: the real simulation

static DONE: AtomicUsize = AtomicUsize::new(0);
static DONE_NOTIFY: tokio::sync::Notify = tokio::sync::Notify::const_new();
static NTAPS: AtomicUsize = AtomicUsize::new(0);
static SENT_IP: AtomicUsize = AtomicUsize::new(0); // IPv4 frames seen by the link observer
static EXPECT_IP: AtomicUsize = AtomicUsize::new(0); // IPv4 frames the applications were told are on their way
static EXPECT_DLV: AtomicUsize = AtomicUsize::new(0);
static DLV: AtomicUsize = AtomicUsize::new(0);
static ACTIVITY: AtomicUsize = AtomicUsize::new(0);

fn be16(b: &[u8], i: usize) -> u16 {
    u16::from_be_bytes([b[i], b[i + 1]])
}
fn be32(b: &[u8], i: usize) -> u32 {
    u32::from_be_bytes([b[i], b[i + 1], b[i + 2], b[i + 3]])
}

struct Obs {
    counter: AtomicUsize,
}
impl Observer for Obs {
    fn on_send(&self, f: &FrameInfo) -> FrameFate {
        let idx = self.counter.fetch_add(1, SeqCst);
        ACTIVITY.fetch_add(1, SeqCst);
        let to: i64 = match f.destination {
            None => -3,
            Some(m) if m == Network::BROADCAST_MAC => -2,
            Some(m) => m as i64,
        };
        let fan = if to < 0 { NTAPS.load(SeqCst) } else { 1 };
        EXPECT_DLV.fetch_add(fan, SeqCst);
        if f.protocol == TypeId::of::<Ipv4>() {
            // the harness's own reading of the frame, byte by byte
            let b = f.message.to_vec();
            let ok = b.len() >= 28 && b[0] == 0x45 && be16(&b, 2) as usize == b.len() && b[9] == 17 && be16(&b, 24) as usize == b.len() - 20;
            if ok {
                log(format!(
                    "send {} ip from={} to={} ok=1 src={}:{} dst={}:{} plen={} phash={}",
                    idx, f.sender, to, be32(&b, 12), be16(&b, 20), be32(&b, 16), be16(&b, 22), b.len() - 28, digest(&b[28..])
                ));
            } else {
                log(format!("send {} ip from={} to={} ok=0 len={}", idx, f.sender, to, b.len()));
            }
            SENT_IP.fetch_add(1, SeqCst);
        } else {
            log(format!("send {} other from={} to={} len={}", idx, f.sender, to, f.message.len()));
        }
        FrameFate::Deliver
    }
    fn on_delivery(&self, f: &FrameInfo, tap: Option<u64>) {
        ACTIVITY.fetch_add(1, SeqCst);
        log(format!("dlv from={} tap={}", f.sender, tap.map(|x| x as i64).unwrap_or(-1)));
        DLV.fetch_add(1, SeqCst);
    }
}

/// A recording application; `N` only serves to give every recorder of a machine its own TypeId.
struct Rec<const N: usize> {
    m: usize,
    reply: bool,
}

#[async_trait::async_trait]
impl<const N: usize> Protocol for Rec<N> {
    async fn start(&self, _shutdown: Shutdown, initialized: Arc<Barrier>, _machine: Arc<Machine>) -> Result<(), StartError> {
        initialized.wait().await;
        Ok(())
    }

    fn demux(&self, message: Message, caller: Arc<dyn Session>, control: Control, machine: Arc<Machine>) -> Result<(), DemuxError> {
        ACTIVITY.fetch_add(1, SeqCst);
        let bytes = message.to_vec();
        match (control.get::<Ipv4Header>(), control.get::<UdpHeader>()) {
            (Some(ip), Some(u)) => {
                let remote_addr = ip.source.to_u32();
                log(format!(
                    "app kind=0 app={} m={} local={}:{} remote={}:{} len={} hash={} mlen={}",
                    N, self.m, ip.destination.to_u32(), u.destination, remote_addr, u.source, bytes.len(), digest(&bytes), message.len()
                ));
                if self.reply && bytes != RPY {
                    // answer through the session we were handed: observes the session's own endpoints
                    let r = caller.send(Message::new(RPY.to_vec()), machine);
                    let code = send_code(&r);
                    if code == 0 && !is_loopback(remote_addr) {
                        EXPECT_IP.fetch_add(1, SeqCst);
                    }
                    log(format!("rpy m={} app={} code={}", self.m, N, code));
                }
            }
            (Some(ip), None) if bytes.len() >= 8 => {
                // reached directly from Ipv4 (raw binding of protocol 17): the UDP header is still in front
                log(format!(
                    "app kind=1 app={} m={} local={}:{} remote={}:{} len={} hash={} mlen={}",
                    N, self.m, ip.destination.to_u32(), be16(&bytes, 2), ip.source.to_u32(), be16(&bytes, 0), bytes.len() - 8, digest(&bytes[8..]), message.len() - 8
                ));
            }
            _ => log(format!("anom recorder {} on machine {} called without headers", N, self.m)),
        }
        Ok(())
    }
}

fn rec_tid(k: usize) -> TypeId {
    match k {
        0 => TypeId::of::<Rec<0>>(),
        1 => TypeId::of::<Rec<1>>(),
        2 => TypeId::of::<Rec<2>>(),
        _ => TypeId::of::<Rec<3>>(),
    }
}

fn send_code(r: &Result<(), SendError>) -> i64 {
    match r {
        Ok(()) => 0,
        Err(SendError::Header) => 5,
        Err(SendError::Mtu(_)) => 6,
        Err(SendError::Other) => 7,
        Err(_) => 9,
    }
}
fn ip_listen_code(e: &ipv4::ListenError) -> i64 {
    match e {
        ipv4::ListenError::Exists(_) => 2,
    }
}
fn listen_code(e: &udp::ListenError) -> i64 {
    match e {
        udp::ListenError::Existing(_) => 1,
        udp::ListenError::Ipv4(e) => ip_listen_code(e),
    }
}
fn open_code(e: &udp::OpenError) -> i64 {
    match e {
        udp::OpenError::Existing(_) => 8,
        udp::OpenError::Ipv4(ipv4::OpenError::UnknownRecipient(_)) => 3,
        udp::OpenError::Ipv4(ipv4::OpenError::ArpFailure(_)) => 4,
    }
}

/// Issues the machine's script.
struct Driver {
    m: usize,
    listens: Vec<LOp>,
    /// (index of the first send call of this operation, operation)
    sends: Vec<(usize, SOp)>,
}

#[async_trait::async_trait]
impl Protocol for Driver {
    async fn start(&self, _shutdown: Shutdown, initialized: Arc<Barrier>, machine: Arc<Machine>) -> Result<(), StartError> {
        let udp_p = machine.protocol::<Udp>().unwrap();
        for (i, l) in self.listens.iter().enumerate() {
            let ep = Endpoint::new(Ipv4Address::from(l.addr), l.port);
            let code = match l.kind {
                0 => match udp_p.listen(rec_tid(l.app), ep, machine.clone()) {
                    Ok(()) => 0,
                    Err(e) => listen_code(&e),
                },
                1 => {
                    let eps = Endpoints::new(ep, Endpoint::new(Ipv4Address::from(O_REMOTE.0), O_REMOTE.1));
                    match udp_p.open_and_listen(rec_tid(l.app), eps, machine.clone()).await {
                        Ok(_) => 0,
                        Err(udp::OpenAndListenError::Listen(e)) => listen_code(&e),
                        Err(udp::OpenAndListenError::Open(e)) => open_code(&e),
                    }
                }
                _ => match machine.protocol::<Ipv4>().unwrap().listen(rec_tid(l.app), Ipv4Address::from(l.addr), machine.clone(), ProtocolNumber::UDP) {
                    Ok(()) => 0,
                    Err(e) => ip_listen_code(&e),
                },
            };
            log(format!("lis m={} i={} code={}", self.m, i, code));
        }
        initialized.wait().await;
        for (first, s) in &self.sends {
            if s.delay_us > 0 {
                tokio::time::sleep(Duration::from_micros(s.delay_us)).await;
            } else {
                tokio::task::yield_now().await;
            }
            let eps = Endpoints::new(Endpoint::new(Ipv4Address::from(s.laddr), s.sport), Endpoint::new(Ipv4Address::from(s.daddr), s.dport));
            let payload = pattern(s.seed, s.len);
            match udp_p.open_for_sending(self.id(), eps, machine.clone()).await {
                Err(e) => {
                    for k in 0..s.count {
                        ACTIVITY.fetch_add(1, SeqCst);
                        log(format!("tx id={} code={}", first + k, open_code(&e)));
                    }
                }
                Ok(session) => {
                    for k in 0..s.count {
                        ACTIVITY.fetch_add(1, SeqCst);
                        let r = session.send(Message::new(payload.clone()), machine.clone());
                        let code = send_code(&r);
                        if code == 0 && !is_loopback(s.daddr) {
                            EXPECT_IP.fetch_add(1, SeqCst);
                        }
                        log(format!("tx id={} code={}", first + k, code));
                    }
                }
            }
        }
        DONE.fetch_add(1, SeqCst);
        DONE_NOTIFY.notify_one();
        Ok(())
    }

    fn demux(&self, _m: Message, _c: Arc<dyn Session>, _ctl: Control, _machine: Arc<Machine>) -> Result<(), DemuxError> {
        log(format!("anom driver of machine {} received a message", self.m));
        Ok(())
    }
}

fn child(case_line: &str) -> ! {
    let case = Case::parse(case_line);
    let settle: u64 = std::env::var("C04_SETTLE").ok().and_then(|s| s.parse().ok()).unwrap_or(1);
    elvis_core::network::verif::install(Arc::new(Obs { counter: AtomicUsize::new(0) }));
    let flavor = if case.flavor == 0 { Flavor::CurrentPaused } else { Flavor::Multi(case.flavor) };
    let paused = case.flavor == 0;
    let out = block_on(flavor, async move {
        start_clock();
        let mut out: Vec<String> = vec![];
        let mut nb = NetworkBuilder::new().mtu(case.mtu);
        if case.lat_us > 0 {
            nb = nb.latency(Latency::constant(Duration::from_micros(case.lat_us)));
        }
        let network = nb.build();
        let nm = case.machines.len();
        NTAPS.store(nm, SeqCst);
        let mut first = 0usize;
        let mut per_machine: Vec<Vec<(usize, SOp)>> = vec![vec![]; nm];
        for s in &case.sends {
            per_machine[s.m].push((first, s.clone()));
            first += s.count;
        }
        let mut machines = vec![];
        for (i, mc) in case.machines.iter().enumerate() {
            let table: IpTable<Recipient> = mc.routes.iter().map(|(a, mac)| (Ipv4Address::from(*a), Recipient::new(0, if *mac < 0 { None } else { Some(*mac as u64) }))).collect();
            let mut mach = Machine::new().with(Udp::new()).with(Ipv4::new(table)).with(Pci::new([network.clone()]));
            if mc.arp {
                let mut arp = Arp::new();
                for (l, bits, gw) in &mc.subs {
                    arp = arp.preconfig_subnet(Ipv4Address::from(*l), SubnetInfo::new(Ipv4Mask::from_bitcount(*bits), Ipv4Address::from(*gw)));
                }
                mach = mach.with(arp);
            }
            if mc.napps > 0 {
                mach = mach.with(Rec::<0> { m: i, reply: case.reply });
            }
            if mc.napps > 1 {
                mach = mach.with(Rec::<1> { m: i, reply: case.reply });
            }
            if mc.napps > 2 {
                mach = mach.with(Rec::<2> { m: i, reply: case.reply });
            }
            if mc.napps > 3 {
                mach = mach.with(Rec::<3> { m: i, reply: case.reply });
            }
            mach = mach.with(Driver { m: i, listens: mc.listens.clone(), sends: per_machine[i].clone() });
            let mach = mach.arc();
            let macs: Vec<u64> = mach.protocol::<Pci>().unwrap().mac_addresses().collect();
            if macs != vec![i as u64] {
                log(format!("anom machine {} owns macs {:?}", i, macs));
            }
            machines.push(mach);
        }
        let ms = machines.clone();
        tokio::spawn(async move { run_internet(&ms, None).await });
        // wait for the drivers (virtual time when paused: ARP retries cost nothing)
        let limit = if paused { Duration::from_secs(900) } else { Duration::from_secs(12 * settle) };
        let deadline = tokio::time::Instant::now() + limit;
        while DONE.load(SeqCst) < nm {
            tokio::select! {
                _ = DONE_NOTIFY.notified() => {}
                _ = tokio::time::sleep_until(deadline) => {
                    out.push("anom drivers did not finish".into());
                    break;
                }
            }
        }
        // quiescence: every announced frame seen, every frame handed to its taps, nothing moving
        let (step, need, cap) = if paused { (Duration::from_millis(10), 2usize, 2_000usize) } else { (Duration::from_millis(8 * settle), 3usize, 800usize) };
        let mut stable = 0usize;
        let mut last = ACTIVITY.load(SeqCst);
        let mut it = 0usize;
        loop {
            tokio::time::sleep(step).await;
            let cond = SENT_IP.load(SeqCst) == EXPECT_IP.load(SeqCst) && DLV.load(SeqCst) == EXPECT_DLV.load(SeqCst);
            let a = ACTIVITY.load(SeqCst);
            if cond && a == last {
                stable += 1;
            } else {
                stable = 0;
            }
            last = a;
            if stable >= need {
                break;
            }
            it += 1;
            if it > cap {
                out.push(format!("anom not quiescent: frames {}/{} deliveries {}/{}", SENT_IP.load(SeqCst), EXPECT_IP.load(SeqCst), DLV.load(SeqCst), EXPECT_DLV.load(SeqCst)));
                break;
            }
        }
        out
    });
    child_finish(&out)
}

// ------------------------------------------------------------------ parent: trace, oracle

#[derive(Clone, Debug, PartialEq, Eq, Hash, PartialOrd, Ord)]
struct Ev {
    kind: u8,
    app: usize,
    m: usize,
    local: (u32, u16),
    remote: (u32, u16),
    len: usize,
    hash: u64,
}
#[derive(Clone, Debug)]
struct Fr {
    from: usize,
    to: i64,
    src: (u32, u16),
    dst: (u32, u16),
    plen: usize,
    phash: u64,
}
#[derive(Default, Debug)]
struct Trace {
    lis: Vec<Vec<i64>>,
    tx: Vec<i64>,
    frames: Vec<Fr>,
    evs: Vec<Ev>,
    rpy: Vec<(usize, usize, i64)>,
    anomalies: Vec<String>,
}

fn kv<'a>(text: &'a str, key: &str) -> Option<&'a str> {
    text.split_whitespace().find_map(|t| t.strip_prefix(key).and_then(|r| r.strip_prefix('=')))
}
fn ep(s: &str) -> Option<(u32, u16)> {
    let (a, p) = s.split_once(':')?;
    Some((a.parse().ok()?, p.parse().ok()?))
}

fn build_trace(case: &Case, events: &[(u128, String)], out: &[String]) -> Trace {
    let ncalls: usize = case.sends.iter().map(|s| s.count).sum();
    let mut tr = Trace { lis: case.machines.iter().map(|m| vec![-99; m.listens.len()]).collect(), tx: vec![-99; ncalls], ..Default::default() };
    for o in out {
        if o.starts_with("anom") {
            tr.anomalies.push(o.clone());
        }
    }
    for (_, e) in events {
        let p = |k: &str| -> Option<i64> { kv(e, k).and_then(|v| v.parse().ok()) };
        if e.starts_with("lis ") {
            match (p("m"), p("i"), p("code")) {
                (Some(m), Some(i), Some(c)) if (m as usize) < tr.lis.len() && (i as usize) < tr.lis[m as usize].len() => tr.lis[m as usize][i as usize] = c,
                _ => tr.anomalies.push(e.clone()),
            }
        } else if e.starts_with("tx ") {
            match (p("id"), p("code")) {
                (Some(i), Some(c)) if (i as usize) < ncalls => tr.tx[i as usize] = c,
                _ => tr.anomalies.push(e.clone()),
            }
        } else if e.starts_with("send ") {
            if e.contains(" ip ") {
                let f = (|| {
                    if kv(e, "ok")? != "1" {
                        return None;
                    }
                    Some(Fr { from: p("from")? as usize, to: p("to")?, src: ep(kv(e, "src")?)?, dst: ep(kv(e, "dst")?)?, plen: p("plen")? as usize, phash: kv(e, "phash")?.parse().ok()? })
                })();
                match f {
                    Some(f) => tr.frames.push(f),
                    None => tr.anomalies.push(format!("malformed ipv4 frame on the link: {}", e)),
                }
            }
        } else if e.starts_with("app ") {
            let v = (|| {
                let ev = Ev { kind: p("kind")? as u8, app: p("app")? as usize, m: p("m")? as usize, local: ep(kv(e, "local")?)?, remote: ep(kv(e, "remote")?)?, len: p("len")? as usize, hash: kv(e, "hash")?.parse().ok()? };
                if p("mlen")? as usize != ev.len {
                    return None;
                }
                Some(ev)
            })();
            match v {
                Some(ev) => tr.evs.push(ev),
                None => tr.anomalies.push(format!("unreadable recorder event (or Message::len differs from the bytes): {}", e)),
            }
        } else if e.starts_with("rpy ") {
            match (p("m"), p("app"), p("code")) {
                (Some(m), Some(a), Some(c)) => tr.rpy.push((m as usize, a as usize, c)),
                _ => tr.anomalies.push(e.clone()),
            }
        } else if e.starts_with("anom") {
            tr.anomalies.push(e.clone());
        }
    }
    tr
}

fn render_trace(tr: &Trace) -> String {
    let codes = |v: &Vec<i64>| if v.is_empty() { "-".to_string() } else { v.iter().map(|c| c.to_string()).collect::<Vec<_>>().join(",") };
    let l = tr.lis.iter().map(codes).collect::<Vec<_>>().join("/");
    let f = if tr.frames.is_empty() {
        "-".to_string()
    } else {
        tr.frames.iter().map(|f| format!("{}:{}:{}:{}:{}:{}:{}:{}", f.from, f.to, f.src.0, f.src.1, f.dst.0, f.dst.1, f.plen, f.phash)).collect::<Vec<_>>().join(";")
    };
    let d = if tr.evs.is_empty() {
        "-".to_string()
    } else {
        tr.evs.iter().map(|e| format!("{}:{}:{}:{}:{}:{}:{}:{}:{}", e.kind, e.app, e.m, e.local.0, e.local.1, e.remote.0, e.remote.1, e.len, e.hash)).collect::<Vec<_>>().join(";")
    };
    format!("L={} T={} F={} D={} X={}", l, codes(&tr.tx), f, d, tr.anomalies.len())
}

fn ipstr(a: u32) -> String {
    let b = a.to_be_bytes();
    format!("{}.{}.{}.{}", b[0], b[1], b[2], b[3])
}
fn evstr(e: &Ev) -> String {
    format!("[{} app {} on machine {} local {}:{} remote {}:{} len {}]", if e.kind == 0 { "udp" } else { "raw" }, e.app, e.m, ipstr(e.local.0), e.local.1, ipstr(e.remote.0), e.remote.1, e.len)
}

/// multiset difference a - b
fn msub<T: Clone + Ord>(a: &[T], b: &[T]) -> Vec<T> {
    let mut b: Vec<T> = b.to_vec();
    let mut r = vec![];
    for x in a {
        if let Some(i) = b.iter().position(|y| y == x) {
            b.swap_remove(i);
        } else {
            r.push(x.clone());
        }
    }
    r
}

/// The property's own predicate, computed from the case and the trace only.
fn oracle(case: &Case, tr: &Trace) -> Result<(), String> {
    if !tr.anomalies.is_empty() {
        return Err(format!("anomaly: {}", tr.anomalies[0]));
    }
    let nm = case.machines.len();
    let has_raw = case.machines.iter().any(|m| m.listens.iter().any(|l| l.kind == 2));
    // (1) binds: a second bind of a bound endpoint is refused, a first bind is accepted; the table of effective bindings
    let mut bound: Vec<HashMap<(u32, u16), usize>> = vec![HashMap::new(); nm];
    for (m, mc) in case.machines.iter().enumerate() {
        let mut raw_addr: Vec<u32> = vec![];
        for (i, l) in mc.listens.iter().enumerate() {
            let code = tr.lis[m][i];
            let e = (l.addr, l.port);
            match l.kind {
                2 => {
                    stat(&format!("bind raw code {}", code));
                    if code == 0 {
                        raw_addr.push(l.addr);
                    }
                }
                k => {
                    if let Some(prev) = bound[m].get(&e) {
                        stat(if *prev == l.app { "bind again, same app" } else { "bind again, other app" });
                        if code != 1 {
                            return Err(format!("machine {}: second bind of {}:{} (held by app {}) returned code {} instead of being refused", m, ipstr(l.addr), l.port, prev, code));
                        }
                    } else if raw_addr.contains(&l.addr) {
                        // a non-UDP upstream holds (addr, 17): outside the property's universe; as coded
                        // (Udp::listen inserts its own entry before asking Ipv4 and leaves it behind on refusal)
                        stat(&format!("bind under raw ipv4 binding code {}", code));
                        bound[m].insert(e, l.app);
                    } else {
                        let want = if k == 1 && case.route(m, l.addr).is_none() { 3 } else { 0 };
                        stat(&format!("bind first code {}", code));
                        if code != want {
                            return Err(format!("machine {}: first bind of {}:{} by app {} returned code {} (expected {})", m, ipstr(l.addr), l.port, l.app, code, want));
                        }
                        bound[m].insert(e, l.app);
                    }
                }
            }
        }
    }
    // (2) send results; what the applications were told is on its way
    // emitted: (machine, src, dst, len, digest)
    let mut emitted: Vec<(usize, (u32, u16), (u32, u16), usize, u64)> = vec![];
    let mut call = 0usize;
    for s in &case.sends {
        let mc = &case.machines[s.m];
        let route = case.route(s.m, s.laddr);
        let h = digest(&pattern(s.seed, s.len));
        for _ in 0..s.count {
            let code = tr.tx[call];
            call += 1;
            stat(&format!("send code {}", code));
            let mut allowed: Vec<i64> = match route {
                None => vec![3],
                Some(_) if s.len > 65507 => vec![5],
                Some(_) if is_loopback(s.daddr) => vec![0, 7],
                Some(_) if s.len + 28 > case.mtu as usize => vec![6],
                Some(_) => vec![0],
            };
            if let Some(mac) = route {
                if mc.arp && mac < 0 {
                    allowed.push(4);
                }
            }
            if !allowed.contains(&code) {
                return Err(format!("send call {} (machine {} {}:{} -> {}:{} len {} mtu {}): result code {} not in {:?}", call - 1, s.m, ipstr(s.laddr), s.sport, ipstr(s.daddr), s.dport, s.len, case.mtu, code, allowed));
            }
            if code == 0 {
                emitted.push((s.m, (s.laddr, s.sport), (s.daddr, s.dport), s.len, h));
            }
        }
    }
    // the recorders' answers: one per UDP delivery that is not itself an answer
    let rh = digest(RPY);
    let mut want_rpy: Vec<(usize, usize)> = vec![];
    if case.reply {
        for e in tr.evs.iter().filter(|e| e.kind == 0 && !(e.len == RPY.len() && e.hash == rh)) {
            want_rpy.push((e.m, e.app));
            emitted.push((e.m, e.local, e.remote, RPY.len(), rh));
        }
    }
    let got_rpy: Vec<(usize, usize)> = tr.rpy.iter().map(|r| (r.0, r.1)).collect();
    if !msub(&want_rpy, &got_rpy).is_empty() || !msub(&got_rpy, &want_rpy).is_empty() {
        return Err("harness: answers and deliveries do not pair up".into());
    }
    for r in &tr.rpy {
        stat(&format!("answer code {}", r.2));
        if r.2 != 0 && r.2 != 7 {
            return Err(format!("answer through the session handed to app {} on machine {} failed with code {}", r.1, r.0, r.2));
        }
    }
    // answers to a loopback source that found no listener report Other and deliver nothing: drop those from emitted
    // (an answer that was delivered locally shows up as an event and is checked below)
    // (3) the IPv4 frames on the link are exactly the emitted datagrams with a non-loopback destination: true source and
    //     destination in the headers, payload unchanged
    let on_link: Vec<_> = emitted.iter().filter(|e| !is_loopback(e.2 .0)).cloned().collect();
    let seen: Vec<_> = tr.frames.iter().map(|f| (f.from, f.src, f.dst, f.plen, f.phash)).collect();
    let missing = msub(&on_link, &seen);
    let stray = msub(&seen, &on_link);
    if !missing.is_empty() || !stray.is_empty() {
        return Err(format!("frames on the link differ from the datagrams sent: missing {:?} stray {:?}", missing.first(), stray.first()));
    }
    // a datagram for the limited-broadcast address goes to the broadcast MAC
    if let Some(f) = tr.frames.iter().find(|f| f.dst.0 == BCAST && f.to != -2) {
        return Err(format!("datagram for 255.255.255.255:{} from machine {} was addressed to MAC {} instead of the broadcast MAC", f.dst.1, f.from, f.to));
    }
    // an answer goes back to the interface the datagram came from
    for f in tr.frames.iter().filter(|f| f.plen == RPY.len() && f.phash == rh) {
        // (a datagram that took the loopback path came from the machine's own interface)
        let mut senders: Vec<i64> = tr.frames.iter().filter(|g| g.src == f.dst).map(|g| g.from as i64).collect();
        senders.extend(emitted.iter().filter(|e| is_loopback(e.2 .0) && e.1 == f.dst).map(|e| e.0 as i64));
        if !senders.contains(&f.to) {
            return Err(format!("answer frame from machine {} addressed to MAC {} but {}:{} was sent from {:?}", f.from, f.to, ipstr(f.dst.0), f.dst.1, senders));
        }
    }
    // (4) arrivals: which machine's IPv4 layer gets which datagram
    let mut arrivals: Vec<(usize, (u32, u16), (u32, u16), usize, u64)> = vec![];
    for f in &tr.frames {
        let reach: Vec<usize> = if f.to == -2 || f.to == -3 {
            (0..nm).collect()
        } else if f.to >= 0 && (f.to as usize) < nm {
            vec![f.to as usize]
        } else {
            vec![]
        };
        stat(match f.to {
            -2 => "frame to broadcast mac",
            -3 => "frame to no mac (all taps)",
            t if (t as usize) < nm => "frame unicast",
            _ => "frame to nonexistent mac",
        });
        for m in reach {
            arrivals.push((m, f.src, f.dst, f.plen, f.phash));
        }
    }
    for e in emitted.iter().filter(|e| is_loopback(e.2 .0)) {
        stat("loopback arrival");
        arrivals.push(e.clone());
    }
    // (5) every arrival is delivered to the application bound to (address, port), else to the one bound to
    //     (0.0.0.0, port), else to nobody; local = destination, remote = true source, payload unchanged
    let mut expected: Vec<Ev> = vec![];
    for (m, src, dst, len, hash) in &arrivals {
        let b = &bound[*m];
        let exact = b.get(dst);
        let wild = b.get(&(ANY, dst.1));
        let who = exact.or(wild);
        stat(match (exact, wild) {
            (Some(_), Some(_)) if dst.0 != ANY => "arrival: exact binding wins over wildcard",
            (Some(_), _) if dst.0 == BCAST => "arrival: exact limited-broadcast binding",
            (Some(_), _) if dst.0 == ANY => "arrival: addressed to 0.0.0.0 itself",
            (Some(_), _) => "arrival: exact binding",
            (None, Some(_)) => "arrival: wildcard binding",
            (None, None) => {
                if b.keys().any(|k| k.1 == dst.1) {
                    "arrival: none (same port bound to another specific address)"
                } else if b.keys().any(|k| k.0 == dst.0) {
                    "arrival: none (same address bound with another port)"
                } else {
                    "arrival: none"
                }
            }
        });
        if let Some(app) = who {
            expected.push(Ev { kind: 0, app: *app, m: *m, local: *dst, remote: *src, len: *len, hash: *hash });
        }
    }
    let got_udp: Vec<Ev> = tr.evs.iter().filter(|e| e.kind == 0).cloned().collect();
    let wrong = msub(&got_udp, &expected);
    let lost = msub(&expected, &got_udp);
    if let Some(w) = wrong.first() {
        // say what is wrong with it
        let same_dgram: Vec<&Ev> = expected.iter().filter(|x| x.m == w.m && x.local == w.local && x.remote == w.remote).collect();
        let why = if let Some(x) = same_dgram.first() {
            if x.app != w.app {
                format!("delivered to app {} but the binding names app {}", w.app, x.app)
            } else if x.len != w.len || x.hash != w.hash {
                "payload altered".to_string()
            } else {
                "delivered more often than it arrived".to_string()
            }
        } else if arrivals.iter().any(|a| a.0 == w.m && a.2 == w.local && a.1 == w.remote) {
            "delivered although no binding of that machine matches".to_string()
        } else {
            "no such datagram reached that machine (wrong endpoints attached?)".to_string()
        };
        if !has_raw || same_dgram.is_empty() {
            return Err(format!("wrong delivery {}: {}", evstr(w), why));
        }
    }
    if !has_raw {
        if let Some(l) = lost.first() {
            return Err(format!("missing delivery {}", evstr(l)));
        }
        if let Some(e) = tr.evs.iter().find(|e| e.kind == 1) {
            return Err(format!("raw delivery without a raw binding {}", evstr(e)));
        }
    } else {
        stat("raw case (weak oracle)");
    }
    stat(&format!("deliveries {}", match got_udp.len() { 0 => "0", 1..=3 => "1-3", 4..=10 => "4-10", _ => ">10" }));
    Ok(())
}

// ------------------------------------------------------------------ generator

fn pick_w<T: Copy>(rng: &mut Rng, xs: &[(T, u64)]) -> T {
    let total: u64 = xs.iter().map(|x| x.1).sum();
    let mut r = rng.below(total);
    for (x, w) in xs {
        if r < *w {
            return *x;
        }
        r -= *w;
    }
    xs[0].0
}

fn gen_case(rng: &mut Rng, idx: usize) -> Case {
    let nm = 2 + rng.below(4) as usize;
    let allpairs = idx % 5 == 0;
    let raw_case = rng.coin(6, 100);
    let arp_mode = pick_w(rng, &[(0u8, 50), (1, 25), (2, 25)]);
    let mtu: u16 = pick_w(rng, &[(68u16, 1), (100, 3), (576, 3), (1500, 4), (65535, 1)]);
    let lat_us = pick_w(rng, &[(0u64, 3), (500, 1), (2000, 1)]);
    let reply = rng.coin(35, 100);
    let mut machines: Vec<MCfg> = vec![];
    for i in 0..nm {
        let arp = arp_mode == 1 || (arp_mode == 2 && rng.coin(1, 2));
        let napps = 1 + rng.below(4) as usize;
        let mut routes: Vec<(u32, i64)> = vec![];
        let mac = |rng: &mut Rng| -> i64 {
            let k = rng.below(nm as u64) as i64;
            pick_w(rng, &[(-1i64, 50), (k, 40), (9, 10)])
        };
        routes.push((own(i, 1), mac(rng)));
        if rng.coin(7, 10) {
            routes.push((own(i, 2), mac(rng)));
        }
        if rng.coin(4, 10) {
            routes.push((LOOP1, mac(rng)));
        }
        let mut subs = vec![];
        if arp && rng.coin(1, 4) {
            subs.push((own(i, 1), 24u32, own(rng.below(nm as u64) as usize, 1)));
        }
        let mut m = MCfg { arp, napps, subs, routes, listens: vec![] };
        let nl = rng.below(7) as usize;
        for _ in 0..nl {
            let other = rng.below(nm as u64) as usize;
            let addr = pick_w(rng, &[(own(i, 1), 30), (own(i, 2), 10), (ANY, 20), (BCAST, 12), (SHARED, 12), (LOOP1, 6), (own(other, 1), 5), (UNOWNED, 5)]);
            let port = pick_w(rng, &[(PORTS[0], 4), (PORTS[1], 3), (PORTS[2], 1), (PORTS[3], 1), (PORTS[4], 1)]);
            let o_safe = !arp || m.routes.iter().find(|r| r.0 == addr).map(|r| r.1 >= 0).unwrap_or(true);
            let kind = if raw_case && rng.coin(1, 3) {
                2
            } else if o_safe && rng.coin(1, 8) {
                1
            } else {
                0
            };
            m.listens.push(LOp { kind, app: rng.below(napps as u64) as usize, addr, port });
        }
        if !m.listens.is_empty() && rng.coin(1, 3) {
            // a deliberate second bind of an endpoint already bound
            let l = m.listens[rng.below(m.listens.len() as u64) as usize].clone();
            let at = rng.range(1, m.listens.len() as u64) as usize;
            m.listens.insert(at.min(m.listens.len()), LOp { kind: if l.kind == 2 { 2 } else { 0 }, app: rng.below(napps as u64) as usize, ..l });
        }
        machines.push(m);
    }
    // destinations
    let mut targets: Vec<(u32, u16)> = vec![];
    for (j, m) in machines.iter().enumerate() {
        for l in &m.listens {
            targets.push((if l.addr == ANY { own(j, 1) } else { l.addr }, l.port));
        }
    }
    let len_of = |rng: &mut Rng| -> usize {
        let lim = (mtu as usize).saturating_sub(28);
        match pick_w(rng, &[(0u8, 2), (1, 2), (2, 4), (3, 2), (4, 3), (5, 1), (6, 2), (7, 1)]) {
            0 => 0,
            1 => 1,
            2 => rng.range(2, 40) as usize,
            3 => rng.range(0, lim.min(1400) as u64) as usize,
            4 => lim,
            5 => lim.saturating_sub(1),
            6 => lim + 1,
            _ => {
                if rng.coin(1, 4) {
                    pick_w(rng, &[(65508usize, 2), (65528, 1), (70000, 1)])
                } else {
                    lim + 1 + rng.below(50) as usize
                }
            }
        }
    };
    let mut sends: Vec<SOp> = vec![];
    let mut next_port = 1000u16 + rng.below(50000) as u16;
    let mut push = |rng: &mut Rng, m: usize, dst: (u32, u16), sends: &mut Vec<SOp>| {
        let mc = &machines[m];
        let laddr = if rng.coin(9, 10) { mc.routes[rng.below(mc.routes.len() as u64) as usize].0 } else { UNOWNED };
        let sport = if rng.coin(9, 10) {
            next_port = next_port.wrapping_add(1);
            next_port
        } else {
            *rng.pick(&PORTS)
        };
        sends.push(SOp {
            m,
            delay_us: if rng.coin(1, 2) { 0 } else { rng.below(3000) },
            laddr,
            sport,
            daddr: dst.0,
            dport: dst.1,
            len: len_of(rng),
            seed: rng.below(256),
            count: if rng.coin(1, 10) { 2 } else { 1 },
        });
    };
    if allpairs {
        // every sender/receiver pair, the receiver's first binding (or an unbound port when it has none)
        for i in 0..nm {
            for j in 0..nm {
                let dst = machines[j].listens.iter().find(|l| l.kind != 2).map(|l| (if l.addr == ANY { own(j, 1) } else { l.addr }, l.port)).unwrap_or((own(j, 1), 5000));
                push(rng, i, dst, &mut sends);
            }
        }
    }
    let n = 1 + rng.below(if allpairs { 3 } else { 8 }) as usize;
    for _ in 0..n {
        let m = rng.below(nm as u64) as usize;
        let t = if targets.is_empty() { (own(0, 1), 5000) } else { *rng.pick(&targets) };
        let dst = match pick_w(rng, &[(0u8, 62), (1, 10), (2, 10), (3, 6), (4, 5), (5, 4), (6, 3)]) {
            0 => t,
            1 => (t.0, *rng.pick(&PORTS)),                               // same address, maybe another port
            2 => (UNOWNED, t.1),                                         // an address nobody bound, a bound port
            3 => (BCAST, t.1),
            4 => (LOOP1, t.1),
            5 => (own(rng.below(nm as u64) as usize, 2), t.1),
            _ => (ANY, t.1),
        };
        push(rng, m, dst, &mut sends);
    }
    let mut flavor = if rng.coin(12, 100) { *rng.pick(&[2usize, 4]) } else { 0 };
    if flavor > 0 {
        // on the real-time runtime avoid scenarios in which an ARP resolution may time out (2 s each)
        let owned = |a: u32| machines.iter().any(|m| m.arp && m.listens.iter().any(|l| l.addr == a && a != BCAST));
        let risky = machines.iter().any(|m| !m.subs.is_empty())
            || sends.iter().any(|s| machines[s.m].arp && machines[s.m].routes.iter().any(|r| r.0 == s.laddr && r.1 < 0) && !owned(s.daddr));
        if risky {
            flavor = 0;
        }
    }
    Case { flavor, mtu, lat_us, reply, machines, sends }
}

struct C04;
impl Family for C04 {
    fn gen(rng: &mut Rng, idx: usize) -> String {
        gen_case(rng, idx).render()
    }

    fn realtime(case: &str) -> bool {
        Case::parse(case).flavor != 0
    }

    fn run(case_line: &str) -> Outcome {
        let case = Case::parse(case_line);
        stat(if case.flavor == 0 { "runtime current_thread paused" } else { "runtime multi_thread" });
        stat(&format!("machines {}", case.machines.len()));
        stat(&format!("mtu {}", case.mtu));
        stat(match (case.machines.iter().any(|m| m.arp), case.machines.iter().all(|m| m.arp)) {
            (false, _) => "arp on no machine",
            (true, true) => "arp on all machines",
            _ => "arp on some machines",
        });
        if case.machines.iter().any(|m| !m.subs.is_empty()) {
            stat("arp with subnet info");
        }
        if case.reply {
            stat("recorders answer");
        }
        for s in &case.sends {
            let lim = case.mtu as usize - 28;
            stat(if s.len == 0 { "payload 0" } else if s.len == 1 { "payload 1" } else if s.len == lim { "payload = MTU limit" } else if s.len == lim + 1 { "payload = MTU limit + 1" } else if s.len > lim { "payload > MTU limit + 1" } else { "payload typical" });
        }
        let attempts = if case.flavor == 0 { 1 } else { 3 };
        let mut last: Option<Outcome> = None;
        for k in 0..attempts {
            std::env::set_var("C04_SETTLE", if k == 0 { "1" } else { "6" });
            let r = run_child(case_line, Duration::from_secs(60));
            if !r.clean {
                let tail: String = r.stderr_tail.replace('\n', " ");
                let short: String = tail.chars().take(400).collect();
                stat("child crashed or hung");
                return Outcome {
                    impl_line: format!("CRASH exit={:?} timed_out={} err={}", r.exit_code, r.timed_out, digest(tail.as_bytes()) % 100000),
                    oracle: Oracle::Fail(format!("the simulation crashed or hung (exit {:?}, timed out {}): {}", r.exit_code, r.timed_out, short)),
                };
            }
            let tr = build_trace(&case, &r.events, &r.out);
            let line = render_trace(&tr);
            match oracle(&case, &tr) {
                Ok(()) => return Outcome { impl_line: line, oracle: Oracle::Ok },
                Err(msg) => {
                    if k + 1 < attempts {
                        stat("multi_thread run repeated after a failed oracle");
                    }
                    last = Some(Outcome { impl_line: line, oracle: Oracle::Fail(msg) });
                }
            }
        }
        last.unwrap()
    }
}

fn main() {
    if let Some(case) = child_case() {
        child(&case);
    }
    main_loop::<C04>();
}
