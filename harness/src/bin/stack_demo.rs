//! Worked example of a full-stack scenario bin (not registered as a check).
//! case: `<flavor 0=paused|n=multi n> <payload len> <plan: frame index to drop, or -1>`
use elvis::applications::{Capture, SendMessage};
use elvis_core::{
    message::Message,
    new_machine_arc,
    protocols::{
        ipv4::{Ipv4, Ipv4Address, Recipient},
        udp::Udp,
        Endpoint, Pci,
    },
    run_internet_with_timeout, IpTable, Network,
};
use elvis_verif_harness::stack::*;
use elvis_verif_harness::*;
use std::time::Duration;

fn child(case: &str) -> ! {
    let t: Vec<i64> = case.split_whitespace().map(|x| x.parse().unwrap()).collect();
    let flavor = if t[0] == 0 { Flavor::CurrentPaused } else { Flavor::Multi(t[0] as usize) };
    let drop_idx = t[2];
    Recorder::install(
        Box::new(move |idx, _f| {
            if idx as i64 == drop_idx {
                elvis_core::network::verif::FrameFate::Drop
            } else {
                elvis_core::network::verif::FrameFate::Deliver
            }
        }),
        false,
    );
    let out = block_on(flavor, async move {
        start_clock();
        let network = Network::basic();
        register_network(&network);
        let payload: Vec<u8> = (0..t[1] as usize).map(|i| i as u8).collect();
        let message = Message::new(payload);
        let endpoint = Endpoint { address: [123, 45, 67, 89].into(), port: 0xbeef };
        let local: Ipv4Address = [127, 0, 0, 1].into();
        let table: IpTable<Recipient> = [(local, Recipient::with_mac(0, 1))].into_iter().collect();
        let machines = vec![
            new_machine_arc![Udp::new(), Ipv4::new(table.clone()), Pci::new([network.clone()]), SendMessage::new(vec![message.clone()], endpoint)],
            new_machine_arc![Udp::new(), Ipv4::new(Default::default()), Pci::new([network.clone()]), Capture::new(endpoint, 1)],
        ];
        let status = run_internet_with_timeout(&machines, Duration::from_secs(2)).await;
        let got = machines[1].protocol::<Capture>().unwrap().message();
        vec![format!("status {:?}", status), format!("received {}", got.map(|m| m.len() as i64).unwrap_or(-1))]
    });
    child_finish(&out)
}

struct Demo;
impl Family for Demo {
    fn gen(rng: &mut Rng, _idx: usize) -> String {
        format!("{} {} {}", if rng.coin(1, 2) { 0 } else { 2 }, rng.below(1000), rng.range(0, 3) as i64 - 1)
    }
    fn run(case: &str) -> Outcome {
        let r = run_child(case, Duration::from_secs(20));
        let line = format!("clean={} events={} {}", r.clean, r.events.len(), r.out.join(" | "));
        Outcome { impl_line: line, oracle: Oracle::Ok }
    }
}

fn main() {
    if let Some(case) = child_case() {
        child(&case);
    }
    main_loop::<Demo>();
}
