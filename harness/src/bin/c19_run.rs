//! C19 part 2: generated valid descriptions are run through `elvis::ndl::generate_and_run_sim`
//! in a CHILD PROCESS (run_internet installs a panic hook that exits the process) and the exit
//! status is compared with (a) what the scenario was constructed to do and (b) the status the
//! model's reference evaluation (Model/Ndl.v `predict`, on the model's own parse of the text)
//! predicts.
//!
//! Machines may be declared without a `name` (senders with or without count, receivers and forwarders
//! that are then addressed by address only), before and after the named ones; names may be prefixes of
//! each other ("n", "n1", "n10", "n-", "nn" with copies "nn-0", ...).
//!
//! case:   RUN <hex utf-8 text> <expected status by construction> <scenario tag>
//! result: RUN Exited | RUN TimedOut | RUN Status(n) | RUN None (parse error)
//!         | RUN CRASH(code) (the child panicked / exited) | RUN HANG (wall-clock limit)
//!
//! Every message a sender is told to send must arrive: each receiver is a capture that finishes
//! only when it has got exactly the predicted number of messages (type='count') or exactly the
//! predicted text (type='message'), all captures share one factory, so the run ends with Exited
//! only if every capture finished; a lost message shows as TimedOut.  Negative scenarios expect
//! one message more than is sent and must time out (a duplicated message would show as Exited).
//! The child runs on a current-thread runtime with paused time: the timeout fires exactly when
//! the simulation is quiescent.
use elvis_verif_harness::*;
use std::io::Read;
use std::process::{Command, Stdio};
use std::time::{Duration, Instant};

struct Run;

type Args = Vec<(String, String)>;

fn kv(k: &str, v: &str) -> (String, String) {
    (k.to_string(), v.to_string())
}

#[derive(Clone)]
struct Mach {
    args: Args,
    nets: Vec<String>,
    protos: Vec<Args>,
    app: Args,
    order: [u8; 3],
}

const MSG_POOL: [&str; 16] =
    ["Hello", " ", "world!", "é", "\u{1F600}", "\\'", "[", "=", "x", "0", "\"", "\t", "a b", "ZZ", "\u{212A}", "-"];

fn message(rng: &mut Rng) -> String {
    let n = rng.range(1, 5);
    let mut s = String::new();
    for _ in 0..n {
        s.push_str(*rng.pick(&MSG_POOL[..]));
    }
    while s.contains("    ") {
        s = s.replace("    ", "   _");
    }
    s
}

fn port_text(rng: &mut Rng, p: u16) -> String {
    match rng.below(3) {
        0 => format!("0x{:x}", p),
        1 => format!("{}", p),
        _ => format!("0x{:X}", p),
    }
}

struct Scenario {
    nets: Vec<(String, Vec<String>)>, // id, addresses that must be declared
    machines: Vec<Mach>,
    expect: &'static str,
    tag: String,
}

fn protos(rng: &mut Rng, arp: bool) -> (Vec<Args>, Option<(String, String)>) {
    // returns the protocol lines and an optional machine argument (auto-protocol)
    let mut p = vec![];
    let mut auto = None;
    if arp {
        match rng.below(3) {
            0 => {
                p.push(vec![kv("name", "IPv4")]);
                p.push(vec![kv("name", "UDP")]);
                p.push(vec![kv("name", "ARP")]);
            }
            1 => {
                p.push(vec![kv("name", "UDP")]);
                auto = Some(kv("auto-protocol", "true"));
            }
            _ => {
                p.push(vec![kv("name", "ARP")]);
                p.push(vec![kv("name", "UDP")]);
                auto = Some(kv("auto-protocol", "true"));
            }
        }
    } else {
        if rng.coin(1, 2) {
            p.push(vec![kv("name", "IPv4")]);
            p.push(vec![kv("name", "UDP")]);
        } else {
            p.push(vec![kv("name", "UDP")]);
            p.push(vec![kv("name", "IPv4")]);
        }
        if rng.coin(1, 4) {
            auto = Some(kv("auto-protocol", "false"));
        }
    }
    (p, auto)
}

fn gen_scenario(rng: &mut Rng) -> Scenario {
    let order = |rng: &mut Rng| *rng.pick(&[[0u8, 1, 2], [0, 2, 1], [1, 0, 2], [1, 2, 0], [2, 0, 1], [2, 1, 0], [0, 1, 2], [0, 1, 2]]);
    let arp = rng.coin(1, 4);
    let n_nets = rng.range(1, 3) as usize;
    let ids: Vec<String> = ["5", "1", "net-a"].iter().take(n_nets).map(|s| s.to_string()).collect();
    let mut nets: Vec<(String, Vec<String>)> = ids.iter().map(|i| (i.clone(), vec![])).collect();
    let mut machines: Vec<Mach> = vec![];
    let mk = |rng: &mut Rng, name: &str, count: u64, first_net: usize, app: Args, machines: &mut Vec<Mach>| {
        let (p, auto) = protos(rng, arp);
        // an empty name stands for a machine declared without a `name` argument
        let mut args = if name.is_empty() { vec![] } else { vec![kv("name", name)] };
        if count > 1 || rng.coin(1, 5) {
            args.push(kv("count", &count.to_string()));
        }
        if let Some(a) = auto {
            args.push(a);
        }
        let mut ns = vec![ids[first_net].clone()];
        if rng.coin(1, 3) {
            for (j, id) in ids.iter().enumerate() {
                if j != first_net && rng.coin(1, 2) {
                    ns.push(id.clone());
                }
            }
        }
        machines.push(Mach { args, nets: ns, protos: p, app, order: order(rng) });
    };

    if rng.coin(1, 6) {
        // ---- ping_pong family
        let net = rng.below(n_nets as u64) as usize;
        let a_ip = format!("45.{}.7.{}", net, rng.range(1, 120));
        let b_ip = format!("45.{}.7.{}", net, rng.range(121, 250));
        nets[net].1.push(a_ip.clone());
        nets[net].1.push(b_ip.clone());
        let (pa, pb) = (0xbeefu16, 0xfaceu16);
        let starter = *rng.pick(&["true", "t", "T", "True", "false", "f", "no"]);
        let starts = matches!(starter, "true" | "t" | "T" | "True");
        let second = if rng.coin(1, 5) { "true" } else { "false" };
        let by_name = rng.coin(1, 2);
        let a = vec![
            kv("name", "ping_pong"),
            kv("starter", starter),
            kv("ip", &a_ip),
            kv("to", if by_name { "pong" } else { &b_ip }),
            kv("local_port", &port_text(rng, pa)),
            kv("remote_port", &port_text(rng, pb)),
        ];
        let b = vec![
            kv("name", "ping_pong"),
            kv("starter", second),
            kv("ip", &b_ip),
            kv("to", if rng.coin(1, 2) { "ping" } else { &a_ip }),
            kv("local_port", &port_text(rng, pb)),
            kv("remote_port", &port_text(rng, pa)),
        ];
        mk(rng, "ping", 1, net, a, &mut machines);
        mk(rng, "pong", 1, net, b, &mut machines);
        let expect = if starts || second == "true" { "Exited" } else { "TimedOut" };
        return Scenario { nets, machines, expect, tag: format!("pingpong{}", if arp { "_arp" } else { "" }) };
    }

    // ---- message / forward / capture family
    // names: the plain scheme, or names that are prefixes of each other (and of the "-i" copies of a
    // counted machine); receivers / forwarders / senders may also be declared without a name
    let prefix_names = rng.coin(1, 3);
    let rname = |j: usize| if prefix_names { ["n", "n1", "n10"][j].to_string() } else { format!("recv{}", j) };
    let fname = |j: usize| if prefix_names { ["n-", "n1-x"][j].to_string() } else { format!("fwd{}", j) };
    let sname = |j: usize| if prefix_names { ["nn", "n0", "n100", "n1-", "nnn"][j].to_string() } else { format!("send{}", j) };
    let n_recv = rng.range(1, 3) as usize;
    let n_fwd = rng.range(0, 2) as usize;
    let n_send = rng.range(n_recv as u64, n_recv as u64 + 2) as usize;
    // receivers: (name, net, ip, port)
    let mut recv: Vec<(String, usize, String, u16)> = vec![];
    for j in 0..n_recv {
        let net = rng.below(n_nets as u64) as usize;
        let ip = format!("45.{}.7.{}", net, 10 + j);
        nets[net].1.push(ip.clone());
        let name = if rng.coin(1, 5) { String::new() } else { rname(j) };
        recv.push((name, net, ip, *rng.pick(&[0xbeefu16, 0xface, 1234, 65535, 1])));
    }
    // forwarders: (name, net, ip, local port, target index: <n_recv receiver, else forwarder)
    let mut fwd: Vec<(String, usize, String, u16, usize)> = vec![];
    for j in 0..n_fwd {
        let target = if j > 0 && rng.coin(1, 3) { n_recv + rng.below(j as u64) as usize } else { rng.below(n_recv as u64) as usize };
        let net = if target < n_recv { recv[target].1 } else { fwd[target - n_recv].1 };
        let ip = format!("45.{}.7.{}", net, 40 + j);
        nets[net].1.push(ip.clone());
        let name = if rng.coin(1, 5) { String::new() } else { fname(j) };
        fwd.push((name, net, ip, *rng.pick(&[0xbeefu16, 0x1000, 4321]), target));
    }
    // final receiver of a target index
    let final_of = |mut t: usize| -> usize {
        while t >= n_recv {
            t = fwd[t - n_recv].4;
        }
        t
    };
    let addr_of = |t: usize| -> (String, String, usize, u16) {
        if t < n_recv {
            (recv[t].0.clone(), recv[t].2.clone(), recv[t].1, recv[t].3)
        } else {
            let f = &fwd[t - n_recv];
            (f.0.clone(), f.2.clone(), f.1, f.3)
        }
    };
    // senders; the first n_recv of them cover every receiver
    let mut got: Vec<Vec<String>> = vec![vec![]; n_recv];
    let mut senders: Vec<Mach> = vec![];
    for j in 0..n_send {
        let target = if j < n_recv {
            // directly or through a forwarder that ends at receiver j
            let via: Vec<usize> = (0..n_fwd).filter(|f| final_of(n_recv + f) == j).map(|f| n_recv + f).collect();
            if !via.is_empty() && rng.coin(1, 2) { *rng.pick(&via) } else { j }
        } else {
            rng.below((n_recv + n_fwd) as u64) as usize
        };
        let (tname, tip, tnet, tport) = addr_of(target);
        let count = if rng.coin(1, 2) { 1 } else { rng.range(2, 4) };
        let msg = message(rng);
        for _ in 0..count {
            got[final_of(target)].push(msg.clone());
        }
        let mut app = vec![
            kv("name", "send_message"),
            kv("message", &msg),
            kv("to", if !tname.is_empty() && rng.coin(2, 3) { &tname } else { &tip }),
            kv("port", &port_text(rng, tport)),
        ];
        if count == 1 && rng.coin(1, 4) {
            // a sender with its own declared address
            let ip = format!("45.{}.7.{}", tnet, 70 + j);
            nets[tnet].1.push(ip.clone());
            app.push(kv("ip", &ip));
        }
        let mut tmp = vec![];
        let name = if rng.coin(1, 2) { String::new() } else { sname(j) };
        mk(rng, &name, count, tnet, app, &mut tmp);
        senders.push(tmp.pop().unwrap());
    }
    // captures
    let negative = rng.coin(1, 6);
    let neg_idx = rng.below(n_recv as u64) as usize;
    let factory = n_recv > 1 || rng.coin(1, 3);
    let mut caps: Vec<Mach> = vec![];
    for (j, r) in recv.iter().enumerate() {
        let mut app = vec![kv("name", "capture"), kv("ip", &r.2), kv("port", &port_text(rng, r.3))];
        let n = got[j].len() + if negative && j == neg_idx { 1 } else { 0 };
        let same = got[j].iter().all(|m| *m == got[j][0]);
        let mut text = got[j].concat();
        if negative && j == neg_idx {
            text.push_str(&got[j][0]);
        }
        // (a concatenation with a run of four spaces would be rewritten to a tab by the parser)
        if same && !text.contains("    ") && rng.coin(1, 2) {
            app.push(kv("type", "message"));
            app.push(kv("message", &text));
        } else if n == 1 && rng.coin(1, 2) {
            // no type: one message (message_count is ignored without type='count')
            if rng.coin(1, 2) {
                app.push(kv("message_count", "7"));
            }
        } else {
            app.push(kv("type", "count"));
            app.push(kv("message_count", &n.to_string()));
        }
        if factory {
            app.push(kv("factory", "f1"));
        }
        let mut tmp = vec![];
        mk(rng, &r.0, 1, r.1, app, &mut tmp);
        caps.push(tmp.pop().unwrap());
    }
    let mut fwds: Vec<Mach> = vec![];
    for f in fwd.iter() {
        let (tname, tip, _tnet, tport) = addr_of(f.4);
        let app = vec![
            kv("name", "forward"),
            kv("ip", &f.2),
            kv("to", if !tname.is_empty() && rng.coin(2, 3) { &tname } else { &tip }),
            kv("local_port", &port_text(rng, f.3)),
            kv("remote_port", &port_text(rng, tport)),
        ];
        let mut tmp = vec![];
        mk(rng, &f.0, 1, f.1, app, &mut tmp);
        fwds.push(tmp.pop().unwrap());
    }
    // machine order: any interleaving (names are resolved in a first pass over all machines)
    let mut all: Vec<Mach> = senders.into_iter().chain(caps).chain(fwds).collect();
    for i in (1..all.len()).rev() {
        let j = rng.below(i as u64 + 1) as usize;
        all.swap(i, j);
    }
    // unnamed machines all before, or all after, the named ones in half of the scenarios
    let unnamed = |m: &Mach| !m.args.iter().any(|(k, _)| k == "name");
    match rng.below(4) {
        0 => all.sort_by_key(|m| !unnamed(m)),
        1 => all.sort_by_key(|m| unnamed(m)),
        _ => {}
    }
    machines.extend(all);
    // without a factory and with one receiver only: a negative case needs that receiver to be the negative one
    let expect = if negative { "TimedOut" } else { "Exited" };
    Scenario {
        nets,
        machines,
        expect,
        tag: format!(
            "msg_r{}_f{}{}{}{}",
            n_recv,
            n_fwd,
            if prefix_names { "_pfx" } else { "" },
            if arp { "_arp" } else { "" },
            if negative { "_neg" } else { "" }
        ),
    }
}

fn render(rng: &mut Rng, sc: &Scenario) -> String {
    let spaces = rng.coin(1, 3);
    let crlf = rng.coin(1, 3);
    let mut out = String::new();
    let mut line = |out: &mut String, depth: usize, ty: &str, args: &Args| {
        for _ in 0..depth {
            out.push_str(if spaces { "    " } else { "\t" });
        }
        out.push('[');
        out.push_str(ty);
        for (k, v) in args {
            out.push(' ');
            out.push_str(k);
            out.push_str("='");
            out.push_str(v);
            out.push('\'');
        }
        out.push(']');
        out.push_str(if crlf { "\r\n" } else { "\n" });
    };
    line(&mut out, 0, "Networks", &vec![]);
    for (id, addrs) in &sc.nets {
        line(&mut out, 1, "Network", &vec![kv("id", id)]);
        // declare every needed address: singly or inside a range
        let mut last: Vec<u32> = addrs.iter().map(|a| a.rsplit('.').next().unwrap().parse().unwrap()).collect();
        last.sort();
        last.dedup();
        let prefix = addrs.first().map(|a| a.rsplitn(2, '.').nth(1).unwrap().to_string()).unwrap_or_else(|| "45.9.9".into());
        if last.is_empty() {
            line(&mut out, 2, "IP", &vec![kv("ip", &format!("{}.1", prefix))]);
        }
        let mut i = 0;
        while i < last.len() {
            if rng.coin(1, 2) {
                line(&mut out, 2, "IP", &vec![kv("ip", &format!("{}.{}", prefix, last[i]))]);
                i += 1;
            } else {
                // a range from this address up to (at most) the one before the next needed block, at most 254
                let mut j = i;
                while j + 1 < last.len() && rng.coin(2, 3) {
                    j += 1;
                }
                let mut hi = (last[j] + rng.below(3) as u32).min(if j + 1 < last.len() { last[j + 1] - 1 } else { 254 });
                if j + 1 == last.len() && rng.coin(1, 40) {
                    hi = 255; // boundary: the last address of the block
                }
                line(&mut out, 2, "IP", &vec![kv("range", &format!("{}.{}-{}", prefix, last[i], hi))]);
                i = j + 1;
            }
        }
    }
    line(&mut out, 0, "Machines", &vec![]);
    for m in &sc.machines {
        line(&mut out, 1, "Machine", &m.args);
        for s in m.order.iter() {
            match s {
                0 => {
                    line(&mut out, 2, "Networks", &vec![]);
                    for id in &m.nets {
                        line(&mut out, 3, "Network", &vec![kv("id", id)]);
                    }
                }
                1 => {
                    line(&mut out, 2, "Protocols", &vec![]);
                    for p in &m.protos {
                        line(&mut out, 3, "Protocol", p);
                    }
                }
                _ => {
                    line(&mut out, 2, "Applications", &vec![]);
                    line(&mut out, 3, "Application", &m.app);
                }
            }
        }
    }
    out
}

fn scratch_path(tag: &str) -> String {
    let _ = std::fs::create_dir_all("/verif/.cache/ndl");
    format!("/verif/.cache/ndl/run-{}-{}.ndl", std::process::id(), tag)
}

/// run the description in a child process; returns the status token
fn run_child(text: &str) -> String {
    let path = scratch_path("case");
    std::fs::write(&path, text.as_bytes()).expect("scratch file");
    let exe = std::env::current_exe().expect("current exe");
    let mut child = Command::new(exe)
        .arg("--child")
        .arg(&path)
        .stdout(Stdio::piped())
        .stderr(Stdio::null())
        .spawn()
        .expect("spawn child");
    let start = Instant::now();
    let limit = Duration::from_secs(40);
    let status = loop {
        match child.try_wait().expect("wait") {
            Some(st) => break Some(st),
            None => {
                if start.elapsed() > limit {
                    let _ = child.kill();
                    let _ = child.wait();
                    break None;
                }
                std::thread::sleep(Duration::from_millis(2));
            }
        }
    };
    let mut out = String::new();
    if let Some(mut so) = child.stdout.take() {
        let _ = so.read_to_string(&mut out);
    }
    let _ = std::fs::remove_file(&path);
    match status {
        None => "HANG".into(),
        Some(st) => {
            for l in out.lines() {
                if let Some(r) = l.strip_prefix("STATUS ") {
                    return r.trim().to_string();
                }
            }
            format!("CRASH({})", st.code().map(|c| c.to_string()).unwrap_or_else(|| "signal".into()))
        }
    }
}

/// Pass-through link observer: every frame is delivered unchanged.  (Installed so that the run does not
/// depend on what the verification hook in elvis-core does when no observer is present.)
struct PassThrough;
impl elvis_core::network::verif::Observer for PassThrough {
    fn on_send(&self, _frame: &elvis_core::network::verif::FrameInfo) -> elvis_core::network::verif::FrameFate {
        elvis_core::network::verif::FrameFate::Deliver
    }
    fn on_delivery(&self, _frame: &elvis_core::network::verif::FrameInfo, _tap: Option<elvis_core::network::Mac>) {}
}

fn child_main(path: &str) {
    elvis_core::network::verif::install(std::sync::Arc::new(PassThrough));
    let rt = tokio::runtime::Builder::new_current_thread()
        .enable_all()
        .start_paused(true)
        .build()
        .expect("runtime");
    let r = rt.block_on(elvis::ndl::generate_and_run_sim(path.to_string(), Some(Duration::from_secs(5))));
    match r {
        None => println!("STATUS None"),
        Some(s) => println!("STATUS {:?}", s),
    }
    // leave without running destructors of still-running tasks
    std::process::exit(0);
}

impl Family for Run {
    fn gen(rng: &mut Rng, idx: usize) -> String {
        // the repository's own valid descriptions first
        let fixed = [
            "tests/generator_tests/valid/basic/message_valid.txt",
            "tests/generator_tests/valid/basic/message_ip_valid.txt",
            "tests/generator_tests/valid/basic/forward_valid.txt",
            "tests/generator_tests/valid/basic/forward_ip_valid.txt",
            "tests/generator_tests/valid/basic/pingpong_valid.txt",
            "tests/generator_tests/valid/basic/pingpong_ip_valid.txt",
            "tests/generator_tests/valid/capture/single_capture.txt",
            "tests/generator_tests/valid/capture/single_message.txt",
            "tests/generator_tests/valid/capture/factory_capture.txt",
        ];
        if idx < fixed.len() {
            let root = std::env::var("VERIF_NDL_ROOT").unwrap_or_else(|_| "/repo/sim/elvis".into());
            let s = std::fs::read_to_string(format!("{}/{}", root, fixed[idx])).expect("fixture");
            return format!("RUN {} Exited fixture", hex(s.as_bytes()));
        }
        let sc = gen_scenario(rng);
        let text = render(rng, &sc);
        format!("RUN {} {} {}", hex(text.as_bytes()), sc.expect, sc.tag)
    }

    fn run(case: &str) -> Outcome {
        let t: Vec<&str> = case.split_whitespace().collect();
        let text = String::from_utf8(unhex(t[1])).expect("utf-8");
        let expect = t.get(2).copied().unwrap_or("Exited");
        let tag = t.get(3).copied().unwrap_or("?");
        stat(&format!("scenario_{}", tag));
        stat(&format!("expect_{}", expect));
        if text.contains("    ") {
            stat("render_4sp");
        }
        if text.contains('\r') {
            stat("render_crlf");
        }
        if text.contains("-255'") {
            stat("range_to_255");
        }
        for part in text.split("to='").skip(1) {
            stat(if part.starts_with("45.") || part.starts_with("12") { "wired_by_address" } else { "wired_by_name" });
        }
        // machines without a name, by role and position relative to named machines
        let mlines: Vec<&str> = text.lines().filter(|l| l.trim_start().starts_with("[Machine ") || l.trim() == "[Machine]").collect();
        let mut seen_named = false;
        for (i, l) in mlines.iter().enumerate() {
            if l.contains(" name='") {
                seen_named = true;
            } else {
                stat("machine_unnamed");
                if l.contains("count='") && !l.contains("count='1'") {
                    stat("machine_unnamed_counted");
                }
                if seen_named {
                    stat("machine_unnamed_after_named");
                }
                if mlines[i + 1..].iter().any(|x| x.contains(" name='")) {
                    stat("machine_unnamed_before_named");
                }
            }
        }
        let got = run_child(&text);
        stat(&format!("status_{}", got.split('(').next().unwrap_or("?")));
        let oracle = if got == expect {
            Oracle::Ok
        } else {
            Oracle::Fail(format!("scenario {} was built to end with {} but the run gave {}", tag, expect, got))
        };
        Outcome { impl_line: format!("RUN {}", got), oracle }
    }
}

fn main() {
    let a: Vec<String> = std::env::args().collect();
    if a.len() >= 3 && a[1] == "--child" {
        child_main(&a[2]);
        return;
    }
    main_loop::<Run>();
}
