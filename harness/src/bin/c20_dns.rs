//! C20 (name resolution returns the registered address and caches it): full-stack scenarios on the real
//! `DnsServer` / `DnsClient` / `SocketAPI` / `Udp` / `Ipv4` / `Arp` / `Pci`, wired exactly as
//! sim/elvis/src/simulations/dns_basic.rs (one `Network::basic()`, default route through slot 0, server at
//! `Ipv4Address::DNS_AUTH`).
//!
//! case: `F <flavor 0=paused|n=multi n> X <conn: -1 = one per lookup | e>=0 = predicted misses + e - 1 (0: one too few)>
//!        R <k> { <name hex> <address u32> }            records given to DnsServer::add_mapping before the run, in order
//!        C <n> { <nb> { <m> { <kind 0=get_host_by_name|1=connect_by_name> <record index | k+j = unregistered name j> } } }
//!                                                      client c runs its batches one after the other, the m lookups of a
//!                                                      batch concurrently
//!        (one case in five: 2..4 almost equal names - ASCII case, trailing dots, prefixes, one non-ASCII byte - with
//!        different addresses, resolved by the same client one after the other and concurrently, then again from the cache)
//!        D <pct> <max_us> <seed>`                      frame i is delayed by h(seed,i) % (max_us+1) us with probability pct%
//! impl line: events in log order separated by ` ; `:
//!   `N <conn>`                       the argument given to DnsServer::new
//!   `L <c> <h> <name hex>`           lookup h of client c starts (logged right before the resolver is called)
//!   `Q <c> <port> <payload hex>`     UDP datagram c:port -> DNS_AUTH:53 handed to the network
//!   `A <c> <port> <payload hex>`     UDP datagram DNS_AUTH:53 -> c:port handed to the network
//!   `R <c> <h> <name hex> <addr>`    lookup h returned Ok(addr)
//!   `M <c> <name hex> <addr|-1>`     cache of client c after the run (DnsClient::get_mapping)
//!   `E <DONE|HANG|CRASH <file>:<line>:<error kind in the panic message>>` how the run ended
use elvis_core::{
    machine::Machine,
    message::Message,
    network::verif::FrameFate,
    new_machine_arc,
    protocol::{DemuxError, StartError},
    protocols::{
        dns::{dns_client::DnsClient, dns_server::DnsServer},
        ipv4::{Ipv4, Ipv4Address, Recipient},
        socket_api::socket::{ProtocolFamily, SocketType},
        tcp::Tcp,
        udp::Udp,
        Arp, Pci, SocketAPI,
    },
    run_internet, Control, IpTable, Network, Protocol, Session, Shutdown,
};
use elvis_verif_harness::stack::*;
use elvis_verif_harness::*;
use std::collections::{BTreeMap, BTreeSet};
use std::sync::atomic::{AtomicUsize, Ordering};
use std::sync::{Arc, Mutex};
use std::time::Duration;
use tokio::sync::{Barrier, Notify};

const DNS_AUTH: u32 = 0x0103_0307;
const DELIM: u8 = b' ';

// ------------------------------------------------------------------ case

#[derive(Clone, Debug)]
struct Cfg {
    flavor: usize,
    conn: i64,
    records: Vec<(Vec<u8>, u32)>,
    /// clients -> batches -> (kind, record index)
    clients: Vec<Vec<Vec<(u8, usize)>>>,
    dpct: u64,
    dmax_us: u64,
    dseed: u64,
}

fn parse(case: &str) -> Cfg {
    let t: Vec<&str> = case.split_whitespace().collect();
    let mut p = 0usize;
    let key = |e: &str, p: &mut usize| {
        assert_eq!(t[*p], e, "case syntax");
        *p += 1;
    };
    let int = |p: &mut usize| -> i64 {
        let v: i64 = t[*p].parse().expect("int");
        *p += 1;
        v
    };
    key("F", &mut p);
    let flavor = int(&mut p) as usize;
    key("X", &mut p);
    let conn = int(&mut p);
    key("R", &mut p);
    let k = int(&mut p);
    let mut records = vec![];
    for _ in 0..k {
        let n = unhex(t[p]);
        p += 1;
        records.push((n, int(&mut p) as u32));
    }
    key("C", &mut p);
    let n = int(&mut p);
    let mut clients = vec![];
    for _ in 0..n {
        let nb = int(&mut p);
        let mut batches = vec![];
        for _ in 0..nb {
            let m = int(&mut p);
            batches.push((0..m).map(|_| (int(&mut p) as u8, int(&mut p) as usize)).collect());
        }
        clients.push(batches);
    }
    key("D", &mut p);
    let dpct = int(&mut p) as u64;
    let dmax_us = int(&mut p) as u64;
    let dseed = int(&mut p) as u64;
    Cfg { flavor, conn, records, clients, dpct, dmax_us, dseed }
}

impl Cfg {
    /// name of lookup target `r`: a record's name, or a name nobody registered
    fn name_of(&self, r: usize) -> Vec<u8> {
        if r < self.records.len() {
            self.records[r].0.clone()
        } else {
            format!("unregistered-{}.example", r - self.records.len()).into_bytes()
        }
    }
    /// what the records say (the property's reference): the last registration of a name wins
    fn registered(&self, name: &[u8]) -> Option<u32> {
        self.records.iter().rev().find(|(n, _)| n == name).map(|(_, a)| *a)
    }
    fn total_lookups(&self) -> usize {
        self.clients.iter().map(|b| b.iter().map(|x| x.len()).sum::<usize>()).sum()
    }
    /// lookups that find nothing in the cache when every lookup of a batch checks the cache before any reply of
    /// that batch arrives (a batch starts when the previous one has returned completely)
    fn predicted_misses(&self) -> usize {
        let mut n = 0;
        for batches in &self.clients {
            let mut known: BTreeSet<Vec<u8>> = BTreeSet::new();
            for b in batches {
                let mut newly = vec![];
                for (_, r) in b {
                    let name = self.name_of(*r);
                    if !known.contains(&name) {
                        n += 1;
                        newly.push(name);
                    }
                }
                known.extend(newly);
            }
        }
        n
    }
    /// DnsServer::new(num_connections)
    fn connections(&self) -> usize {
        let n = if self.conn < 0 { self.total_lookups() as i64 } else { self.predicted_misses() as i64 + self.conn - 1 };
        n.clamp(1, 65535) as usize
    }
    fn client_ip(c: usize) -> u32 {
        0x0A00_000A + c as u32
    }
}

fn mix(seed: u64, i: u64) -> u64 {
    let mut r = Rng::new(seed.wrapping_mul(0x1000_0000_01B3) ^ i.wrapping_mul(0x9E37_79B9));
    r.next_u64()
}

// ------------------------------------------------------------------ child: the real simulation

static MYLOG: Mutex<Vec<String>> = Mutex::new(Vec::new());
static FINISHED: AtomicUsize = AtomicUsize::new(0);
static NEXT_H: AtomicUsize = AtomicUsize::new(0);

fn ev(s: String) {
    MYLOG.lock().unwrap().push(s);
}

/// The harness application of a client machine: calls the real resolver as the case says.
struct Resolver {
    c: usize,
    batches: Vec<Vec<(u8, Vec<u8>)>>,
    nclients: usize,
    done: Arc<Notify>,
}

async fn one_lookup(c: usize, kind: u8, name: Vec<u8>, machine: Arc<Machine>) {
    let h = NEXT_H.fetch_add(1, Ordering::SeqCst);
    let text = String::from_utf8(name.clone()).expect("case names are UTF-8");
    let dns = machine.protocol::<DnsClient>().expect("DnsClient");
    if kind == 0 {
        ev(format!("L {} {} {} 0", c, h, hex(&name)));
        let r = dns.get_host_by_name(text, machine.clone()).await;
        match r {
            Ok(ip) => ev(format!("R {} {} {} {}", c, h, hex(&name), ip.to_u32())),
            Err(e) => ev(format!("R {} {} {} ERR-{:?}", c, h, hex(&name), e)),
        }
    } else {
        // Socket::connect_by_name (socket.rs l.73-87): the resolver is called through the sockets API
        let sockets = machine.protocol::<SocketAPI>().expect("SocketAPI");
        let mut socket = sockets.new_socket(ProtocolFamily::INET, SocketType::Datagram, machine.clone()).await.unwrap();
        ev(format!("L {} {} {} 1", c, h, hex(&name)));
        // connecting to an address nobody owns fails after the ARP retries; only the resolution is observed here
        let _ = socket.connect_by_name(text.clone(), 0xbeef).await;
        // the socket does not show its remote address; the address it connected to is what the cache holds
        match dns.get_mapping(&text) {
            Ok(ip) => ev(format!("R {} {} {} {}", c, h, hex(&name), ip.to_u32())),
            Err(e) => ev(format!("R {} {} {} ERR-{:?}", c, h, hex(&name), e)),
        }
    }
}

#[async_trait::async_trait]
impl Protocol for Resolver {
    async fn start(&self, _shutdown: Shutdown, initialized: Arc<Barrier>, machine: Arc<Machine>) -> Result<(), StartError> {
        initialized.wait().await;
        let batches = self.batches.clone();
        let (c, n, done) = (self.c, self.nclients, self.done.clone());
        tokio::spawn(async move {
            for b in batches {
                let mut hs = vec![];
                for (kind, name) in b {
                    hs.push(tokio::spawn(one_lookup(c, kind, name, machine.clone())));
                }
                for h in hs {
                    let _ = h.await;
                }
            }
            if FINISHED.fetch_add(1, Ordering::SeqCst) + 1 == n {
                done.notify_one();
            }
        });
        Ok(())
    }
    fn demux(&self, _m: Message, _c: Arc<dyn Session>, _ctl: Control, _machine: Arc<Machine>) -> Result<(), DemuxError> {
        Ok(())
    }
}

fn dump_and_flush(extra: &[String]) {
    use std::io::Write;
    let stdout = std::io::stdout();
    let mut w = stdout.lock();
    // the panicking task never holds the log; other threads hold it only while they append
    let g = match MYLOG.lock() {
        Ok(g) => g,
        Err(p) => p.into_inner(),
    };
    for l in g.iter() {
        let _ = writeln!(w, "OUT {}", l);
    }
    drop(g);
    for l in extra {
        let _ = writeln!(w, "OUT {}", l.replace('\n', " "));
    }
    let _ = w.flush();
}

fn child(case: &str) -> ! {
    let cfg = parse(case);
    let flavor = if cfg.flavor == 0 { Flavor::CurrentPaused } else { Flavor::Multi(cfg.flavor) };
    // run_internet chains the hook that is installed when it starts, prints a backtrace and exits the process
    // with code 1: this hook writes the trace collected so far and the panic location, then exits the same way
    std::panic::set_hook(Box::new(|info| {
        // two tasks may panic at the same time on a multi-thread runtime: the first one reports
        static REPORTED: std::sync::atomic::AtomicBool = std::sync::atomic::AtomicBool::new(false);
        if REPORTED.swap(true, Ordering::SeqCst) {
            loop {
                std::thread::sleep(Duration::from_secs(1));
            }
        }
        let loc = info.location().map(|l| format!("{}:{}", l.file(), l.line())).unwrap_or_else(|| "?".into());
        let msg = if let Some(s) = info.payload().downcast_ref::<&str>() {
            s.to_string()
        } else if let Some(s) = info.payload().downcast_ref::<String>() {
            s.clone()
        } else {
            "?".into()
        };
        dump_and_flush(&[format!("PANIC {} | {}", loc, msg)]);
        // what run_internet's own hook does next, without the (slow) symbolised backtrace on stderr
        std::process::exit(1);
    }));
    let (dpct, dmax, dseed) = (cfg.dpct, cfg.dmax_us, cfg.dseed);
    Recorder::install(
        Box::new(move |idx, f| {
            let fate = if dmax > 0 && mix(dseed, idx as u64 * 2) % 100 < dpct {
                FrameFate::Delay(Duration::from_micros(mix(dseed, idx as u64 * 2 + 1) % (dmax + 1)))
            } else {
                FrameFate::Deliver
            };
            let d = match fate {
                FrameFate::Delay(d) => d.as_nanos(),
                _ => 0,
            };
            ev(format!("F {} {} {} {} {}", idx, f.sender, proto_name(f.protocol), d, hex(&f.message.to_vec())));
            fate
        }),
        false,
    );
    let cfg2 = cfg.clone();
    let out = block_on(flavor, async move {
        start_clock();
        let cfg = cfg2;
        let network = Network::basic();
        register_network(&network);
        let ip_table: IpTable<Recipient> = [("0.0.0.0/0", Recipient::new(0, None))].into_iter().collect();
        let server = DnsServer::new(cfg.connections() as u16);
        for (n, a) in &cfg.records {
            server.add_mapping(String::from_utf8(n.clone()).expect("case names are UTF-8"), Ipv4Address::from(*a));
        }
        let done = Arc::new(Notify::new());
        let mut machines = vec![new_machine_arc![
            Udp::new(),
            Tcp::new(),
            Ipv4::new(ip_table.clone()),
            Arp::new(),
            Pci::new([network.clone()]),
            SocketAPI::new(Some(Ipv4Address::DNS_AUTH)),
            server,
        ]];
        for (c, batches) in cfg.clients.iter().enumerate() {
            let b: Vec<Vec<(u8, Vec<u8>)>> = batches.iter().map(|x| x.iter().map(|(k, r)| (*k, cfg.name_of(*r))).collect()).collect();
            machines.push(new_machine_arc![
                Udp::new(),
                Tcp::new(),
                Ipv4::new(ip_table.clone()),
                Arp::new(),
                Pci::new([network.clone()]),
                SocketAPI::new(Some(Ipv4Address::from(Cfg::client_ip(c)))),
                DnsClient::new(),
                Resolver { c, batches: b, nclients: cfg.clients.len(), done: done.clone() },
            ]);
        }
        let paused = cfg.flavor == 0;
        // the harness decides when to stop observing; the simulation is never told to shut down
        let how = tokio::select! {
            st = run_internet(&machines, None) => format!("EXIT-{:?}", st),
            _ = done.notified() => "DONE".to_string(),
            _ = tokio::time::sleep(if paused { Duration::from_secs(3600) } else { Duration::from_secs(20) }) => "HANG".to_string(),
        };
        // stray frames (a late or repeated reply, traffic after a cached lookup) would show up here
        tokio::time::sleep(if paused { Duration::from_secs(60) } else { Duration::from_millis(25) }).await;
        let mut out = vec![];
        for (c, m) in machines.iter().skip(1).enumerate() {
            let dns = m.protocol::<DnsClient>().unwrap();
            let mut names: BTreeSet<Vec<u8>> = cfg.records.iter().map(|(n, _)| n.clone()).collect();
            for b in &cfg.clients[c] {
                for (_, r) in b {
                    names.insert(cfg.name_of(*r));
                }
            }
            for n in names {
                let v = match dns.get_mapping(&String::from_utf8(n.clone()).unwrap()) {
                    Ok(ip) => ip.to_u32() as i64,
                    Err(_) => -1,
                };
                out.push(format!("M {} {} {}", c, hex(&n), v));
            }
        }
        out.push(format!("S {} {}", how, FINISHED.load(Ordering::SeqCst)));
        out
    });
    let mut all = MYLOG.lock().unwrap().clone();
    all.extend(out);
    child_finish(&all)
}

// ------------------------------------------------------------------ parent: trace -> impl line, oracle

#[derive(Clone, Debug, PartialEq)]
enum Ev {
    L { c: usize, h: usize, name: Vec<u8>, kind: u8 },
    Q { c: usize, port: u16, from: u64, payload: Vec<u8> },
    A { c: usize, port: u16, payload: Vec<u8> },
    R { c: usize, h: usize, name: Vec<u8>, res: Result<u32, String> },
    /// any other frame: sender MAC, protocol name
    O { from: u64, proto: String },
    M { c: usize, name: Vec<u8>, addr: i64 },
}

/// IPv4 + UDP: (src, dst, sport, dport, payload)
fn parse_udp(b: &[u8]) -> Option<(u32, u32, u16, u16, Vec<u8>)> {
    if b.len() < 28 || b[0] >> 4 != 4 {
        return None;
    }
    let ihl = (b[0] & 15) as usize * 4;
    if b[9] != 17 || b.len() < ihl + 8 {
        return None;
    }
    // a fragment would not carry a UDP header (Network::basic() has no MTU: never happens here)
    if (u16::from_be_bytes([b[6], b[7]]) & 0x3fff) != 0 {
        return None;
    }
    let src = u32::from_be_bytes([b[12], b[13], b[14], b[15]]);
    let dst = u32::from_be_bytes([b[16], b[17], b[18], b[19]]);
    let u = &b[ihl..];
    Some((src, dst, u16::from_be_bytes([u[0], u[1]]), u16::from_be_bytes([u[2], u[3]]), u[8..].to_vec()))
}

/// The oracle's own reading of a DNS datagram (dns_parsing.rs layout): id, flags, qname, answer name, rdata
fn read_dns(p: &[u8]) -> Option<(u16, u16, Vec<u8>, Vec<u8>, Vec<u8>)> {
    if p.len() < 12 {
        return None;
    }
    let id = u16::from_be_bytes([p[0], p[1]]);
    let fl = u16::from_be_bytes([p[2], p[3]]);
    let q_end = 12 + p[12..].iter().position(|x| *x == DELIM)?;
    let qname = p[12..q_end].to_vec();
    let a_start = q_end + 1 + 4;
    if p.len() < a_start {
        return None;
    }
    let a_end = a_start + p[a_start..].iter().position(|x| *x == DELIM)?;
    let aname = p[a_start..a_end].to_vec();
    let rd = a_end + 1 + 8;
    if p.len() < rd + 2 {
        return None;
    }
    let rdlen = u16::from_be_bytes([p[rd], p[rd + 1]]) as usize;
    if p.len() != rd + 2 + rdlen {
        return None;
    }
    Some((id, fl, qname, aname, p[rd + 2..].to_vec()))
}

fn location_class(panic_line: &str) -> String {
    // `PANIC <file>:<line> | msg` -> `<basename>:<line>:<kind of error in the message>`
    let mut it = panic_line.splitn(2, " | ");
    let loc = it.next().unwrap_or("?").trim_start_matches("PANIC ").trim();
    let msg = it.next().unwrap_or("");
    let kind = if msg.contains("HeaderTooShort") {
        "HeaderTooShort"
    } else if msg.contains("InvalidName") {
        "InvalidName"
    } else if msg.contains("Cache") {
        "Cache"
    } else if msg.contains("Utf8") || msg.contains("utf-8") {
        "Utf8"
    } else if msg.contains("index out of bounds") {
        "Index"
    } else if msg.contains("overflow") {
        "Overflow"
    } else {
        "Other"
    };
    format!("{}:{}", loc.rsplit('/').next().unwrap_or(loc), kind)
}

struct Parsed {
    evs: Vec<Ev>,
    end: String,
}

fn digest(cfg: &Cfg, r: &ChildResult) -> Parsed {
    let mut evs = vec![];
    let mut end = String::new();
    let mut panic_line = None;
    for l in &r.out {
        let t: Vec<&str> = l.split(' ').collect();
        match t[0] {
            "L" => evs.push(Ev::L { c: t[1].parse().unwrap(), h: t[2].parse().unwrap(), name: unhex(t[3]), kind: t[4].parse().unwrap() }),
            "R" => evs.push(Ev::R {
                c: t[1].parse().unwrap(),
                h: t[2].parse().unwrap(),
                name: unhex(t[3]),
                res: t[4].parse::<u32>().map_err(|_| t[4..].join("_")),
            }),
            "M" => evs.push(Ev::M { c: t[1].parse().unwrap(), name: unhex(t[2]), addr: t[3].parse().unwrap() }),
            "F" => {
                let from: u64 = t[2].parse().unwrap();
                let bytes = unhex(t[5]);
                let mut done = false;
                if t[3] == "ipv4" {
                    if let Some((src, dst, sp, dp, payload)) = parse_udp(&bytes) {
                        let cl = |ip: u32| (0..cfg.clients.len()).find(|c| Cfg::client_ip(*c) == ip);
                        if dst == DNS_AUTH && dp == 53 {
                            if let Some(c) = cl(src) {
                                evs.push(Ev::Q { c, port: sp, from, payload });
                                done = true;
                            }
                        } else if src == DNS_AUTH && sp == 53 {
                            if let Some(c) = cl(dst) {
                                evs.push(Ev::A { c, port: dp, payload });
                                done = true;
                            }
                        }
                    }
                }
                if !done {
                    evs.push(Ev::O { from, proto: t[3].to_string() });
                }
            }
            "S" => end = t[1].to_string(),
            "PANIC" => panic_line = Some(l.clone()),
            _ => {}
        }
    }
    if let Some(p) = panic_line {
        end = format!("CRASH {}", location_class(&p));
    } else if r.timed_out {
        end = "HANG wall-clock".into();
    } else if !r.clean {
        end = format!("CRASH exit-{:?}", r.exit_code);
    }
    Parsed { evs, end }
}

fn render(cfg: &Cfg, p: &Parsed) -> String {
    let mut parts = vec![format!("N {}", cfg.connections())];
    for e in &p.evs {
        match e {
            Ev::L { c, h, name, .. } => parts.push(format!("L {} {} {}", c, h, hex(name))),
            Ev::Q { c, port, payload, .. } => parts.push(format!("Q {} {} {}", c, port, hex(payload))),
            Ev::A { c, port, payload } => parts.push(format!("A {} {} {}", c, port, hex(payload))),
            Ev::R { c, h, name, res } => match res {
                Ok(a) => parts.push(format!("R {} {} {} {}", c, h, hex(name), a)),
                Err(e) => parts.push(format!("R {} {} {} {}", c, h, hex(name), e)),
            },
            Ev::M { c, name, addr } => parts.push(format!("M {} {} {}", c, hex(name), addr)),
            Ev::O { .. } => {}
        }
    }
    parts.push(format!("E {}", p.end));
    parts.join(" ; ")
}

/// The property, evaluated on the trace alone (nothing from the Coq model).
fn oracle(cfg: &Cfg, p: &Parsed) -> Result<(), String> {
    let in_quantifier = cfg.clients.iter().all(|b| b.iter().all(|x| x.iter().all(|(_, r)| *r < cfg.records.len())))
        && cfg.records.iter().all(|(n, _)| !n.contains(&DELIM))
        && !(cfg.conn == 0 && cfg.predicted_misses() >= 2); // the server was told to stop accepting before the last query
    if !in_quantifier {
        // a lookup of a name without record, or a name containing the delimiter: outside the property
        stat("outside-quantifier");
        return Ok(());
    }
    let total = cfg.total_lookups();
    // (1) every lookup returns, with the registered address
    let mut returned = 0;
    for e in &p.evs {
        if let Ev::R { c, h, name, res } = e {
            returned += 1;
            match res {
                Ok(a) => {
                    if Some(*a) != cfg.registered(name) {
                        return Err(format!(
                            "lookup {} of client {} for {:?} returned {:#x}, registered {:?}",
                            h, c, String::from_utf8_lossy(name), a, cfg.registered(name).map(|x| format!("{:#x}", x))
                        ));
                    }
                }
                Err(e) => return Err(format!("lookup {} of client {} failed: {}", h, c, e)),
            }
        }
    }
    if p.end != "DONE" || returned != total {
        return Err(format!("run ended with `{}`: {} of {} lookups of registered names returned", p.end, returned, total));
    }
    // (2) every reply echoes identifier and name of the query of its own socket, and the resolution that
    //     returns was preceded by such a reply carrying the returned address
    let mut queries: BTreeMap<(usize, u16), (u16, Vec<u8>)> = BTreeMap::new();
    let mut answered: BTreeSet<(usize, u16)> = BTreeSet::new();
    let mut replies_for: BTreeMap<(usize, Vec<u8>), Vec<u32>> = BTreeMap::new();
    let mut first_ret: BTreeMap<(usize, Vec<u8>), usize> = BTreeMap::new();
    let mut lookups_before_ret: BTreeMap<(usize, Vec<u8>), usize> = BTreeMap::new();
    let mut nq: BTreeMap<(usize, Vec<u8>), usize> = BTreeMap::new();
    let mut mac_of: BTreeMap<usize, u64> = BTreeMap::new();
    for (i, e) in p.evs.iter().enumerate() {
        match e {
            Ev::Q { c, port, from, payload } => {
                let (id, fl, qn, _an, _rd) = read_dns(payload).ok_or("query frame is not a DNS message")?;
                if fl & 0x8000 != 0 {
                    return Err("query frame has the response bit".into());
                }
                if queries.insert((*c, *port), (id, qn.clone())).is_some() {
                    return Err(format!("client {} used port {} for two queries", c, port));
                }
                *nq.entry((*c, qn)).or_insert(0) += 1;
                mac_of.insert(*c, *from);
            }
            Ev::A { c, port, payload } => {
                let (id, fl, qn, an, rd) = read_dns(payload).ok_or("reply frame is not a DNS message")?;
                let (qid, qname) = queries.get(&(*c, *port)).ok_or(format!("reply to {}:{} without query", c, port))?;
                if !answered.insert((*c, *port)) {
                    return Err(format!("second reply to {}:{}", c, port));
                }
                if fl & 0x8000 == 0 || id != *qid || &qn != qname || &an != qname {
                    return Err(format!(
                        "reply to {}:{} does not echo its query: id {} vs {}, names {:?}/{:?} vs {:?}",
                        c, port, id, qid, String::from_utf8_lossy(&qn), String::from_utf8_lossy(&an), String::from_utf8_lossy(qname)
                    ));
                }
                if rd.len() != 4 {
                    return Err("reply without a 4-byte address".into());
                }
                replies_for.entry((*c, qn)).or_default().push(u32::from_be_bytes([rd[0], rd[1], rd[2], rd[3]]));
            }
            Ev::L { c, name, .. } => {
                if !first_ret.contains_key(&(*c, name.clone())) {
                    *lookups_before_ret.entry((*c, name.clone())).or_insert(0) += 1;
                }
            }
            Ev::R { c, name, res, .. } => {
                let k = (*c, name.clone());
                if !first_ret.contains_key(&k) {
                    // the first resolution of this name by this client: must come from a reply on the wire
                    let a = res.clone().unwrap();
                    if !replies_for.get(&k).map(|v| v.contains(&a)).unwrap_or(false) {
                        return Err(format!("client {} resolved {:?} without a reply carrying that address", c, String::from_utf8_lossy(name)));
                    }
                    first_ret.insert(k, i);
                }
            }
            _ => {}
        }
    }
    // (3) cache: lookups started after a successful resolution put nothing on the network
    for (k, n) in &nq {
        let allowed = lookups_before_ret.get(k).copied().unwrap_or(0);
        if *n > allowed {
            return Err(format!(
                "client {} sent {} queries for {:?} but only {} lookups started before its first resolution",
                k.0, n, String::from_utf8_lossy(&k.1), allowed
            ));
        }
    }
    // a lookup that starts after the first resolution: nothing at all leaves the client's interface between
    // its start and its return
    let mut open: BTreeMap<usize, usize> = BTreeMap::new(); // h -> client, for cached lookups in progress
    for (i, e) in p.evs.iter().enumerate() {
        match e {
            Ev::L { c, h, name, kind } => {
                // (connect_by_name goes on to connect: its ARP traffic is not the resolver's)
                if *kind == 0 && first_ret.get(&(*c, name.clone())).map(|j| *j < i).unwrap_or(false) {
                    open.insert(*h, *c);
                }
            }
            Ev::R { h, .. } => {
                open.remove(h);
            }
            Ev::Q { c, .. } if cfg.flavor == 0 => {
                if open.values().any(|x| x == c) {
                    return Err(format!("client {} put a query on the network during a lookup of a resolved name", c));
                }
            }
            Ev::O { from, proto } if cfg.flavor == 0 => {
                for c in open.values() {
                    if mac_of.get(c) == Some(from) {
                        return Err(format!("client {} put a {} frame on the network during a lookup of a resolved name", c, proto));
                    }
                }
            }
            _ => {}
        }
    }
    if cfg.flavor == 0 {
        // deterministic runtime: exactly the lookups that start before the first resolution query the server
        let qs: usize = nq.values().sum();
        if qs != cfg.predicted_misses() {
            return Err(format!("{} queries on the network, {} lookups could not be answered from the cache", qs, cfg.predicted_misses()));
        }
    }
    // (4) the caches hold registered addresses only
    for e in &p.evs {
        if let Ev::M { c, name, addr } = e {
            if *addr >= 0 && Some(*addr as u32) != cfg.registered(name) {
                return Err(format!("cache of client {} maps {:?} to {:#x}", c, String::from_utf8_lossy(name), addr));
            }
            if *addr < 0 && first_ret.contains_key(&(*c, name.clone())) {
                return Err(format!("cache of client {} lost {:?}", c, String::from_utf8_lossy(name)));
            }
        }
    }
    Ok(())
}

// ------------------------------------------------------------------ generator

fn gen_name(rng: &mut Rng, len: usize, style: u64) -> Vec<u8> {
    match style {
        // host-like
        0 => {
            let mut v: Vec<u8> = (0..len).map(|i| if i % 7 == 5 { b'.' } else { b'a' + rng.below(26) as u8 }).collect();
            if let Some(l) = v.last_mut() {
                if *l == b'.' {
                    *l = b'x';
                }
            }
            v
        }
        // any printable ASCII except the delimiter
        1 => (0..len).map(|_| 0x21 + rng.below(0x7e - 0x21 + 1) as u8).collect(),
        // printable non-ASCII (2- and 3-byte UTF-8), truncated at a character boundary and padded
        _ => {
            let pool = ["\u{e9}", "\u{fc}", "\u{3b1}", "\u{416}", "\u{4e2d}", "\u{20ac}", "z", "-"];
            let mut v = vec![];
            loop {
                let s = rng.pick(&pool).as_bytes();
                if v.len() + s.len() > len {
                    break;
                }
                v.extend_from_slice(s);
            }
            while v.len() < len {
                v.push(b'q');
            }
            v
        }
    }
}

fn rng_len(len: usize) -> usize {
    len.max(3)
}

/// two different names that a sloppy cache key could identify
fn near_equal(a: &[u8], b: &[u8]) -> bool {
    if a == b {
        return false;
    }
    let trim = |x: &[u8]| {
        let mut e = x.len();
        while e > 0 && x[e - 1] == b'.' {
            e -= 1;
        }
        x[..e].to_vec()
    };
    a.eq_ignore_ascii_case(b)
        || trim(a) == trim(b)
        || a.starts_with(b)
        || b.starts_with(a)
        || (a.len() == b.len() && a.iter().zip(b.iter()).filter(|(x, y)| x != y).count() == 1)
}

/// Record sets of almost equal names with different addresses; clients resolve several of them one after
/// the other (the second lookup must not be answered from the first one's cache entry) and concurrently.
fn gen_near(rng: &mut Rng, flavor: usize) -> String {
    let len = rng.range(4, 15) as usize;
    let mut base = gen_name(rng, len, 0);
    base[0] = b'a' + rng.below(26) as u8;
    let upper: Vec<u8> = base.to_ascii_uppercase();
    let mut cap = base.clone();
    cap[0] = cap[0].to_ascii_uppercase();
    let mut mid = base.clone();
    let at = rng.below(len as u64) as usize;
    mid[at] = mid[at].to_ascii_uppercase();
    let dot = |v: &Vec<u8>| {
        let mut w = v.clone();
        w.push(b'.');
        w
    };
    let cut = rng.range(1, len as u64 - 2) as usize;
    let utf = |last: u8| {
        let mut w = base[..cut].to_vec();
        w.extend_from_slice(&[0xc3, last]); // U+00E8 / U+00E9 / U+00EA: one byte apart
        w.extend_from_slice(&base[cut..]);
        w
    };
    let mut names: Vec<Vec<u8>> = match rng.below(6) {
        0 => vec![base.clone(), cap, upper],
        1 => vec![base.clone(), mid, upper],
        2 => vec![base.clone(), dot(&base), dot(&dot(&base))],
        3 => vec![base[..cut].to_vec(), base[..cut + 1].to_vec(), base.clone()],
        4 => vec![utf(0xa9), utf(0xa8), utf(0xaa)],
        _ => vec![base.clone(), upper, dot(&base), base[..cut].to_vec()],
    };
    if names.len() == 3 && rng.coin(1, 3) {
        names.remove(rng.below(3) as usize);
    }
    names.sort();
    names.dedup();
    // a random order of registration
    for i in (1..names.len()).rev() {
        names.swap(i, rng.below(i as u64 + 1) as usize);
    }
    let k = names.len();
    let a0 = rng.u32() & 0xffff_ff00;
    let mut s = format!("F {} X {} R {}", flavor, if flavor != 0 || rng.coin(1, 2) { -1 } else { 1 + rng.below(2) as i64 }, k);
    for (j, nm) in names.iter().enumerate() {
        // different addresses, also when compared byte by byte
        s.push_str(&format!(" {} {}", hex(nm), a0 + 1 + 37 * j as u32));
    }
    let n = rng.range(1, 3) as usize;
    s.push_str(&format!(" C {}", n));
    for _ in 0..n {
        let mut order: Vec<usize> = (0..k).collect();
        for i in (1..k).rev() {
            order.swap(i, rng.below(i as u64 + 1) as usize);
        }
        let kind = |rng: &mut Rng| if flavor == 0 && rng.coin(1, 8) { 1 } else { 0 };
        let mut batches: Vec<Vec<usize>> = match rng.below(3) {
            // one after the other
            0 => order.iter().map(|r| vec![*r]).collect(),
            // all at once
            1 => vec![order.clone()],
            // the first two at once, the others one after the other
            _ => {
                let mut b = vec![order[..2.min(k)].to_vec()];
                b.extend(order[2.min(k)..].iter().map(|r| vec![*r]));
                b
            }
        };
        // and again, now from the cache: each name must still give its own address
        if rng.coin(1, 2) {
            let mut again = order.clone();
            again.reverse();
            if rng.coin(1, 2) {
                batches.push(again);
            } else {
                batches.extend(again.iter().map(|r| vec![*r]));
            }
        }
        s.push_str(&format!(" {}", batches.len()));
        for b in batches {
            s.push_str(&format!(" {}", b.len()));
            for r in b {
                s.push_str(&format!(" {} {}", kind(rng), r));
            }
        }
    }
    let (dpct, dmax) = match rng.below(3) {
        0 => (0, 0),
        1 => (50, if flavor == 0 { 5000 } else { 800 }),
        _ => (100, if flavor == 0 { 50 } else { 300 }),
    };
    s.push_str(&format!(" D {} {} {}", dpct, dmax, rng.below(1 << 30)));
    s
}

struct C20;
impl Family for C20 {
    fn gen(rng: &mut Rng, idx: usize) -> String {
        let flavor = if idx % 10 == 9 { *rng.pick(&[1usize, 2, 4]) } else { 0 };
        // one scenario in five: almost equal names (19 of 20 of them on the paused runtime)
        if idx % 5 == 2 {
            return gen_near(rng, if idx % 100 == 57 { 2 } else { 0 });
        }
        let n = rng.range(1, 4) as usize;
        let k = rng.range(1, 4) as usize;
        // streams: 0 = inside the property's quantifier; hostile: 1 = a name without record is looked up,
        // 2 = a registered name contains the delimiter, 3 = the server is told to accept one connection too few
        let stream = match rng.below(100) {
            0..=87 => 0,
            88..=91 => 1,
            92..=95 => 2,
            _ => {
                if flavor == 0 {
                    3
                } else {
                    0
                }
            }
        };
        let mut records: Vec<(Vec<u8>, u32)> = vec![];
        // one scenario in six has a record whose query does not fit an 80-byte read (name of 25 bytes or more)
        let long_at = if rng.coin(1, 6) { rng.below(k as u64) as usize } else { usize::MAX };
        for j in 0..k {
            // lengths: 1, typical, the last ones that fit the server's 80-byte read (23, 24), 25, 26, 40, 60, 200
            let len = if j == long_at {
                match rng.below(100) {
                    0..=39 => 25,
                    40..=54 => 26,
                    55..=69 => 40,
                    70..=79 => 60,
                    80..=89 => 200,
                    _ => rng.range(27, 120) as usize,
                }
            } else {
                match rng.below(100) {
                    0..=7 => 1,
                    8..=59 => rng.range(2, 22) as usize,
                    60..=69 => 23,
                    _ => 24,
                }
            };
            let style = rng.below(3);
            let mut name = gen_name(rng, len, style);
            if rng.coin(1, 30) {
                name = if rng.coin(1, 2) { b"google.com".to_vec() } else { b"testserver.com".to_vec() };
            }
            if j > 0 && rng.coin(1, 30) {
                name = records[0].0.clone(); // registered twice: the last registration counts
            }
            if stream == 2 && j == 0 {
                name = match rng.below(4) {
                    0 => b"two words".to_vec(),
                    1 => b" leading".to_vec(),
                    2 => b"trailing ".to_vec(),
                    _ => {
                        let mut v = gen_name(rng, rng_len(len), 0);
                        let at = v.len() / 2;
                        v[at] = DELIM;
                        v
                    }
                };
            }
            let addr = match rng.below(10) {
                0 => 0,
                1 => 0xffff_ffff,
                2 => 0x2020_2020, // four delimiter bytes
                3 => 0x7b2d_433c, // the address of google.com in the server's built-in table
                4 | 5 => DNS_AUTH, // a machine that exists
                _ => rng.u32(),
            };
            records.push((name, addr));
        }
        let builtin = |nm: &Vec<u8>| nm == b"google.com" || nm == b"testserver.com";
        let mut cl = String::new();
        for _ in 0..n {
            let nb = rng.range(1, 3);
            cl.push_str(&format!(" {}", nb));
            for _ in 0..nb {
                let m = match rng.below(10) {
                    0..=5 => 1,
                    6..=8 => 2,
                    _ => 3,
                };
                cl.push_str(&format!(" {}", m));
                for _ in 0..m {
                    let r = if stream == 1 && rng.coin(1, 3) { k + rng.below(2) as usize } else { rng.below(k as u64) as usize };
                    // connect_by_name towards an address nobody owns waits for ARP (2 s): only in virtual time
                    let reachable = r < k && records[r].1 == DNS_AUTH && !builtin(&records[r].0);
                    let kind = if rng.coin(1, 6) && (flavor == 0 || reachable) { 1 } else { 0 };
                    cl.push_str(&format!(" {} {}", kind, r));
                }
            }
        }
        let conn: i64 = if stream == 3 {
            0
        } else if flavor != 0 || rng.coin(1, 3) {
            -1
        } else {
            1 + rng.below(2) as i64
        };
        let (dpct, dmax) = match rng.below(4) {
            0 => (0, 0),
            1 => (30, if flavor == 0 { 5000 } else { 800 }),
            2 => (70, if flavor == 0 { 200_000 } else { 1500 }),
            _ => (100, if flavor == 0 { 50 } else { 300 }),
        };
        let mut s = format!("F {} X {} R {}", flavor, conn, k);
        for (nm, a) in &records {
            s.push_str(&format!(" {} {}", hex(nm), a));
        }
        s.push_str(&format!(" C {}{} D {} {} {}", n, cl, dpct, dmax, rng.below(1 << 30)));
        s
    }

    fn realtime(case: &str) -> bool {
        parse(case).flavor != 0
    }

    fn run(case: &str) -> Outcome {
        let cfg = parse(case);
        let r = run_child(case, Duration::from_secs(90));
        let p = digest(&cfg, &r);
        stat(&format!("flavor-{}", if cfg.flavor == 0 { "paused".to_string() } else { format!("multi{}", cfg.flavor) }));
        stat(&format!("records-{}", cfg.records.len()));
        stat(&format!("clients-{}", cfg.clients.len()));
        stat(&format!("end-{}", p.end.replace(' ', "-")));
        for (n, _) in &cfg.records {
            let b = match n.len() {
                0..=1 => "len-1",
                2..=22 => "len-2..22",
                23 => "len-23",
                24 => "len-24",
                25 => "len-25",
                26 => "len-26",
                27..=59 => "len-27..59",
                60..=199 => "len-60..199",
                _ => "len-200+",
            };
            stat(b);
            if !n.is_ascii() {
                stat("name-non-ascii");
            }
        }
        if cfg.records.iter().any(|(a, _)| cfg.records.iter().any(|(b, _)| near_equal(a, b))) {
            stat("near-equal-names");
        }
        let hits = cfg.total_lookups() - cfg.predicted_misses().min(cfg.total_lookups());
        stat(if hits > 0 { "has-cached-lookups" } else { "no-cached-lookups" });
        if cfg.clients.iter().any(|b| b.iter().any(|x| x.len() > 1)) {
            stat("has-concurrent-lookups");
        }
        if cfg.dmax_us > 0 {
            stat("frame-delays");
        }
        let oracle = match oracle(&cfg, &p) {
            Ok(()) => Oracle::Ok,
            Err(m) => Oracle::Fail(m),
        };
        Outcome { impl_line: render(&cfg, &p), oracle }
    }
}

fn main() {
    if let Some(case) = child_case() {
        child(&case);
    }
    main_loop::<C20>();
}
