//! C08 / C14 (IPv4, UDP, TCP part): lock-step of the three header codecs in the
//! DEFAULT build (checksum computation off: the field is 0 and must be 0)
//! against the extracted Coq model (ocaml/codecip_drv.ml, argument `ck0`) and,
//! as property oracle, against etherparse 0.10 in both directions.
//! Case and result formats: see codecip_common/mod.rs.
#[path = "codecip_common/mod.rs"]
mod common;
use elvis_verif_harness::*;

struct CodecIp;

impl Family for CodecIp {
    fn gen(rng: &mut Rng, idx: usize) -> String {
        common::gen_case(rng, idx, &common::Mix { big: 6, cksum_heavy: false })
    }
    fn run(case: &str) -> Outcome {
        common::run_case(case)
    }
}

fn main() {
    assert!(!common::CK, "c08_codecip is the default-build harness; use c18_cksum with --features compute_checksum");
    main_loop::<CodecIp>();
}
