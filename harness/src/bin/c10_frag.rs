//! C10: IPv4 fragmentation is a faithful partition — lock-step and property oracle.
//!
//! case line (all decimal):
//!   `ihl tos tl id fo flags ttl proto cksum src dst blen seed m1,m2,..`
//! The payload is not transmitted: byte i = pat(seed, i) = (7*i + i/256 + seed) mod 256, so a piece
//! that is shifted by any amount < 65536 differs from what is expected at its position.
//! The datagram is fragmented for m1 by the REAL `fragmentation::fragment`; every resulting piece is
//! fragmented again for m2, and so on (a chain of routers), always on the implementation's own output.
//!
//! result line:  step (" ; " step)*
//!   step   := result (" / " result)*  |  "PANIC kind"  |  "NONTERM"
//!   result := "D " frag | "F " k (" " frag)* | "X"            (DontFragment / Fragmented / Discard)
//!   frag   := ihl,tos,tl,id,fo,flags,ttl,proto,cksum,src,dst,len,enc
//!   enc    := "P" start   the len payload bytes equal pat(seed, start..start+len), start = 8*(fo - fo_orig)
//!           | "L" hex     literal bytes (whenever the above is not the case)
//! The encoding is lossless and a deterministic function of (case, fragment), so the model driver
//! produces the same string iff it produces the same headers and the same payload bytes, and the
//! validator can rebuild the implementation's payload bytes exactly.
//!
//! NONTERM: 4*ihl <= mtu < 4*ihl+8 with an oversize DF-clear datagram makes the Rust recursion run
//! forever (NFB = 0; theorem C10_remark_nfb0_does_not_terminate).  That cannot be observed, so the
//! harness does not call the implementation there; the model answers OutOfFuel on the same cases.
use elvis_core::protocols::ipv4::fragmentation::{fragment, Fragments};
use elvis_core::protocols::ipv4::ipv4_parsing::{ControlFlags, Ipv4Header, TypeOfService};
use elvis_core::protocols::ipv4::Ipv4Address;
use elvis_core::Message;
use elvis_verif_harness::*;
use std::fmt::Write as _;
use std::panic::{catch_unwind, AssertUnwindSafe};

struct Frag;

fn pat(seed: u64, i: u64) -> u8 {
    ((7 * i + i / 256 + seed) % 256) as u8
}

#[derive(Clone, Copy, PartialEq, Eq, Debug)]
struct H {
    ihl: u8,
    tos: u8,
    tl: u16,
    id: u16,
    fo: u16,
    flags: u8,
    ttl: u8,
    proto: u8,
    cksum: u16,
    src: u32,
    dst: u32,
}

impl H {
    fn to_impl(self) -> Ipv4Header {
        Ipv4Header {
            ihl: self.ihl,
            type_of_service: TypeOfService::from(self.tos),
            total_length: self.tl,
            identification: self.id,
            fragment_offset: self.fo,
            flags: ControlFlags::from(self.flags),
            time_to_live: self.ttl,
            protocol: self.proto,
            checksum: self.cksum,
            source: Ipv4Address::from(self.src),
            destination: Ipv4Address::from(self.dst),
        }
    }
    fn of_impl(h: &Ipv4Header) -> H {
        H {
            ihl: h.ihl,
            tos: h.type_of_service.as_u8(),
            tl: h.total_length,
            id: h.identification,
            fo: h.fragment_offset,
            flags: h.flags.as_u8(),
            ttl: h.time_to_live,
            proto: h.protocol,
            cksum: h.checksum,
            src: h.source.to_u32(),
            dst: h.destination.to_u32(),
        }
    }
}

struct Case {
    h: H,
    blen: usize,
    seed: u64,
    mtus: Vec<u16>,
}

fn parse(case: &str) -> Case {
    let t: Vec<&str> = case.split_whitespace().collect();
    let p = |i: usize| -> u64 { t[i].parse().expect("number") };
    Case {
        h: H {
            ihl: p(0) as u8,
            tos: p(1) as u8,
            tl: p(2) as u16,
            id: p(3) as u16,
            fo: p(4) as u16,
            flags: p(5) as u8,
            ttl: p(6) as u8,
            proto: p(7) as u8,
            cksum: p(8) as u16,
            src: p(9) as u32,
            dst: p(10) as u32,
        },
        blen: p(11) as usize,
        seed: p(12),
        mtus: t[13].split(',').map(|m| m.parse().expect("mtu")).collect(),
    }
}

type Piece = (H, Vec<u8>);

enum Res {
    D(Piece),
    F(Vec<Piece>),
    X,
}

fn render_frag(out: &mut String, c: &Case, f: &Piece) {
    let (h, p) = f;
    let _ = write!(
        out,
        "{},{},{},{},{},{},{},{},{},{},{},{},",
        h.ihl, h.tos, h.tl, h.id, h.fo, h.flags, h.ttl, h.proto, h.cksum, h.src, h.dst, p.len()
    );
    let start = 8 * (h.fo as i64 - c.h.fo as i64);
    let fits = start >= 0 && (start as usize) + p.len() <= c.blen;
    if fits && p.iter().enumerate().all(|(i, b)| *b == pat(c.seed, start as u64 + i as u64)) {
        let _ = write!(out, "P{}", start);
    } else {
        out.push('L');
        out.push_str(&hex(p));
    }
}

fn panic_kind(msg: &str) -> &'static str {
    if msg.contains("subtract with overflow") {
        "sub"
    } else if msg.contains("add with overflow") {
        "add"
    } else if msg.contains("multiply with overflow") {
        "mul"
    } else if msg.contains("len <= self.len") {
        "cut"
    } else {
        "other"
    }
}

/// the property's predicate, computed with plain integers and Vec<u8> (independent of the model)
fn partition_violation(o: &H, body: &[u8], mtu: u16, frs: &[Piece], check_flags: bool) -> Option<String> {
    if frs.is_empty() {
        return Some("no fragment".into());
    }
    let hl = 4 * o.ihl as usize;
    let mut acc = 0usize;
    let last = frs.len() - 1;
    for (i, (h, p)) in frs.iter().enumerate() {
        if h.tl > mtu {
            return Some(format!("piece {} has total_length {} > mtu {}", i, h.tl, mtu));
        }
        if h.tl as usize != hl + p.len() {
            return Some(format!("piece {} total_length {} != {} + {}", i, h.tl, hl, p.len()));
        }
        if 8 * h.fo as usize != 8 * o.fo as usize + acc {
            return Some(format!("piece {} offset {} but {} payload bytes precede it (orig offset {})", i, h.fo, acc, o.fo));
        }
        if acc + p.len() > body.len() || body[acc..acc + p.len()] != p[..] {
            return Some(format!("piece {} payload is not body[{}..{}]", i, acc, acc + p.len()));
        }
        let mut expect = *o;
        expect.tl = h.tl;
        expect.fo = h.fo;
        expect.flags = h.flags;
        if *h != expect {
            return Some(format!("piece {} changed a field other than length/offset/flags", i));
        }
        if check_flags {
            let want = if i == last { o.flags } else { o.flags | 1 };
            if h.flags != want {
                return Some(format!("piece {} flags {} expected {}", i, h.flags, want));
            }
        }
        if i != last && p.len() % 8 != 0 {
            return Some(format!("non-final piece {} has {} bytes (not a multiple of 8)", i, p.len()));
        }
        if frs.len() > 1 && p.is_empty() {
            return Some(format!("piece {} is empty", i));
        }
        acc += p.len();
    }
    if acc != body.len() {
        return Some(format!("pieces cover {} of {} payload bytes", acc, body.len()));
    }
    None
}

fn fail(oracle: &mut Oracle, msg: String) {
    if matches!(oracle, Oracle::Ok) {
        *oracle = Oracle::Fail(msg);
    }
}

const RESIDUE_MTUS: [u16; 14] = [68, 69, 70, 71, 72, 73, 74, 75, 576, 1280, 1492, 1500, 4352, 9000];

fn gen_mtu(rng: &mut Rng, lo: u16, hi: u16) -> u16 {
    // uniform residue of (mtu-20) mod 8, then a magnitude class
    let m = match rng.below(10) {
        0 => *rng.pick(&RESIDUE_MTUS),
        1..=5 => rng.range(68, 400) as u16,
        6..=7 => rng.range(400, 2000) as u16,
        8 => rng.range(2000, 20000) as u16,
        _ => *rng.pick(&[65535u16, 65534, 65528, 65529, 32788, 40000, 65515, 65516]),
    };
    let m = m.clamp(lo, hi);
    // force a uniformly chosen residue where the range allows it
    let r = rng.below(8) as u16;
    let base = m - (m - 20) % 8; // (base-20) % 8 == 0
    let cand = base as u32 + r as u32;
    if cand >= lo as u32 && cand <= hi as u32 {
        cand as u16
    } else {
        m
    }
}

fn gen_blen(rng: &mut Rng, mtu: u16, huge: bool) -> usize {
    let m = mtu as i64;
    let nfb8 = ((m - 20) / 8) * 8;
    let choice = rng.below(if huge { 16 } else { 14 });
    let mut v: i64 = match choice {
        0 => *rng.pick(&[0i64, 1, 7, 8, 9]),
        1 => m - 21,
        2 => m - 20,
        3 => m - 19,
        4 => m - 20 + rng.range(1, 9) as i64,
        5 => nfb8 * rng.range(1, 5) as i64,
        6 => nfb8 * rng.range(1, 5) as i64 + 1,
        7 => nfb8 * rng.range(2, 5) as i64 - 1,
        8 => nfb8 * rng.range(1, 4) as i64 + (m - 20),
        9 | 10 => rng.range(0, 4 * m as u64) as i64,
        11 => rng.range(0, 3000) as i64,
        12 => rng.range(0, 12 * m as u64) as i64,
        13 => m - 20 - rng.range(0, 30) as i64,
        14 => *rng.pick(&[65515i64, 65514, 65508, 65507, 65500]),
        _ => rng.range(20000, 65515) as i64,
    };
    // keep the share of datagrams that simply fit moderate: boundary picks stay, others are mostly re-drawn oversize
    if v <= m - 20 && choice > 2 && rng.coin(2, 3) {
        v = m - 20 + rng.range(1, 3 * m as u64) as i64;
    }
    let cap = if huge { 65515 } else { 20000 };
    v.clamp(0, cap) as usize
}

fn gen_chain(rng: &mut Rng, first: u16, floor: u16) -> Vec<u16> {
    let mut mtus = vec![first];
    let extra = match rng.below(10) {
        0..=2 => 0,
        3..=5 => 1,
        6..=7 => 2,
        _ => 3,
    };
    for _ in 0..extra {
        let prev = *mtus.last().unwrap();
        if prev <= floor {
            break;
        }
        // mostly decreasing; now and then a larger MTU (pieces must then pass through)
        let next = if rng.coin(1, 12) {
            gen_mtu(rng, floor, 65535)
        } else if rng.coin(1, 2) {
            gen_mtu(rng, floor, prev - 1)
        } else {
            // a step to just around the total length of a full piece of the previous step: at or above it
            // everything passes through, just below it every full piece is split into NFB'*8 + a small rest
            let full = 20 + ((prev as i64 - 20) / 8) * 8;
            (full + 2 - rng.range(0, 26) as i64).clamp(floor as i64, prev as i64 - 1) as u16
        };
        mtus.push(next);
    }
    mtus
}

fn fmt_case(h: &H, blen: usize, seed: u64, mtus: &[u16]) -> String {
    let ms: Vec<String> = mtus.iter().map(|m| m.to_string()).collect();
    format!(
        "{} {} {} {} {} {} {} {} {} {} {} {} {} {}",
        h.ihl, h.tos, h.tl, h.id, h.fo, h.flags, h.ttl, h.proto, h.cksum, h.src, h.dst, blen, seed, ms.join(",")
    )
}

impl Family for Frag {
    fn gen(rng: &mut Rng, _idx: usize) -> String {
        let seed = rng.below(256);
        let mut h = H {
            ihl: 5,
            tos: if rng.coin(1, 2) { 0 } else { (rng.below(64) * 4) as u8 },
            tl: 0,
            id: rng.below(65536) as u16,
            fo: 0,
            flags: 0,
            ttl: rng.range(1, 255) as u8,
            proto: *rng.pick(&[6u8, 17, 1, 0, 255, 89]),
            cksum: if rng.coin(1, 2) { 0 } else { rng.below(65536) as u16 },
            src: rng.u32(),
            dst: rng.u32(),
        };
        // DF in 1 of 5, MF (re-fragmentation of a middle fragment) in 1 of 3
        h.flags = (if rng.coin(1, 5) { 2 } else { 0 }) | (if rng.coin(1, 3) { 1 } else { 0 });
        let kind = rng.below(100);
        if kind < 85 {
            // inside the property's quantifier
            let huge = kind >= 70;
            let mtu = if kind >= 82 {
                // the largest datagram through small MTUs: > 1000 pieces
                rng.range(68, 120) as u16
            } else {
                gen_mtu(rng, 68, 65535)
            };
            let blen = if kind >= 82 { *rng.pick(&[65515usize, 65514, 65509, 60000]) } else { gen_blen(rng, mtu, huge) };
            h.tl = (20 + blen) as u16;
            // a middle fragment has a payload of whole blocks; otherwise any offset that a header can carry
            h.fo = match rng.below(4) {
                0 | 1 => 0,
                2 => rng.range(1, 8191) as u16,
                _ => {
                    let room = (65535 - blen) / 8;
                    rng.range(0, room as u64) as u16
                }
            };
            let mtus = gen_chain(rng, mtu, 68);
            return fmt_case(&h, blen, seed, &mtus);
        }
        // hostile / outside the quantifier: lock-step only
        let mtu = gen_mtu(rng, 68, 2000);
        let mut blen = gen_blen(rng, mtu, false).min(6000);
        h.tl = (20 + blen) as u16;
        let mut mtus = gen_chain(rng, mtu, 68);
        match rng.below(9) {
            0 => {
                // total_length disagrees with the body
                h.tl = match rng.below(4) {
                    0 => h.tl.wrapping_add(rng.range(1, 9) as u16),
                    1 => h.tl.wrapping_sub(rng.range(1, 9) as u16),
                    2 => rng.below(65536) as u16,
                    _ => 65535,
                };
            }
            1 => {
                // other header lengths, consistent total_length: inside the theorems' domain when mtu >= 4*ihl+8
                h.ihl = *rng.pick(&[0u8, 1, 4, 6, 7, 15, 16, 60, 255]);
                blen = blen.min(60000);
                h.tl = (4 * h.ihl as usize + blen).min(65535) as u16;
                let floor = (4 * h.ihl as u16 + 8).max(68);
                let first = gen_mtu(rng, floor, 65535);
                mtus = gen_chain(rng, first, floor);
            }
            2 => {
                // header longer than the MTU: `mtu - ihl*4` underflows
                h.ihl = *rng.pick(&[18u8, 60, 100, 255]);
                h.tl = (4 * h.ihl as usize + blen).min(65535) as u16;
                mtus = vec![rng.range(0, 4 * h.ihl as u64 - 1) as u16];
            }
            3 => {
                // offsets a real header cannot carry: `fragment_offset += nfb` may overflow
                h.fo = *rng.pick(&[65535u16, 65534, 65530, 65000, 60000, 57346, 57347, 32768, 8192]);
            }
            4 => {
                // reserved / unknown flag bits
                h.flags = rng.below(256) as u8;
            }
            5 => {
                // MTU below the IPv4 minimum, including 20..27 (NFB = 0) and < 20 (underflow)
                mtus = vec![rng.range(0, 67) as u16];
                if rng.coin(1, 2) {
                    mtus.push(rng.range(0, 67) as u16);
                }
            }
            6 => {
                // NFB = 0 after a first regular step
                mtus = vec![mtus[0], rng.range(20, 27) as u16];
            }
            7 => {
                // offset + payload beyond 65535 bytes but within u16 blocks
                h.fo = rng.range(8000, 8191) as u16;
                blen = rng.range(2000, 6000) as usize;
                h.tl = (20 + blen) as u16;
            }
            _ => {
                // everything random
                h.ihl = rng.below(256) as u8;
                h.fo = rng.below(65536) as u16;
                h.flags = rng.below(256) as u8;
                h.tl = rng.below(65536) as u16;
                mtus = vec![rng.below(65536) as u16];
                let hl = 4 * h.ihl as u16;
                // never ask for the non-terminating corner by accident more than the guard handles
                if mtus[0] >= hl && mtus[0] - hl < 8 && rng.coin(1, 2) {
                    mtus[0] = hl + 8;
                }
            }
        }
        fmt_case(&h, blen, seed, &mtus)
    }

    fn run(case: &str) -> Outcome {
        let c = parse(case);
        let body: Vec<u8> = (0..c.blen as u64).map(|i| pat(c.seed, i)).collect();
        let o = c.h;
        let hl = 4 * o.ihl as usize;

        // is the case inside the domain of the theorems / the quantifier of the property?
        let valid = o.tl as usize == hl + c.blen && (o.fo as usize + c.blen / 8) <= 65535;
        let in_quantifier = valid && o.ihl == 5 && o.fo <= 8191 && o.flags < 4 && c.mtus.iter().all(|m| *m >= 68);
        stat(if in_quantifier {
            "dom_in_quantifier"
        } else if valid && c.mtus.iter().all(|m| *m as usize >= hl + 8) {
            "dom_theorem_domain_only"
        } else {
            "dom_outside"
        });
        stat(&format!("chain_len_{}", c.mtus.len()));
        stat(&format!("mtu1_residue_{}", (c.mtus[0] as i64 - 20).rem_euclid(8)));
        stat(if o.flags & 2 != 0 { "df_set" } else { "df_clear" });
        stat(if o.flags & 1 != 0 { "mf_set" } else { "mf_clear" });
        stat(if o.fo != 0 { "fo_nonzero" } else { "fo_zero" });
        {
            let m = c.mtus[0] as i64;
            let b = c.blen as i64;
            stat(match b {
                0 => "blen_0",
                1..=9 => "blen_1_9",
                _ if b == m - 21 => "blen_mtu-21",
                _ if b == m - 20 => "blen_mtu-20_exact_fit",
                _ if b == m - 19 => "blen_mtu-19",
                65500..=65515 => "blen_65500_65515",
                _ if b < m - 20 => "blen_fits",
                _ if b >= 20000 => "blen_ge_20000",
                _ => "blen_other_oversize",
            });
        }

        let mut line = String::new();
        let mut oracle = Oracle::Ok;
        let mut inputs: Vec<Piece> = vec![(o, body.clone())];
        let mut mtus_ok_so_far = true;

        'steps: for (k, &mtu) in c.mtus.iter().enumerate() {
            if k > 0 {
                line.push_str(" ; ");
            }
            mtus_ok_so_far = mtus_ok_so_far && mtu as usize >= hl + 8;
            let in_domain = valid && mtus_ok_so_far;
            let mut results: Vec<Res> = Vec::with_capacity(inputs.len());
            for (h, p) in &inputs {
                let too_big = h.tl > mtu;
                let may_fragment = h.flags & 2 == 0;
                if too_big && may_fragment && mtu as usize >= 4 * h.ihl as usize && (mtu as usize - 4 * h.ihl as usize) < 8 {
                    line.push_str("NONTERM");
                    stat(&format!("step{}_NONTERM", k + 1));
                    if in_domain {
                        fail(&mut oracle, "non-termination inside the domain".into());
                    }
                    break 'steps;
                }
                let hi = h.to_impl();
                let msg = Message::new(p.clone());
                let r = catch_unwind(AssertUnwindSafe(|| fragment(hi, msg, mtu)));
                match r {
                    Err(e) => {
                        let kind = panic_kind(&panic_message(e));
                            let _ = write!(line, "PANIC {}", kind);
                        stat(&format!("step{}_PANIC_{}", k + 1, kind));
                        if in_domain {
                            fail(&mut oracle, format!("panic ({}) inside the domain at step {} mtu {}", kind, k + 1, mtu));
                        }
                        break 'steps;
                    }
                    Ok(Fragments::DontFragment((h2, m2))) => {
                        let f = (H::of_impl(&h2), m2.to_vec());
                        if in_domain && (too_big || f.0 != *h || f.1 != *p) {
                            fail(&mut oracle, format!("step {} mtu {}: passed through a datagram that does not fit, or changed it", k + 1, mtu));
                        }
                        results.push(Res::D(f));
                    }
                    Ok(Fragments::Discard) => {
                        if in_domain && !(too_big && !may_fragment) {
                            fail(&mut oracle, format!("step {} mtu {}: discarded a datagram that fits or may be fragmented", k + 1, mtu));
                        }
                        results.push(Res::X);
                    }
                    Ok(Fragments::Fragmented(v)) => {
                        let frs: Vec<Piece> = v.iter().map(|(h2, m2)| (H::of_impl(h2), m2.to_vec())).collect();
                        if in_domain {
                            if !(too_big && may_fragment) {
                                fail(&mut oracle, format!("step {} mtu {}: fragmented a datagram that fits or has DF set", k + 1, mtu));
                            }
                            if let Some(why) = partition_violation(h, p, mtu, &frs, h.flags < 4) {
                                fail(&mut oracle, format!("step {} mtu {}: not a partition of its input: {}", k + 1, mtu, why));
                            }
                            if frs.len() < 2 {
                                fail(&mut oracle, format!("step {} mtu {}: fragmented into {} piece", k + 1, mtu, frs.len()));
                            }
                        }
                        results.push(Res::F(frs));
                    }
                }
            }
            // render the step and collect what travels on
            let mut next: Vec<Piece> = Vec::new();
            let mut discarded = false;
            let (mut nd, mut nf, mut nx) = (0, 0, 0);
            for (j, r) in results.iter().enumerate() {
                if j > 0 {
                    line.push_str(" / ");
                }
                match r {
                    Res::D(f) => {
                        nd += 1;
                        line.push_str("D ");
                        render_frag(&mut line, &c, f);
                        next.push(f.clone());
                    }
                    Res::F(frs) => {
                        nf += 1;
                        let _ = write!(line, "F {}", frs.len());
                        for f in frs {
                            line.push(' ');
                            render_frag(&mut line, &c, f);
                            next.push(f.clone());
                        }
                    }
                    Res::X => {
                        nx += 1;
                        line.push('X');
                        discarded = true;
                    }
                }
            }
            stat(&format!(
                "step{}_{}",
                k + 1,
                match (nd > 0, nf > 0, nx > 0) {
                    (true, false, false) => "all_pass_through",
                    (false, true, false) => "all_fragmented",
                    (true, true, false) => "some_fragmented_some_pass",
                    (_, _, true) => "discard",
                    _ => "empty",
                }
            ));
            if discarded {
                break;
            }
            stat(match next.len() {
                1 => "pieces_1",
                2 => "pieces_2",
                3..=9 => "pieces_3_9",
                10..=99 => "pieces_10_99",
                _ => "pieces_ge_100",
            });
            // the property relative to the ORIGINAL datagram
            if in_domain {
                if let Some(why) = partition_violation(&o, &body, mtu, &next, o.flags < 4) {
                    fail(&mut oracle, format!("after step {} (mtu {}): not a partition of the original: {}", k + 1, mtu, why));
                }
            }
            inputs = next;
        }
        Outcome { impl_line: line, oracle }
    }
}

fn main() {
    main_loop::<Frag>();
}
