//! C13: a simulation starts behind a barrier and ends with the requested status.
//!
//! Every case is one whole simulation run in a CHILD PROCESS on the real `run_internet*`:
//!
//! case   := <flavor> <tmo_ms> <mac> ; <machine> ; <machine> ...
//!   flavor  0 = current-thread runtime with paused (virtual) time, n>0 = multi-thread runtime with n workers
//!   tmo_ms  >= 0: run_internet_with_timeout(d); -1: run_internet(.., None)
//!   mac     1: every Ipv4 table names the peer's MAC; 0: the recipient has no MAC (ARP resolves it, or broadcast)
//! machine := <peer> <token>*            (zero tokens: a machine without protocols)
//!   tokens  Udp Tcp Ipv4 Arp Pci SocketAPI DnsClient SendMessage Capture:<count>:<status|-1> Forward OnReceive
//!           BasicServer ThroughputTester:<count> DhcpServer ArpRouter PingPong:<initiator> TcpListenerServer
//!           TcpStreamClient SocketServer:<dgram> SocketClient:<dgram>
//!           h<k>:<pre_ms|-1 never arrives>:<listen>:<send>:<hang>:<rogue>:<shots>
//!             shots = `-` or `<when>/<status>,...`; when = -1: before the barrier wait, else ms after the release;
//!             status = -1: shut_down() (Exited), k: shut_down_with_status(Status(k))
//!
//! Observations (child log, in log order): `arrive a<i>` right before `initialized.wait()`, `released a<i>`
//! right after, `req a<i> <st>` before and `sent a<i> <st>` after each shutdown call, `seen <st>` by a watcher
//! that subscribed to the broadcast channel in the first harness application's start, `demux a<i>`, every
//! frame given to a network (`send ...`) and every delivery to a tap (`dlv ...`), `return`; OUT: status, elapsed.
//!
//! impl line (input of the extracted validator):
//!   RET <T|E|S<k>> <elapsed_ns> ; Z:<slack_ns> <ev>*   ev = a<i> r<i> q<i>:<st>@<t> s<i>:<st> w:<st>@<t> f<m>:<p> v<m> d<i>
//!                                            Z = slack of the real-time deadline check: 0 when paused, else 250 ms + twice the
//!                                            largest scheduling stall the child measured on itself
//!                                            W:<st> = first status the subscriber logged (maybe after the return)
//!   CRASH <file:line of the panic> | HANG
use elvis::applications::{
    ArpRouter, BasicServer, Capture, DhcpServer, Forward, OnReceive, PingPong, SendMessage, SocketClient, SocketServer,
    TcpListenerServer, TcpStreamClient, ThroughputTester,
};
use elvis::ip_generator::IpRange;
use elvis_core::{
    message::Message,
    protocol::{DemuxError, StartError},
    protocols::{
        ipv4::{Ipv4, Ipv4Address, Recipient},
        socket_api::socket::SocketType,
        udp::Udp,
        Arp, DnsClient, Endpoint, Endpoints, Pci, SocketAPI, Tcp,
    },
    run_internet, run_internet_with_timeout, Control, ExitStatus, IpTable, Machine, Network, Protocol, Session, Shutdown,
    Transport,
};
use elvis_verif_harness::stack::*;
use elvis_verif_harness::*;
use std::sync::Arc;
use std::time::Duration;
use tokio::sync::Barrier;

// ------------------------------------------------------------------ case

#[derive(Clone, Debug, Default)]
struct HSpec {
    k: usize,
    id: usize,
    pre: i64,
    listen: bool,
    send: bool,
    hang: bool,
    rogue: bool,
    shots: Vec<(i64, i64)>,
}

#[derive(Clone, Debug, Default)]
struct MSpec {
    peer: usize,
    tokens: Vec<String>,
    apps: Vec<HSpec>,
}

impl MSpec {
    fn has(&self, name: &str) -> bool {
        self.tokens.iter().any(|t| t.split(':').next() == Some(name))
    }
}

#[derive(Clone, Debug, Default)]
struct Case {
    flavor: usize,
    tmo: i64,
    mac: bool,
    machines: Vec<MSpec>,
    napps: usize,
}

fn parse_case(s: &str) -> Option<Case> {
    let mut parts = s.split(';');
    let head: Vec<i64> = parts.next()?.split_whitespace().map(|x| x.parse().ok()).collect::<Option<_>>()?;
    if head.len() != 3 {
        return None;
    }
    let mut c = Case { flavor: head[0] as usize, tmo: head[1], mac: head[2] != 0, ..Default::default() };
    for m in parts {
        let toks: Vec<&str> = m.split_whitespace().collect();
        if toks.is_empty() {
            return None;
        }
        let mut ms = MSpec { peer: toks[0].parse().ok()?, ..Default::default() };
        for t in &toks[1..] {
            if t.starts_with('h') && t[1..2].chars().all(|c| c.is_ascii_digit()) && t.contains(':') {
                let f: Vec<&str> = t.split(':').collect();
                if f.len() != 7 {
                    return None;
                }
                let mut h = HSpec {
                    k: f[0][1..].parse().ok()?,
                    id: c.napps,
                    pre: f[1].parse().ok()?,
                    listen: f[2] != "0",
                    send: f[3] != "0",
                    hang: f[4] != "0",
                    rogue: f[5] != "0",
                    shots: vec![],
                };
                if f[6] != "-" {
                    for sh in f[6].split(',') {
                        let (w, st) = sh.split_once('/')?;
                        h.shots.push((w.parse().ok()?, st.parse().ok()?));
                    }
                }
                c.napps += 1;
                ms.apps.push(h);
            } else {
                ms.tokens.push(t.to_string());
            }
        }
        c.machines.push(ms);
    }
    Some(c)
}

fn ip(m: usize) -> Ipv4Address {
    [10, 0, (m / 250) as u8, (m % 250 + 1) as u8].into()
}

/// MAC of machine m = its rank among the machines with a Pci (construction order, one network)
fn mac_of(c: &Case, m: usize) -> Option<u64> {
    if m >= c.machines.len() || !c.machines[m].has("Pci") {
        return None;
    }
    Some(c.machines[..m].iter().filter(|x| x.has("Pci")).count() as u64)
}

fn machine_of_mac(c: &Case, mac: u64) -> Option<usize> {
    (0..c.machines.len()).find(|m| mac_of(c, *m) == Some(mac))
}

fn status_tok(s: &ExitStatus) -> String {
    match s {
        ExitStatus::TimedOut => "T".into(),
        ExitStatus::Exited => "E".into(),
        ExitStatus::Status(k) => format!("S{}", k),
    }
}

fn shot_tok(st: i64) -> String {
    if st < 0 {
        "E".into()
    } else {
        format!("S{}", st)
    }
}

// ------------------------------------------------------------------ child: harness application

struct Happ<const K: usize> {
    spec: HSpec,
    me: usize,
    peer: usize,
    net_ok: bool,
    watch: bool,
    multi: bool,
}

impl<const K: usize> Happ<K> {
    fn shoot(&self, shutdown: &Shutdown, st: i64) {
        log(format!("req a{} {}", self.spec.id, shot_tok(st)));
        if st < 0 {
            shutdown.shut_down();
        } else {
            shutdown.shut_down_with_status(ExitStatus::Status(st as u32));
        }
        log(format!("sent a{} {}", self.spec.id, shot_tok(st)));
    }

    async fn send_one(&self, machine: &Arc<Machine>) {
        let udp = machine.protocol::<Udp>().unwrap();
        let eps = Endpoints {
            local: Endpoint::new(ip(self.me), 9150 + K as u16),
            remote: Endpoint::new(ip(self.peer), 9100),
        };
        if let Ok(s) = udp.open_for_sending(self.id(), eps, machine.clone()).await {
            let _ = s.send(Message::new(vec![1u8, 2, 3]), machine.clone());
        }
    }
}

#[async_trait::async_trait]
impl<const K: usize> Protocol for Happ<K> {
    async fn start(&self, shutdown: Shutdown, initialized: Arc<Barrier>, machine: Arc<Machine>) -> Result<(), StartError> {
        if self.watch {
            let mut rx = shutdown.receiver();
            tokio::spawn(async move {
                use tokio::sync::broadcast::error::RecvError;
                loop {
                    match rx.recv().await {
                        Ok(s) => log(format!("seen {}", status_tok(&s))),
                        Err(RecvError::Lagged(n)) => log(format!("seenlag {}", n)),
                        Err(RecvError::Closed) => break,
                    }
                }
            });
        }
        if self.spec.listen && self.net_ok {
            let _ = machine.protocol::<Udp>().unwrap().listen(self.id(), Endpoint::new(ip(self.me), 9100 + K as u16), machine.clone());
        }
        if self.spec.rogue && self.net_ok {
            // deliberately undisciplined: used only by hand-written cases to see that the oracle notices
            self.send_one(&machine).await;
        }
        if self.spec.pre < 0 {
            std::future::pending::<()>().await;
        }
        if self.spec.pre > 0 {
            tokio::time::sleep(Duration::from_millis(self.spec.pre as u64)).await;
        }
        for (w, st) in self.spec.shots.iter().filter(|x| x.0 < 0) {
            let _ = w;
            self.shoot(&shutdown, *st);
        }
        log(format!("arrive a{}", self.spec.id));
        initialized.wait().await;
        log(format!("released a{}", self.spec.id));
        let t0 = tokio::time::Instant::now();
        if self.spec.send && self.net_ok {
            self.send_one(&machine).await;
        }
        let mut post: Vec<(i64, i64)> = self.spec.shots.iter().filter(|x| x.0 >= 0).cloned().collect();
        // stable: requests of one instant are made in the order listed in the case
        post.sort_by_key(|x| x.0);
        for (w, st) in post {
            tokio::time::sleep_until(t0 + Duration::from_millis(w as u64)).await;
            self.shoot(&shutdown, st);
        }
        let _ = self.multi;
        if self.spec.hang {
            std::future::pending::<()>().await;
        }
        Ok(())
    }

    fn demux(&self, _m: Message, _c: Arc<dyn Session>, _ctl: Control, _machine: Arc<Machine>) -> Result<(), DemuxError> {
        log(format!("demux a{}", self.spec.id));
        Ok(())
    }
}

fn with_happ(m: Machine, h: &HSpec, me: usize, peer: usize, net_ok: bool, multi: bool) -> Machine {
    let watch = h.id == 0;
    macro_rules! mk {
        ($k:literal) => {
            m.with(Happ::<$k> { spec: h.clone(), me, peer, net_ok, watch, multi })
        };
    }
    match h.k {
        0 => mk!(0),
        1 => mk!(1),
        2 => mk!(2),
        _ => mk!(3),
    }
}

fn build_machine(c: &Case, mi: usize, net: &Arc<Network>) -> Arc<Machine> {
    let ms = &c.machines[mi];
    let peer = if ms.peer < c.machines.len() { ms.peer } else { mi };
    let peer_mac = if c.mac { mac_of(c, peer) } else { None };
    let table: IpTable<Recipient> = [("0.0.0.0/0", Recipient::new(0, peer_mac))].into_iter().collect();
    let mut m = Machine::new();
    for t in &ms.tokens {
        let f: Vec<&str> = t.split(':').collect();
        let a = |i: usize| -> i64 { f.get(i).and_then(|x| x.parse().ok()).unwrap_or(0) };
        m = match f[0] {
            "Udp" => m.with(Udp::new()),
            "Tcp" => m.with(Tcp::new()),
            "Ipv4" => m.with(Ipv4::new(table.clone())),
            "Arp" => m.with(Arp::new()),
            "Pci" => m.with(Pci::new([net.clone()])),
            "SocketAPI" => m.with(SocketAPI::new(Some(ip(mi)))),
            "DnsClient" => m.with(DnsClient::new()),
            "SendMessage" => m.with(SendMessage::new(vec![Message::new(vec![7u8; 8])], Endpoint::new(ip(peer), 9000)).local_ip(ip(mi))),
            "Capture" => {
                let cap = Capture::new(Endpoint::new(ip(mi), 9000), a(1) as u32);
                if a(2) >= 0 {
                    m.with(cap.exit_status(a(2) as u32))
                } else {
                    m.with(cap)
                }
            }
            "Forward" => m.with(Forward::new(Endpoints {
                local: Endpoint::new(ip(mi), 9600),
                remote: Endpoint::new(ip(peer), 9000),
            })),
            "OnReceive" => m.with(OnReceive::new(|_m, _c| {}, Endpoint::new(ip(mi), 9200))),
            "BasicServer" => m.with(BasicServer::new(Endpoint::new(ip(mi), 9300), Transport::Udp, false, 1)),
            "ThroughputTester" => m.with(ThroughputTester::new(
                Endpoint::new(ip(mi), 9000),
                a(1) as u8,
                Duration::ZERO..Duration::from_secs(100_000),
            )),
            "DhcpServer" => m.with(DhcpServer::new(ip(mi), IpRange::new(1.into(), 255.into()))),
            "ArpRouter" => {
                let t: IpTable<(Option<Ipv4Address>, u32)> = [("0.0.0.0/0", (None, 0u32))].into_iter().collect();
                m.with(ArpRouter::new(t, vec![ip(mi)]))
            }
            "PingPong" => m.with(PingPong::new(
                a(1) != 0,
                Endpoints { local: Endpoint::new(ip(mi), 9500), remote: Endpoint::new(ip(peer), 9500) },
            )),
            "TcpListenerServer" => m.with(TcpListenerServer::new(Endpoint::new(ip(peer), 70), Endpoint::new(ip(mi), 80))),
            "TcpStreamClient" => m.with(TcpStreamClient::new(Endpoint::new(ip(mi), 70), Endpoint::new(ip(peer), 80))),
            "SocketServer" => m.with(
                SocketServer::new().transport(if a(1) != 0 { SocketType::Datagram } else { SocketType::Stream }).num_clients(1),
            ),
            "SocketClient" => m.with(SocketClient::new(
                1,
                ip(peer),
                0xbeef,
                if a(1) != 0 { SocketType::Datagram } else { SocketType::Stream },
                false,
                0,
            )),
            other => panic!("unknown token {}", other),
        };
    }
    let net_ok = ms.has("Udp") && ms.has("Ipv4") && ms.has("Pci");
    for h in &ms.apps {
        m = with_happ(m, h, mi, peer, net_ok, c.flavor != 0);
    }
    m.arc()
}

static STALL_NS: std::sync::atomic::AtomicU64 = std::sync::atomic::AtomicU64::new(0);

fn child(case: &str) -> ! {
    let c = parse_case(case).expect("case");
    // run_internet chains to the hook installed here before it exits the process: report where the panic was
    std::panic::set_hook(Box::new(|info| {
        use std::io::Write;
        let loc = info.location().map(|l| format!("{}:{}", l.file(), l.line())).unwrap_or_else(|| "?".into());
        let msg = if let Some(s) = info.payload().downcast_ref::<&str>() {
            s.to_string()
        } else if let Some(s) = info.payload().downcast_ref::<String>() {
            s.clone()
        } else {
            "?".to_string()
        };
        println!("OUT panic {} {}", loc, msg.replace('\n', " "));
        let _ = std::io::stdout().flush();
    }));
    Recorder::install(Box::new(|_i, _f| elvis_core::network::verif::FrameFate::Deliver), false);
    let flavor = if c.flavor == 0 { Flavor::CurrentPaused } else { Flavor::Multi(c.flavor) };
    let c_flavor = c.flavor;
    if c_flavor != 0 {
        // real-time runs on a shared host: measure how long this process was not scheduled (an OS thread that
        // sleeps 2 ms at a time records its largest oversleep); the real-time deadline check allows for it
        std::thread::spawn(|| loop {
            let t = std::time::Instant::now();
            std::thread::sleep(Duration::from_millis(2));
            let over = t.elapsed().as_nanos().saturating_sub(2_000_000) as u64;
            STALL_NS.fetch_max(over, std::sync::atomic::Ordering::Relaxed);
        });
    }
    let out: Vec<String> = block_on(flavor, async move {
        start_clock();
        let net = Network::basic();
        register_network(&net);
        let machines: Vec<Arc<Machine>> = (0..c.machines.len()).map(|i| build_machine(&c, i, &net)).collect();
        let status = if c.tmo >= 0 {
            run_internet_with_timeout(&machines, Duration::from_millis(c.tmo as u64)).await
        } else {
            run_internet(&machines, None).await
        };
        let el = now_ns();
        log("return".to_string());
        // let the independent subscriber (another task, maybe on another thread) log what it received; under
        // paused time too: the run task and the subscriber are woken by the same broadcast and the run task may be
        // polled first (virtual time only advances once every ready task has been polled, so the subscriber logs
        // at the instant of the request)
        let _ = c_flavor;
        tokio::time::sleep(Duration::from_millis(4)).await;
        let out = vec![
            format!("status {}", status_tok(&status)),
            format!("elapsed {}", el),
            format!("stall {}", STALL_NS.load(std::sync::atomic::Ordering::Relaxed)),
        ];
        // finish INSIDE the runtime: dropping a multi-thread runtime while Machine::start tasks are still pending
        // lets one of them observe JoinError::Cancelled of a protocol task; its `.expect("start method should not
        // panic!")` (machine.rs:60) then panics into the hook run_internet left installed, which exits with code 1
        child_finish(&out)
    });
    #[allow(unreachable_code)]
    child_finish(&out)
}

// ------------------------------------------------------------------ parent: generator

const BUILTIN_UDP_APPS: [&str; 9] =
    ["SendMessage", "Capture", "Forward", "OnReceive", "BasicServer", "ThroughputTester", "DhcpServer", "PingPong", "DnsClient"];

fn gen_shots(rng: &mut Rng, tmo: i64, paused: bool, common_when: i64) -> String {
    let n = match rng.below(12) {
        0..=2 => 0,
        3..=9 => 1,
        _ => 2,
    };
    if n == 0 {
        return "-".into();
    }
    let mut v = vec![];
    for _ in 0..n {
        let d = tmo.max(0);
        let when = if paused {
            match rng.below(14) {
                0 => -1,
                1 | 2 => 0,
                3 => 1,
                4 => 10,
                5 => common_when,
                6 => common_when,
                7 => (d - 1).max(0),
                8 => d,
                9 => d + 1,
                10 => d + 999,
                11 => d + 1000,
                12 => d + 1500,
                _ => rng.range(0, (d as u64).max(1) * 2) as i64,
            }
        } else {
            match rng.below(8) {
                0 => -1,
                1 | 2 => 0,
                3 | 4 => common_when,
                5 => d + 40,
                _ => rng.range(0, (d as u64).max(1)) as i64,
            }
        };
        let st = match rng.below(6) {
            0 => -1,
            1 => 0,
            2 => 4_294_967_295,
            _ => rng.range(1, 9) as i64,
        };
        v.push(format!("{}/{}", when, st));
    }
    v.join(",")
}

fn gen_happ(rng: &mut Rng, k: usize, tmo: i64, paused: bool, common_when: i64, slow: bool, net: bool) -> String {
    let pre = if slow {
        if paused {
            *rng.pick(&[20i64, 50, 300])
        } else {
            *rng.pick(&[15i64, 25])
        }
    } else {
        match rng.below(20) {
            0 => -1,
            1..=9 => 0,
            10 | 11 => 1,
            12..=15 => 5,
            _ => {
                if paused {
                    *rng.pick(&[20i64, 100, 2500])
                } else {
                    10
                }
            }
        }
    };
    let hang = rng.coin(1, 8);
    format!(
        "h{}:{}:{}:{}:{}:0:{}",
        k,
        pre,
        if net && rng.coin(2, 3) { 1 } else { 0 },
        if net && rng.coin(1, 2) { 1 } else { 0 },
        if hang { 1 } else { 0 },
        gen_shots(rng, tmo, paused, common_when)
    )
}

fn pick_flavor(rng: &mut Rng) -> usize {
    match rng.below(12) {
        0..=7 => 0,
        8 => 2,
        9 => 3,
        10 => 8,
        _ => 16,
    }
}

fn pick_tmo(rng: &mut Rng, paused: bool) -> i64 {
    if paused {
        *rng.pick(&[0i64, 1, 10, 100, 1000, 1000, 5000, 5000, 60000])
    } else {
        *rng.pick(&[0i64, 15, 30, 60])
    }
}

struct C13;

impl Family for C13 {
    fn gen(rng: &mut Rng, _idx: usize) -> String {
        let flavor = pick_flavor(rng);
        let paused = flavor == 0;
        let tmo = pick_tmo(rng, paused);
        let mac = rng.coin(1, 2);
        let common_when = *rng.pick(&[0i64, 5, 10]);
        let stream = rng.below(100);
        let mut ms: Vec<String> = vec![];
        if stream < 40 {
            // harness-centric: 0..4 machines of any kind
            let n = match rng.below(12) {
                0 => 0,
                1 | 2 => 1,
                3..=6 => 2,
                7..=9 => 3,
                _ => 4,
            };
            for _ in 0..n {
                let kind = rng.below(10);
                let mut toks = vec![format!("{}", rng.below(n.max(1) as u64))];
                let net = kind >= 5;
                if kind == 0 {
                    // empty machine
                } else {
                    if net {
                        toks.extend(["Udp", "Ipv4", "Pci"].iter().map(|s| s.to_string()));
                        if rng.coin(1, 2) {
                            toks.push("Arp".into());
                        }
                        if rng.coin(1, 3) {
                            toks.push("Tcp".into());
                        }
                    }
                    let na = match rng.below(6) {
                        0 => 0,
                        1..=3 => 1,
                        4 => 2,
                        _ => 4,
                    };
                    for k in 0..na {
                        toks.push(gen_happ(rng, k, tmo, paused, common_when, false, net));
                    }
                }
                ms.push(toks.join(" "));
            }
        } else if stream < 78 {
            // built-in mixes on one network + slow harness applications that hold the barrier shut
            let n = rng.range(2, 5) as usize;
            // 0: nobody has Arp, 1: everybody, 2: mixed (only when the tables name the MAC: an unanswered
            // resolution makes SendMessage/Forward/PingPong panic in `open(..).await.unwrap()`, a configuration error)
            let arp_all = if mac { rng.below(3) } else { rng.below(2) };
            let mut slow_placed = false;
            let mut router_placed = false;
            for i in 0..n {
                let mut toks = vec![format!("{}", (i + 1 + rng.below(n as u64 - 1) as usize) % n)];
                toks.extend(["Udp", "Ipv4", "Pci"].iter().map(|s| s.to_string()));
                let arp = match arp_all {
                    0 => false,
                    1 => true,
                    _ => rng.coin(1, 2),
                };
                if arp {
                    toks.push("Arp".into());
                }
                if rng.coin(1, 4) {
                    toks.push("Tcp".into());
                }
                let napp = rng.range(0, 3);
                let mut chosen: Vec<&str> = vec![];
                for _ in 0..napp {
                    let a = *rng.pick(&BUILTIN_UDP_APPS[..]);
                    // Capture and ThroughputTester share the port 9000
                    if chosen.contains(&a) || (a == "Capture" && chosen.contains(&"ThroughputTester")) || (a == "ThroughputTester" && chosen.contains(&"Capture")) {
                        continue;
                    }
                    chosen.push(a);
                    toks.push(match a {
                        "Capture" => format!("Capture:{}:{}", rng.range(1, 2), rng.range(0, 6) as i64 - 1),
                        "ThroughputTester" => format!("ThroughputTester:{}", rng.range(1, 2)),
                        "PingPong" => format!("PingPong:{}", rng.below(2)),
                        x => x.to_string(),
                    });
                }
                if arp && !mac && !chosen.contains(&"OnReceive") {
                    // every machine answers ARP for its own address
                    toks.push("OnReceive".into());
                }
                if arp_all == 1 && !router_placed && rng.coin(1, 8) {
                    router_placed = true;
                    toks.push("ArpRouter".into());
                }
                let nh = rng.below(3) as usize;
                for k in 0..nh {
                    let slow = !slow_placed || rng.coin(1, 3);
                    slow_placed = true;
                    toks.push(gen_happ(rng, k, tmo, paused, common_when, slow, true));
                }
                ms.push(toks.join(" "));
            }
        } else if stream < 88 {
            // socket family: a server/client pair over SocketAPI (pre-barrier `new_socket().await`) + harness applications
            let dgram = rng.below(2);
            let which = rng.below(2);
            let arp = !mac || rng.coin(1, 2);
            for i in 0..2usize {
                let mut toks = vec![format!("{}", 1 - i)];
                toks.extend(["Udp", "Tcp", "Ipv4", "Pci", "SocketAPI"].iter().map(|s| s.to_string()));
                if arp {
                    toks.push("Arp".into());
                }
                toks.push(match (which, i) {
                    (0, 0) => "TcpListenerServer".to_string(),
                    (0, _) => "TcpStreamClient".to_string(),
                    (_, 0) => format!("SocketServer:{}", dgram),
                    (_, _) => format!("SocketClient:{}", dgram),
                });
                if rng.coin(2, 3) {
                    toks.push(gen_happ(rng, 0, tmo, paused, common_when, i == 0, true));
                }
                ms.push(toks.join(" "));
            }
        } else {
            // bursts of shutdown requests: plain `shut_down()` (Exited, written -1) mixed with
            // `shut_down_with_status(Status(k))`, often more than the 16 slots of the channel before the run task is polled
            let total = *rng.pick(&[5usize, 12, 16, 17, 17, 18, 24, 40]);
            let when = *rng.pick(&[-1i64, 0, 0, 7]);
            let mut st = rng.range(1, 50) as i64;
            // position-controlled mixes: 0 first plain then explicit, 1 first explicit then plain, 2 plain only at
            // the end, 3 random mix, 4 all explicit
            let mix = rng.below(5);
            let status_at = |i: usize, rng: &mut Rng, st: &mut i64| -> i64 {
                let plain = match mix {
                    0 => i == 0,
                    1 => i != 0,
                    2 => i + 1 == total,
                    3 => rng.coin(2, 5),
                    _ => false,
                };
                if plain {
                    -1
                } else {
                    *st += 1;
                    *st
                }
            };
            if rng.coin(1, 2) {
                // one application makes the whole burst itself, in the listed order, without yielding
                let shots: Vec<String> = (0..total).map(|i| format!("{}/{}", when, status_at(i, rng, &mut st))).collect();
                ms.push(format!("0 h0:0:0:0:{}:0:{}", rng.below(2), shots.join(",")));
                if rng.coin(1, 2) {
                    ms.push(format!("0 h0:{}:0:0:0:0:{}/{}", if when < 0 { 3 } else { 0 }, when.max(0) + 1, 77));
                }
            } else {
                // one request per application: the scheduler decides who is first
                let mut left = total;
                let mut i = 0usize;
                while left > 0 {
                    let k = left.min(4);
                    let mut toks = vec!["0".to_string()];
                    for j in 0..k {
                        toks.push(format!("h{}:0:0:0:{}:0:{}/{}", j, rng.below(2), when, status_at(i, rng, &mut st)));
                        i += 1;
                    }
                    left -= k;
                    ms.push(toks.join(" "));
                }
            }
        }
        // run_internet without a timeout only when something is sure to end the run: a request made before the
        // barrier by an application that reaches that point, or every protocol drops its Shutdown in the end
        let mut tmo = tmo;
        if rng.coin(1, 10) {
            let joined = ms.join(" ; ");
            let blocked = joined.contains(":-1:");
            let hangs = joined.split_whitespace().any(|t| t.starts_with('h') && t.split(':').nth(4) == Some("1"));
            let sure_shot = joined.contains("-1/") && !blocked;
            let droppers = ["Udp", "Tcp", "Ipv4", "Arp", "Pci", "DnsClient", "OnReceive", "DhcpServer", "ArpRouter"];
            let all_drop = !blocked
                && !hangs
                && joined.split_whitespace().all(|t| t == ";" || t.parse::<u64>().is_ok() || t.starts_with('h') || droppers.contains(&t));
            if sure_shot || all_drop {
                tmo = -1;
            }
        }
        let mut s = format!("{} {} {}", flavor, tmo, if mac { 1 } else { 0 });
        for m in ms {
            s.push_str(" ; ");
            s.push_str(&m);
        }
        s
    }

    fn realtime(case: &str) -> bool {
        parse_case(case).map_or(false, |c| c.flavor != 0)
    }

    fn run(case: &str) -> Outcome {
        let c = match parse_case(case) {
            Some(c) => c,
            None => return Outcome { impl_line: "ERR parse".into(), oracle: Oracle::Ok },
        };
        let paused = c.flavor == 0;
        stat(if paused { "flavor paused" } else { "flavor multi" });
        stat(&format!("machines {}", c.machines.len().min(6)));
        stat(&format!("apps {}", if c.napps > 16 { ">16".to_string() } else { c.napps.to_string() }));
        stat(&format!("timeout {}", if c.tmo < 0 { "none" } else if c.tmo == 0 { "0" } else { "positive" }));
        for m in &c.machines {
            if m.tokens.is_empty() && m.apps.is_empty() {
                stat("machine empty");
            }
            for t in &m.tokens {
                stat(&format!("proto {}", t.split(':').next().unwrap()));
            }
            for h in &m.apps {
                stat(if h.pre < 0 {
                    "app never-arrives"
                } else if h.pre == 0 {
                    "app prompt"
                } else {
                    "app slow-init"
                });
                if h.hang {
                    stat("app start-never-returns");
                }
                if h.shots.is_empty() {
                    stat("app never-shuts-down");
                }
                if h.shots.len() > 16 {
                    stat(match (h.shots[0].1 < 0, h.shots.iter().skip(1).any(|x| x.1 < 0), h.shots.iter().skip(1).any(|x| x.1 >= 0)) {
                        (true, _, true) => "burst >16 by one app: first plain, explicit later",
                        (false, true, _) => "burst >16 by one app: first explicit, plain later",
                        (true, _, false) => "burst >16 by one app: all plain",
                        (false, false, _) => "burst >16 by one app: all explicit",
                    });
                }
                for (_, st) in &h.shots {
                    stat(if *st < 0 { "request plain shut_down()" } else { "request shut_down_with_status(k)" });
                }
                for (w, _) in &h.shots {
                    stat(if *w < 0 {
                        "shot before-barrier"
                    } else if c.tmo >= 0 && *w >= c.tmo {
                        "shot after-timeout(approx)"
                    } else {
                        "shot after-release"
                    });
                }
            }
        }
        let forward_class: Vec<usize> = (0..c.machines.len())
            .filter(|i| {
                let m = &c.machines[*i];
                m.has("Forward") && m.has("Arp") && !c.mac
            })
            .collect();
        if !forward_class.is_empty() {
            stat("class forward+arp+no-mac");
        }
        let r = run_child(case, Duration::from_secs(25));
        if r.timed_out {
            stat("result HANG");
            return Outcome { impl_line: "HANG".into(), oracle: Oracle::Fail("child did not return within 25 s wall clock".into()) };
        }
        if !r.clean {
            stat("result CRASH");
            let pan = r.out.iter().find_map(|l| l.strip_prefix("panic ")).unwrap_or("?").to_string();
            let loc = pan.split_whitespace().next().unwrap_or("?").to_string();
            let file = loc.rsplit('/').next().unwrap_or("?").to_string();
            let msg = format!("the run did not return: child died with code {:?}, panic at {}", r.exit_code, pan.chars().take(200).collect::<String>());
            // confirmed classes only
            let oracle = if !forward_class.is_empty() && file.starts_with("pci_session.rs:") {
                stat("crash: tap received a frame before Pci::start (forward class)");
                Oracle::Known("c13-forward-acts-before-barrier".into(), msg)
            } else if pan.ends_with("Shutdown")
                && ["socket_server.rs:175", "tcp_listener_server.rs:42", "tcp_stream_client.rs:50", "tcp_stream_client.rs:71", "tcp_listener_server.rs:47", "tcp_listener_server.rs:58"]
                    .iter()
                    .any(|x| file == *x)
            {
                stat("crash: application start unwraps Err(Shutdown)");
                Oracle::Known("c13-app-start-panics-on-shutdown".into(), msg)
            } else {
                Oracle::Fail(msg)
            };
            return Outcome { impl_line: format!("CRASH {}", file), oracle };
        }
        // ---- digest the log
        let status = r.out.iter().find_map(|l| l.strip_prefix("status ")).unwrap_or("?").to_string();
        let elapsed: u128 = r.out.iter().find_map(|l| l.strip_prefix("elapsed ")).and_then(|x| x.parse().ok()).unwrap_or(0);
        let stall: u128 = r.out.iter().find_map(|l| l.strip_prefix("stall ")).and_then(|x| x.parse().ok()).unwrap_or(0);
        // slack of the real-time deadline check: 250 ms + twice the largest scheduling stall the child measured
        let rt_slack: u128 = if paused { 0 } else { 250_000_000 + 2 * stall };
        if stall > 100_000_000 {
            stat("multi: host stalled the child for more than 100 ms");
        }
        #[derive(Clone, Debug)]
        enum Ev {
            Arrive(usize),
            Release(usize),
            Req(usize, String, u128),
            Sent(usize, String, u128),
            Seen(String, u128),
            Frame(Option<usize>, String),
            Dlv(Option<usize>),
            Demux(usize),
        }
        let mut evs: Vec<Ev> = vec![];
        // what the independent subscriber received first, even if it logged it after the run had returned
        let first_seen_any: Option<String> = r.events.iter().find_map(|(_, text)| text.strip_prefix("seen ").map(|x| x.to_string()));
        for (t, text) in &r.events {
            let w: Vec<&str> = text.split_whitespace().collect();
            let app = |s: &str| -> usize { s[1..].parse().unwrap_or(usize::MAX) };
            match w[0] {
                "return" => break,
                "arrive" => evs.push(Ev::Arrive(app(w[1]))),
                "released" => evs.push(Ev::Release(app(w[1]))),
                "req" => evs.push(Ev::Req(app(w[1]), w[2].to_string(), *t)),
                "sent" => evs.push(Ev::Sent(app(w[1]), w[2].to_string(), *t)),
                "seen" => evs.push(Ev::Seen(w[1].to_string(), *t)),
                "seenlag" => stat("watcher lagged"),
                "demux" => evs.push(Ev::Demux(app(w[1]))),
                "send" => {
                    let from = w.iter().find_map(|x| x.strip_prefix("from=")).and_then(|x| x.parse::<u64>().ok());
                    let proto = w.iter().find_map(|x| x.strip_prefix("proto=")).unwrap_or("?").to_string();
                    evs.push(Ev::Frame(from.and_then(|m| machine_of_mac(&c, m)), proto));
                }
                "dlv" => {
                    let tap = w.iter().find_map(|x| x.strip_prefix("tap=")).and_then(|x| x.parse::<u64>().ok());
                    evs.push(Ev::Dlv(tap.and_then(|m| machine_of_mac(&c, m))));
                }
                _ => {}
            }
        }
        // The run task and the subscriber are woken by the same broadcast; when the run task is polled first the
        // subscriber logs after `return`, but (virtual time) at the very instant of the request: that is still
        // the observation of a request made before the return.
        if paused && !evs.iter().any(|e| matches!(e, Ev::Seen(..))) {
            let mut after = false;
            for (t, text) in &r.events {
                if text == "return" {
                    after = true;
                } else if after {
                    if let Some(s) = text.strip_prefix("seen ") {
                        if *t == elapsed {
                            stat("subscriber logged after the return, same instant");
                            evs.push(Ev::Seen(s.to_string(), *t));
                        }
                        break;
                    }
                }
            }
        }
        // ---- impl line (events after the last release are irrelevant to the barrier part: frames are dropped there)
        let mut line = format!("RET {} {} ; Z:{}", status, elapsed, rt_slack);
        {
            let mut arrived = 0usize;
            let mut released = 0usize;
            let mut dropped = 0usize;
            for e in &evs {
                let quiet = c.napps > 0 && released >= c.napps;
                match e {
                    Ev::Arrive(i) => {
                        arrived += 1;
                        line.push_str(&format!(" a{}", i))
                    }
                    Ev::Release(i) => {
                        released += 1;
                        line.push_str(&format!(" r{}", i))
                    }
                    Ev::Req(i, s, t) => line.push_str(&format!(" q{}:{}@{}", i, s, t)),
                    Ev::Sent(i, s, _) => line.push_str(&format!(" s{}:{}", i, s)),
                    Ev::Seen(s, t) => line.push_str(&format!(" w:{}@{}", s, t)),
                    Ev::Frame(m, p) => {
                        if quiet {
                            dropped += 1
                        } else {
                            line.push_str(&format!(" f{}:{}", m.map(|x| x as i64).unwrap_or(-1), p))
                        }
                    }
                    Ev::Dlv(m) => {
                        if quiet {
                            dropped += 1
                        } else {
                            line.push_str(&format!(" v{}", m.map(|x| x as i64).unwrap_or(-1)))
                        }
                    }
                    Ev::Demux(i) => {
                        if quiet {
                            dropped += 1
                        } else {
                            line.push_str(&format!(" d{}", i))
                        }
                    }
                }
            }
            let _ = arrived;
            if let Some(w) = &first_seen_any {
                line.push_str(&format!(" W:{}", w));
            }
            if dropped > 0 {
                stat("frames after the release (not part of the impl line)");
            }
        }
        stat(&format!("result {}", if status.starts_with('S') { "Status" } else { &status }));

        // ---- property oracle, part 1: nothing on a network, nothing received, nobody released before the last arrival
        let mut fails: Vec<String> = vec![];
        let mut known: Option<String> = None;
        {
            let mut arrived = std::collections::BTreeSet::new();
            let mut early: Vec<&Ev> = vec![];
            for e in &evs {
                match e {
                    Ev::Arrive(i) => {
                        if !arrived.insert(*i) {
                            fails.push(format!("application a{} arrived twice", i));
                        }
                    }
                    Ev::Release(_) | Ev::Frame(..) | Ev::Dlv(_) | Ev::Demux(_) => {
                        if c.napps > 0 && arrived.len() < c.napps {
                            early.push(e);
                        }
                    }
                    _ => {}
                }
            }
            if c.napps > 0 && arrived.len() == c.napps {
                stat("barrier: all harness applications arrived");
            } else if c.napps > 0 {
                stat("barrier: never complete in this run");
            }
            if !early.is_empty() {
                stat("EARLY network activity");
                let first_frame_src = early.iter().find_map(|e| if let Ev::Frame(m, _) = e { Some(*m) } else { None });
                let only_arp = early.iter().all(|e| match e {
                    Ev::Frame(_, p) => p == "arp",
                    Ev::Release(_) => false,
                    _ => true,
                });
                let from_class = matches!(first_frame_src, Some(Some(m)) if forward_class.contains(&m));
                let msg = format!(
                    "{} events before the last harness application reached the barrier ({} of {} arrived), first: {:?}",
                    early.len(),
                    arrived.len(),
                    c.napps,
                    early[0]
                );
                if only_arp && from_class {
                    known = Some(msg);
                } else {
                    fails.push(msg);
                }
            }
        }
        // ---- part 2: the status is that of the first request made before the timeout, else TimedOut; deadline
        {
            let d_ns: Option<u128> = if c.tmo >= 0 { Some(c.tmo as u128 * 1_000_000) } else { None };
            // statuses that built-in applications of this case may request (they do not log)
            let mut builtin_sts: Vec<String> = vec![];
            for m in &c.machines {
                for t in &m.tokens {
                    let f: Vec<&str> = t.split(':').collect();
                    match f[0] {
                        "Capture" => builtin_sts.push(shot_tok(f.get(2).and_then(|x| x.parse().ok()).unwrap_or(-1))),
                        "PingPong" | "ThroughputTester" | "TcpStreamClient" | "SocketServer" => builtin_sts.push("E".into()),
                        _ => {}
                    }
                }
            }
            // a harness request is `req` (logged before the call) ... `sent` (logged after it returned);
            // `seen` = what an independent subscriber of the same channel received, in channel order
            let reqs: Vec<(String, u128)> = evs.iter().filter_map(|e| if let Ev::Req(_, s, t) = e { Some((s.clone(), *t)) } else { None }).collect();
            let mut first: Option<(String, u128)> = None; // first request in log order (exact when paused)
            let mut acceptable: Vec<String> = vec![]; // multi: requests that no completed request precedes
            let mut completed_before = false;
            for e in &evs {
                match e {
                    Ev::Req(_, s, t) => {
                        if first.is_none() {
                            first = Some((s.clone(), *t));
                        }
                        if !completed_before {
                            acceptable.push(s.clone());
                        }
                    }
                    Ev::Sent(..) => completed_before = true,
                    Ev::Seen(s, t) if s != "T" => {
                        // not preceded by any req: a built-in application's request
                        if first.is_none() {
                            first = Some((s.clone(), *t));
                        }
                        if !completed_before {
                            acceptable.push(s.clone());
                        }
                        completed_before = true;
                    }
                    _ => {}
                }
            }
            let unobserved_builtin = c.napps == 0 && builtin_sts.contains(&status);
            if unobserved_builtin {
                // no harness application, hence no subscriber: a built-in application's request cannot be timed
                stat("status case: built-in request without an observer (status accepted, time unchecked)");
            } else if paused {
                match (&first, d_ns) {
                    (Some((s, t)), dd) if dd.map_or(true, |d| *t < d) => {
                        stat(if dd.is_some() { "status case: request strictly before the timeout" } else { "status case: request, no timeout" });
                        if &status != s {
                            // since /repo 0cf74903 the first request is remembered: no excuse when > 16 are queued
                            fails.push(format!("returned {} but the first request (of {} queued), at {} ns, was {}", status, reqs.len(), t, s));
                        }
                        if reqs.len() > 16 {
                            stat("status: more than 16 requests queued before the run task was polled");
                        }
                        if elapsed != *t {
                            fails.push(format!("returned at {} ns, the first request was made at {} ns", elapsed, t));
                        }
                    }
                    (Some((s, t)), Some(d)) if *t == d => {
                        stat("status case: request at the very instant of the timeout");
                        if &status != s && status != "T" {
                            fails.push(format!("returned {} with a request {} exactly at the timeout", status, s));
                        }
                        if elapsed != d {
                            fails.push(format!("returned at {} ns, timeout {} ns", elapsed, d));
                        }
                    }
                    (_, Some(d)) => {
                        stat("status case: no request before the timeout");
                        if status != "T" {
                            fails.push(format!("returned {} although no request was made before the timeout", status));
                        }
                        if elapsed != d {
                            fails.push(format!("timed out at {} ns, timeout was {} ns", elapsed, d));
                        }
                    }
                    (_, None) => {
                        stat("status case: no request, no timeout (all senders dropped)");
                        if status != "E" {
                            fails.push(format!("returned {} with no request and no timeout", status));
                        }
                    }
                }
            } else {
                // real time, real threads: order-insensitive version
                let margin: u128 = 15_000_000;
                let ok_req = acceptable.contains(&status) || (status != "T" && first_seen_any.as_deref() == Some(status.as_str()));
                let early_done: Option<u128> = evs.iter().find_map(|e| match e {
                    Ev::Sent(_, _, t) => Some(*t),
                    Ev::Seen(s, t) if s != "T" => Some(*t),
                    _ => None,
                });
                let mut bad: Option<String> = None;
                match d_ns {
                    Some(d) => {
                        let must_be_request = matches!(early_done, Some(t) if t + margin < d);
                        if must_be_request {
                            stat("status case: request well before the timeout (multi)");
                            if !ok_req {
                                bad = Some(format!("returned {} but a request completed at {:?} ns, acceptable {:?}", status, early_done, acceptable));
                            }
                        } else if !(status == "T" || ok_req) {
                            bad = Some(format!("returned {}: neither TimedOut nor one of the first requests {:?}", status, acceptable));
                        } else {
                            stat("status case: timeout or a request near it (multi)");
                        }
                    }
                    None => {
                        stat("status case: no timeout (multi)");
                        if !(ok_req || (acceptable.is_empty() && status == "E")) {
                            bad = Some(format!("no timeout: returned {}, acceptable {:?}", status, acceptable));
                        }
                    }
                }
                if reqs.len() > 16 {
                    stat("status: more than 16 requests queued before the return (multi)");
                }
                if let Some(b) = bad {
                    fails.push(b);
                }
            }
            // the deadline of the property, whatever the machines do
            if let Some(d) = d_ns {
                let slack = rt_slack;
                if elapsed > d + 1_000_000_000 + slack {
                    fails.push(format!("deadline: returned at {} ns > timeout {} ns + 1 s", elapsed, d));
                }
            }
        }
        let oracle = if !fails.is_empty() {
            Oracle::Fail(fails.join(" || "))
        } else if let Some(k) = known {
            Oracle::Known("c13-forward-acts-before-barrier".into(), k)
        } else {
            Oracle::Ok
        };
        Outcome { impl_line: line, oracle }
    }
}

fn main() {
    if let Some(case) = child_case() {
        child(&case);
    }
    main_loop::<C13>();
}
