//! C15 (generator part): lock-step of `elvis::ip_generator::IpGenerator` against the extracted
//! model (ocaml/ipgen_drv.ml) on operation histories, plus the property oracle.
//!
//! case:   <ctor> ; <op> ; <op> ...
//!   ctor: new S E | sub IP LEN | noends IP LEN | all | none | blocked_out
//!   op:   b IP LEN (block_subnet) | i (fetch_ip) | f LEN (fetch_net) | r IP LEN (return_subnet)
//!         | r1 IP (return_ip) | a IP LEN (is_available) | R (block_reserved_ips)
//!         | rh K (return_subnet of the K-th block handed out and not yet returned this way;
//!                 no-op when there is none) -- resolved here, the model sees `r ID BITS`
//! result: <state> | <ret> <state'> | ...   state = the stored ranges in set order, `s-e,s-e` or `{}`,
//!         `=` when unchanged; ret = - | none | net:ID/BITS | ip:A | T | F; a panic prints PANIC.
//!
//! The stored ranges are private; they are read through the public `Debug` impl and cross-checked
//! at the end of every history by draining a clone through `into_ip_iter()`.
//!
//! Oracle (independent of the Coq model): the expected availability is computed from the
//! operations alone, (a) with a normalised interval set for every pool and (b) additionally with
//! a plain per-address bitmap when everything the history touches fits into 4096 addresses.
//! held := handed out and not returned since; blocked := blocked and not returned since;
//! pool := initially offered or returned.  Checked: the constructor offers exactly its pool
//! (sub: the subnet; noends: the host addresses); every block/return changes availability
//! exactly; everything handed out is aligned, has the requested mask, lies in the pool and
//! touches nothing held or blocked; fetch_ip reports None only on exhaustion and fetch_net only when no
//! stored range contains a free aligned block of the requested size; a final drain
//! hands out every available address exactly once and then None.
use elvis::ip_generator::{IpGenerator, IpRange};
use elvis_core::protocols::arp::subnetting::{Ipv4Mask, Ipv4Net};
use elvis_core::protocols::ipv4::Ipv4Address;
use elvis_verif_harness::*;
use std::panic::{catch_unwind, AssertUnwindSafe};

struct IpGen;

const MAX: u64 = 0xffff_ffff;

// ---------------------------------------------------------------- independent interval set
#[derive(Clone, PartialEq, Debug, Default)]
struct ISet(Vec<(u64, u64)>); // sorted, disjoint, non-adjacent, lo <= hi

impl ISet {
    fn add(&mut self, lo: u64, hi: u64) {
        if lo > hi {
            return;
        }
        let (mut lo, mut hi) = (lo, hi);
        let mut out = Vec::with_capacity(self.0.len() + 1);
        for &(a, b) in &self.0 {
            if b + 1 < lo || hi + 1 < a {
                out.push((a, b));
            } else {
                lo = lo.min(a);
                hi = hi.max(b);
            }
        }
        out.push((lo, hi));
        out.sort();
        self.0 = out;
    }
    fn sub(&mut self, lo: u64, hi: u64) {
        if lo > hi {
            return;
        }
        let mut out = Vec::with_capacity(self.0.len() + 1);
        for &(a, b) in &self.0 {
            if b < lo || hi < a {
                out.push((a, b));
            } else {
                if a < lo {
                    out.push((a, lo - 1));
                }
                if hi < b {
                    out.push((hi + 1, b));
                }
            }
        }
        self.0 = out;
    }
    fn covers(&self, lo: u64, hi: u64) -> bool {
        self.0.iter().any(|&(a, b)| a <= lo && hi <= b)
    }
    fn meets(&self, lo: u64, hi: u64) -> bool {
        self.0.iter().any(|&(a, b)| a <= hi && lo <= b)
    }
    fn is_empty(&self) -> bool {
        self.0.is_empty()
    }
    fn has_aligned_block(&self, size: u64) -> bool {
        self.0.iter().any(|&(a, b)| {
            let id = (a + size - 1) / size * size;
            id + size - 1 <= b
        })
    }
    fn count(&self) -> u64 {
        self.0.iter().map(|&(a, b)| b - a + 1).sum()
    }
}

fn mask_of(len: u64) -> u64 {
    let len = len.min(32);
    if len == 0 {
        0
    } else {
        (MAX << (32 - len)) & MAX
    }
}
/// (id, broadcast) of new_short(ip, len), computed with plain integer arithmetic
fn net_bounds(ip: u64, len: u64) -> (u64, u64) {
    let m = mask_of(len);
    let id = ip & m;
    (id, id | (!m & MAX))
}

const RESERVED: [([u8; 4], u64); 17] = [
    ([0, 0, 0, 0], 8),
    ([10, 0, 0, 0], 8),
    ([100, 64, 0, 0], 10),
    ([127, 0, 0, 0], 8),
    ([169, 254, 0, 0], 16),
    ([172, 16, 0, 0], 12),
    ([192, 0, 0, 0], 24),
    ([192, 0, 2, 0], 24),
    ([192, 88, 99, 0], 24),
    ([192, 168, 0, 0], 16),
    ([198, 18, 0, 0], 15),
    ([198, 51, 100, 0], 24),
    ([203, 0, 113, 0], 24),
    ([224, 0, 0, 0], 4),
    ([233, 252, 0, 0], 24),
    ([240, 0, 0, 0], 4),
    ([255, 255, 255, 255], 32),
];
fn reserved_bounds() -> Vec<(u64, u64)> {
    RESERVED.iter().map(|(b, l)| net_bounds(u32::from_be_bytes(*b) as u64, *l)).collect()
}

// ---------------------------------------------------------------- reading the implementation
fn ip(a: u64) -> Ipv4Address {
    Ipv4Address::from(a as u32)
}
fn net(ipv: u64, len: u64) -> Ipv4Net {
    Ipv4Net::new_short(ip(ipv), len as u32)
}

/// the stored ranges, in the set's iteration order, read from the Debug rendering
fn ranges_of(g: &IpGenerator) -> Vec<(u64, u64)> {
    let s = format!("{:?}", g);
    let mut vals = Vec::new();
    let mut rest = s.as_str();
    while let Some(p) = rest.find("Ipv4Address([") {
        rest = &rest[p + "Ipv4Address([".len()..];
        let q = rest.find("])").expect("debug format");
        let bytes: Vec<u64> = rest[..q].split(',').map(|t| t.trim().parse().expect("octet")).collect();
        assert_eq!(bytes.len(), 4, "debug format");
        vals.push((bytes[0] << 24) | (bytes[1] << 16) | (bytes[2] << 8) | bytes[3]);
        rest = &rest[q..];
    }
    assert!(vals.len() % 2 == 0, "debug format");
    vals.chunks(2).map(|c| (c[0], c[1])).collect()
}
fn show_state(r: &[(u64, u64)]) -> String {
    if r.is_empty() {
        "{}".to_string()
    } else {
        r.iter().map(|(s, e)| format!("{}-{}", s, e)).collect::<Vec<_>>().join(",")
    }
}
fn normalise(r: &[(u64, u64)]) -> ISet {
    let mut s = ISet::default();
    for &(a, b) in r {
        s.add(a, b);
    }
    s
}

// ---------------------------------------------------------------- small-universe bitmap
struct Small {
    lo: u64,
    avail: Vec<bool>,
    held: Vec<bool>,
    blocked: Vec<bool>,
    pool: Vec<bool>,
}
impl Small {
    fn idx(&self, a: u64) -> usize {
        (a - self.lo) as usize
    }
    fn clip(&self, lo: u64, hi: u64) -> Option<(usize, usize)> {
        let top = self.lo + self.avail.len() as u64 - 1;
        if hi < self.lo || lo > top || lo > hi {
            return None;
        }
        Some((self.idx(lo.max(self.lo)), self.idx(hi.min(top))))
    }
    /// what the implementation offers inside the universe; Err if it offers something outside
    fn view(&self, r: &[(u64, u64)]) -> Result<Vec<bool>, String> {
        let mut v = vec![false; self.avail.len()];
        let top = self.lo + self.avail.len() as u64 - 1;
        for &(a, b) in r {
            if a > b {
                continue;
            }
            if a < self.lo || b > top {
                return Err(format!("offers {}-{} outside everything the history touched", a, b));
            }
            for i in self.idx(a)..=self.idx(b) {
                v[i] = true;
            }
        }
        Ok(v)
    }
}

// ---------------------------------------------------------------- generation
const EDGE_IPS: [u64; 14] = [
    0, 1, 2, 7, 8, 255, 256, 0x7fff_ffff, 0x8000_0000, 0xffff_ff00, 0xffff_fff8, 0xffff_fffd, 0xffff_fffe, 0xffff_ffff,
];

fn any_ip(rng: &mut Rng) -> u64 {
    match rng.below(4) {
        0 => *rng.pick(&EDGE_IPS),
        1 => (*rng.pick(&EDGE_IPS)).wrapping_add(rng.below(9)).wrapping_sub(4) & MAX,
        _ => rng.u32() as u64,
    }
}
fn near(rng: &mut Rng, lo: u64, hi: u64) -> u64 {
    let lo = lo.saturating_sub(6);
    let hi = (hi + 6).min(MAX);
    match rng.below(8) {
        0 => lo,
        1 => hi,
        _ => rng.range(lo, hi),
    }
}
fn small_len(rng: &mut Rng, pool_len: u64) -> u64 {
    match rng.below(10) {
        0..=2 => 32,
        3 => 31,
        4 => 30,
        5 => rng.range(pool_len.min(32), 32),
        6 => (pool_len + 1).min(32),
        7 => pool_len.min(32),
        8 => rng.range(28, 32),
        _ => rng.range(pool_len.saturating_sub(2).min(32), 32),
    }
}

fn gen_ops(rng: &mut Rng, lo: u64, hi: u64, pool_len: u64, big: bool, hostile: bool) -> Vec<String> {
    let n = if big { rng.range(1, 24) } else { rng.range(1, 40) };
    let mut ops = Vec::new();
    for _ in 0..n {
        let pick_ip = |rng: &mut Rng| if hostile || (big && rng.coin(1, 2)) { any_ip(rng) } else { near(rng, lo, hi) };
        let pick_len = |rng: &mut Rng| {
            if hostile {
                match rng.below(4) {
                    0 => rng.range(0, 40),
                    1 => *rng.pick(&[0u64, 1, 31, 32, 33]),
                    _ => rng.range(24, 32),
                }
            } else if big {
                match rng.below(4) {
                    0 => rng.range(0, 32),
                    1 => rng.range(0, 8),
                    _ => rng.range(8, 32),
                }
            } else {
                small_len(rng, pool_len)
            }
        };
        let op = match rng.below(100) {
            0..=21 => "i".to_string(),
            22..=37 => format!("f {}", pick_len(rng)),
            38..=55 => format!("b {} {}", pick_ip(rng), pick_len(rng)),
            56..=67 => format!("rh {}", rng.below(8)),
            68..=77 => format!("r {} {}", pick_ip(rng), pick_len(rng)),
            78..=87 => format!("r1 {}", pick_ip(rng)),
            88..=96 => format!("a {} {}", pick_ip(rng), pick_len(rng)),
            _ => {
                if big || hostile {
                    "R".to_string()
                } else {
                    "i".to_string()
                }
            }
        };
        ops.push(op);
    }
    ops
}

impl Family for IpGen {
    fn gen(rng: &mut Rng, _idx: usize) -> String {
        let class = rng.below(100);
        let (ctor, lo, hi, pool_len, big, hostile) = if class < 45 {
            // small subnet / range pools, also at both ends of the address space
            let len = match rng.below(6) {
                0 => rng.range(20, 24),
                1 | 2 => rng.range(24, 28),
                _ => rng.range(28, 32),
            };
            let base = match rng.below(5) {
                0 => 0,
                1 => MAX,
                _ => rng.u32() as u64,
            };
            let (id, bc) = net_bounds(base, len);
            let ctor = match rng.below(10) {
                0..=3 => format!("sub {} {}", if rng.coin(1, 2) { id } else { rng.range(id, bc) }, len),
                4..=6 => format!("noends {} {}", if rng.coin(1, 2) { id } else { rng.range(id, bc) }, len),
                7 => format!("new {} {}", id, bc),
                8 => {
                    let a = rng.range(id, bc);
                    let b = rng.range(id, bc);
                    format!("new {} {}", a, b) // may be inverted
                }
                _ => format!("new {} {}", rng.range(id, bc), bc),
            };
            (ctor, id, bc, len, false, false)
        } else if class < 60 {
            // unions made by returns
            let len = rng.range(24, 30);
            let base = match rng.below(5) {
                0 => 0,
                1 => MAX,
                _ => rng.u32() as u64,
            };
            let (id, bc) = net_bounds(base, len);
            ("none".to_string(), id, bc, len, false, false)
        } else if class < 82 {
            let ctor = match rng.below(8) {
                0 | 1 => "all".to_string(),
                2 | 3 => "blocked_out".to_string(),
                4 => format!("sub {} {}", any_ip(rng), rng.range(0, 12)),
                5 => format!("noends {} {}", any_ip(rng), rng.range(0, 12)),
                6 => format!("new 0 {}", any_ip(rng)),
                _ => format!("new {} {}", any_ip(rng), MAX),
            };
            (ctor, 0, MAX, 0, true, false)
        } else {
            let ctor = match rng.below(7) {
                0 => format!("new {} {}", any_ip(rng), any_ip(rng)),
                1 => format!("sub {} {}", any_ip(rng), rng.range(0, 40)),
                2 => format!("noends {} {}", any_ip(rng), *rng.pick(&[0u64, 1, 8, 24, 29, 30, 31, 32, 33])),
                3 => "none".to_string(),
                4 => "all".to_string(),
                5 => format!("noends {} {}", *rng.pick(&[0u64, MAX, MAX - 1, 1]), rng.range(28, 32)),
                _ => "blocked_out".to_string(),
            };
            (ctor, 0, MAX, 0, true, true)
        };
        let mut parts = vec![ctor];
        if class >= 45 && class < 60 {
            // seed the empty generator with returned singles and small blocks
            for _ in 0..rng.range(2, 10) {
                if rng.coin(2, 3) {
                    parts.push(format!("r1 {}", rng.range(lo, hi)));
                } else {
                    parts.push(format!("r {} {}", rng.range(lo, hi), rng.range(pool_len + 1, 32)));
                }
            }
        }
        parts.extend(gen_ops(rng, lo, hi, pool_len, big, hostile));
        parts.join(" ; ")
    }

    fn run(case: &str) -> Outcome {
        let parts: Vec<Vec<&str>> = case.split(';').map(|p| p.split_whitespace().collect()).collect();
        let num = |s: &str| -> u64 { s.parse().expect("number") };
        let ct = &parts[0];
        stat(&format!("ctor_{}", ct[0]));

        // ---- the universe of addresses the history names (for the bitmap oracle)
        let mut hull: Option<(u64, u64)> = None;
        let mut widen = |lo: u64, hi: u64| {
            hull = Some(match hull {
                None => (lo.min(hi), hi.max(lo)),
                Some((a, b)) => (a.min(lo).min(hi), b.max(hi).max(lo)),
            })
        };
        let mut whole = false;
        match ct[0] {
            "new" => widen(num(ct[1]), num(ct[2])),
            "sub" | "noends" => {
                let (a, b) = net_bounds(num(ct[1]), num(ct[2]));
                widen(a, b)
            }
            "none" => {}
            _ => whole = true,
        }
        for p in &parts[1..] {
            match p[0] {
                "b" | "r" | "a" => {
                    let (a, b) = net_bounds(num(p[1]), num(p[2]));
                    widen(a, b)
                }
                "r1" => widen(num(p[1]), num(p[1])),
                "R" => whole = true,
                _ => {}
            }
        }
        let small_hull = match (whole, hull) {
            (false, Some((a, b))) if b - a < 4096 => Some((a, b)),
            _ => None,
        };
        stat(if small_hull.is_some() { "oracle_bitmap+intervals" } else { "oracle_intervals_only" });

        // ---- expected initial pool, from the constructor's documentation
        let mut exp = ISet::default();
        match ct[0] {
            "new" => exp.add(num(ct[1]), num(ct[2])),
            "sub" => {
                let (a, b) = net_bounds(num(ct[1]), num(ct[2]));
                exp.add(a, b)
            }
            "noends" => {
                let (a, b) = net_bounds(num(ct[1]), num(ct[2]));
                if b >= 1 {
                    exp.add(a + 1, b - 1)
                }
            }
            "all" => exp.add(0, MAX),
            "none" => {}
            "blocked_out" => {
                exp.add(0, MAX);
                for (a, b) in reserved_bounds() {
                    exp.sub(a, b)
                }
            }
            _ => panic!("bad ctor"),
        }
        if exp.0.first().map_or(false, |r| r.0 == 0) {
            stat("pool_touches_0.0.0.0");
        }
        if exp.0.last().map_or(false, |r| r.1 == MAX) {
            stat("pool_touches_255.255.255.255");
        }

        let built = catch_unwind(AssertUnwindSafe(|| match ct[0] {
            "new" => IpGenerator::new(IpRange::new(ip(num(ct[1])), ip(num(ct[2])))),
            "sub" => IpGenerator::new_sub(net(num(ct[1]), num(ct[2]))),
            "noends" => IpGenerator::new_sub_no_ends(net(num(ct[1]), num(ct[2]))),
            "all" => IpGenerator::all(),
            "none" => IpGenerator::none(),
            "blocked_out" => IpGenerator::blocked_out(),
            _ => panic!("bad ctor"),
        }));
        let mut gen = match built {
            Ok(g) => g,
            Err(e) => {
                return Outcome {
                    impl_line: "PANIC".into(),
                    oracle: Oracle::Fail(format!("constructor {} panicked: {}", ct.join(" "), panic_message(e))),
                }
            }
        };
        let mut fails: Vec<String> = Vec::new();
        let mut state = ranges_of(&gen);
        let mut line = show_state(&state);
        if ct[0] == "new" && num(ct[1]) > num(ct[2]) {
            stat("ctor_new_inverted");
        }
        if normalise(&state) != exp {
            fails.push(format!(
                "constructor `{}` offers {} but its pool is {}",
                ct.join(" "),
                show_state(&normalise(&state).0),
                show_state(&exp.0)
            ));
            // keep going from what the implementation really offers, so that the remaining checks stay meaningful
            exp = normalise(&state);
        }
        let mut pool = exp.clone();
        let mut held = ISet::default();
        let mut blocked = ISet::default();
        let mut small = small_hull.map(|(a, b)| {
            let n = (b - a + 1) as usize;
            let mut s = Small { lo: a, avail: vec![false; n], held: vec![false; n], blocked: vec![false; n], pool: vec![false; n] };
            for &(x, y) in &exp.0 {
                if let Some((i, j)) = s.clip(x, y) {
                    for k in i..=j {
                        s.avail[k] = true;
                        s.pool[k] = true;
                    }
                }
            }
            s
        });
        let mut handed: Vec<(u64, u64)> = Vec::new(); // (id, bits) handed out, for `rh`
        let mut nops = 0usize;
        let mut max_ranges = state.len();

        for p in &parts[1..] {
            nops += 1;
            // `rh K` is resolved to a concrete return (or nothing) before it reaches the generator
            let resolved: Vec<String> = if p[0] == "rh" {
                if handed.is_empty() {
                    stat("op_rh_nothing_held");
                    line.push_str(" | - =");
                    continue;
                }
                let k = (num(p[1]) as usize) % handed.len();
                let (id, bits) = handed.remove(k);
                stat("op_rh");
                vec!["r".into(), id.to_string(), bits.to_string()]
            } else {
                stat(&format!("op_{}", p[0]));
                p.iter().map(|s| s.to_string()).collect()
            };
            let p: Vec<&str> = resolved.iter().map(|s| s.as_str()).collect();
            let before = state.clone();
            let exp_before = exp.clone();
            let r = catch_unwind(AssertUnwindSafe(|| -> String {
                match p[0] {
                    "b" => {
                        gen.block_subnet(net(num(p[1]), num(p[2])));
                        "-".into()
                    }
                    "i" => match gen.fetch_ip() {
                        Some(a) => format!("ip:{}", a.to_u32()),
                        None => "none".into(),
                    },
                    "f" => match gen.fetch_net(Ipv4Mask::from_bitcount(num(p[1]) as u32)) {
                        Some(n) => format!("net:{}/{}", n.id().to_u32(), n.mask().count_ones()),
                        None => "none".into(),
                    },
                    "r" => {
                        gen.return_subnet(net(num(p[1]), num(p[2])));
                        "-".into()
                    }
                    "r1" => {
                        gen.return_ip(ip(num(p[1])));
                        "-".into()
                    }
                    "a" => {
                        if gen.is_available(net(num(p[1]), num(p[2]))) {
                            "T".into()
                        } else {
                            "F".into()
                        }
                    }
                    "R" => {
                        gen.block_reserved_ips();
                        "-".into()
                    }
                    _ => panic!("bad op"),
                }
            }));
            let ret = match r {
                Ok(s) => s,
                Err(e) => {
                    line.push_str(" | PANIC");
                    fails.push(format!("op `{}` panicked: {}", p.join(" "), panic_message(e)));
                    break;
                }
            };
            state = ranges_of(&gen);
            max_ranges = max_ranges.max(state.len());
            line.push_str(" | ");
            line.push_str(&ret);
            line.push(' ');
            if state == before {
                line.push('=');
            } else {
                line.push_str(&show_state(&state));
            }

            // ---- oracle bookkeeping
            let mut fetched: Option<(u64, u64)> = None; // (lo, hi) handed out
            match p[0] {
                "b" => {
                    let (a, b) = net_bounds(num(p[1]), num(p[2]));
                    exp.sub(a, b);
                    blocked.add(a, b);
                }
                "R" => {
                    for (a, b) in reserved_bounds() {
                        exp.sub(a, b);
                        blocked.add(a, b);
                    }
                }
                "r" | "r1" => {
                    let (a, b) = if p[0] == "r" { net_bounds(num(p[1]), num(p[2])) } else { (num(p[1]), num(p[1])) };
                    if held.meets(a, b) {
                        stat("return_of_held");
                    } else if exp.meets(a, b) {
                        stat("return_of_available");
                    } else {
                        stat("return_of_blocked_or_foreign");
                    }
                    exp.add(a, b);
                    held.sub(a, b);
                    blocked.sub(a, b);
                    pool.add(a, b);
                }
                "i" | "f" => {
                    let want_bits = if p[0] == "i" { 32 } else { num(p[1]).min(32) };
                    let size = 1u64 << (32 - want_bits);
                    if ret == "none" {
                        stat(&format!("{}_none", p[0]));
                        if p[0] == "i" && !exp.is_empty() {
                            fails.push(format!("fetch_ip reported exhaustion while {} addresses are available", exp.count()));
                        }
                        if p[0] == "f" {
                            // exhaustion may be reported only when no single stored range holds an
                            // aligned block of that size (the documented first-fit search per range)
                            if let Some(&(a, b)) = before.iter().find(|&&(a, b)| {
                                a <= b && {
                                    let id = (a + size - 1) / size * size;
                                    id + size - 1 <= b
                                }
                            }) {
                                fails.push(format!(
                                    "fetch_net(/{}) reported exhaustion although the stored range {}-{} contains a free aligned block",
                                    want_bits, a, b
                                ));
                            }
                            if exp.has_aligned_block(size) {
                                // allowed by the property text; counted so that the gap is visible in the evidence
                                stat("f_none_though_union_has_aligned_block");
                            } else {
                                stat("f_none_exact");
                            }
                        }
                    } else {
                        stat(&format!("{}_some", p[0]));
                        let body = ret.split(':').nth(1).unwrap();
                        let (id, bits) = if p[0] == "i" {
                            (num(body), 32)
                        } else {
                            let mut it = body.split('/');
                            (num(it.next().unwrap()), num(it.next().unwrap()))
                        };
                        let hi = id + (1u64 << (32 - bits)) - 1;
                        if bits != want_bits {
                            fails.push(format!("fetch handed out a /{} for a /{} request", bits, want_bits));
                        }
                        if id % (1u64 << (32 - bits)) != 0 || hi > MAX {
                            fails.push(format!("fetch handed out a misaligned block {}/{}", id, bits));
                        }
                        if held.meets(id, hi) {
                            fails.push(format!("DOUBLE ALLOCATION: {}/{} overlaps a block that is still held", id, bits));
                        }
                        if blocked.meets(id, hi) {
                            fails.push(format!("fetch handed out {}/{} which overlaps a blocked range", id, bits));
                        }
                        if !pool.covers(id, hi) {
                            fails.push(format!("fetch handed out {}/{} which is not inside the pool", id, bits));
                        }
                        if !exp.covers(id, hi) {
                            fails.push(format!("fetch handed out {}/{} which was not (entirely) available", id, bits));
                        }
                        exp.sub(id, hi);
                        held.add(id, hi);
                        handed.push((id, bits));
                        fetched = Some((id, hi));
                    }
                }
                "a" => {
                    stat(if ret == "T" { "a_true" } else { "a_false" });
                }
                _ => {}
            }
            let got = normalise(&state);
            if got != exp {
                fails.push(format!(
                    "after `{}` the generator offers {} expected {} (before: {})",
                    p.join(" "),
                    show_state(&got.0),
                    show_state(&exp.0),
                    show_state(&exp_before.0)
                ));
                exp = got.clone();
            }
            // invariants of the bookkeeping itself (they are consequences when the checks above pass)
            for &(a, b) in &exp.0 {
                if held.meets(a, b) || blocked.meets(a, b) {
                    fails.push(format!("available range {}-{} meets a held or blocked address", a, b));
                }
            }

            // ---- the same with one flag per address
            if let Some(s) = small.as_mut() {
                match p[0] {
                    "b" => {
                        let (a, b) = net_bounds(num(p[1]), num(p[2]));
                        if let Some((i, j)) = s.clip(a, b) {
                            for k in i..=j {
                                s.avail[k] = false;
                                s.blocked[k] = true;
                            }
                        }
                    }
                    "r" | "r1" => {
                        let (a, b) = if p[0] == "r" { net_bounds(num(p[1]), num(p[2])) } else { (num(p[1]), num(p[1])) };
                        if let Some((i, j)) = s.clip(a, b) {
                            for k in i..=j {
                                s.avail[k] = true;
                                s.held[k] = false;
                                s.blocked[k] = false;
                                s.pool[k] = true;
                            }
                        }
                    }
                    "i" | "f" => {
                        if let Some((a, b)) = fetched {
                            match s.clip(a, b) {
                                Some((i, j)) if (j - i) as u64 == b - a => {
                                    for k in i..=j {
                                        if s.held[k] {
                                            fails.push(format!("DOUBLE ALLOCATION (bitmap): address {} handed out while held", s.lo + k as u64));
                                        }
                                        if s.blocked[k] || !s.pool[k] || !s.avail[k] {
                                            fails.push(format!("(bitmap) address {} handed out but blocked / outside the pool / unavailable", s.lo + k as u64));
                                        }
                                        s.avail[k] = false;
                                        s.held[k] = true;
                                    }
                                }
                                _ => fails.push(format!("(bitmap) fetch handed out {}-{} outside everything the history touched", a, b)),
                            }
                        } else if p[0] == "i" && s.avail.iter().any(|&x| x) {
                            fails.push("(bitmap) fetch_ip reported exhaustion while an address is available".into());
                        }
                    }
                    _ => {}
                }
                match s.view(&state) {
                    Ok(v) => {
                        if v != s.avail {
                            let k = (0..v.len()).find(|&k| v[k] != s.avail[k]).unwrap();
                            fails.push(format!(
                                "(bitmap) after `{}` address {} is {} but should be {}",
                                p.join(" "),
                                s.lo + k as u64,
                                if v[k] { "offered" } else { "withheld" },
                                if s.avail[k] { "offered" } else { "withheld" }
                            ));
                            s.avail = v;
                        }
                    }
                    Err(m) => fails.push(format!("(bitmap) {}", m)),
                }
                for k in 0..s.avail.len() {
                    if s.avail[k] && (s.held[k] || s.blocked[k]) {
                        fails.push(format!("(bitmap) address {} available and held/blocked", s.lo + k as u64));
                        break;
                    }
                    if s.pool[k] && !(s.avail[k] || s.held[k] || s.blocked[k]) {
                        fails.push(format!("(bitmap) pool address {} lost", s.lo + k as u64));
                        break;
                    }
                    if s.held[k] && !s.pool[k] {
                        fails.push(format!("(bitmap) held address {} outside the pool", s.lo + k as u64));
                        break;
                    }
                }
            }
            if fails.len() > 6 {
                break;
            }
        }

        // ---- final drain through the public iterator: every available address exactly once, then None
        if fails.is_empty() {
            let total = exp.count();
            let limit = if total <= 5000 { total + 1 } else { 48 };
            let drained = catch_unwind(AssertUnwindSafe(|| {
                let mut it = gen.clone().into_ip_iter();
                let mut v = Vec::new();
                for _ in 0..limit {
                    match it.next() {
                        Some(a) => v.push(a.to_u32() as u64),
                        None => break,
                    }
                }
                v
            }));
            match drained {
                Err(e) => fails.push(format!("draining panicked: {}", panic_message(e))),
                Ok(v) => {
                    let mut seen = std::collections::BTreeSet::new();
                    let mut left = exp.clone();
                    for a in &v {
                        if !seen.insert(*a) {
                            fails.push(format!("DOUBLE ALLOCATION: drain handed out {} twice", a));
                        }
                        if !left.covers(*a, *a) {
                            fails.push(format!("drain handed out {} which is not available", a));
                        }
                        left.sub(*a, *a);
                    }
                    if total <= 5000 {
                        stat("drain_complete");
                        if v.len() as u64 != total {
                            fails.push(format!("drain handed out {} addresses, {} are available", v.len(), total));
                        }
                    } else {
                        stat("drain_prefix");
                        if v.len() as u64 != limit {
                            fails.push(format!("drain stopped after {} addresses although {} are available", v.len(), total));
                        }
                    }
                }
            }
        }

        // ---- distribution
        stat(&format!("ops_{}", match nops { 0..=4 => "00-04", 5..=14 => "05-14", 15..=29 => "15-29", _ => "30+" }));
        stat(&format!("max_ranges_{}", match max_ranges { 0..=1 => "0-1", 2..=4 => "2-4", 5..=9 => "5-9", _ => "10+" }));
        {
            let mut sorted: Vec<(u64, u64)> = state.iter().copied().filter(|(a, b)| a <= b).collect();
            sorted.sort();
            if sorted.windows(2).any(|w| w[1].0 <= w[0].1) {
                stat("final_state_has_overlapping_ranges");
            }
            if state.iter().any(|(a, b)| a > b) {
                stat("final_state_has_inverted_range");
            }
        }
        let oracle = if fails.is_empty() {
            Oracle::Ok
        } else {
            stat("oracle_fail");
            Oracle::Fail(fails.join(" ;; "))
        };
        Outcome { impl_line: line, oracle }
    }
}

fn main() {
    main_loop::<IpGen>();
}
