//! C02, full stack: socket I/O over SocketAPI / TCP|UDP / IPv4 / (ARP) / PCI on one network.
//!
//! One listening server and 1..4 clients (wired like simulations/socket_basic.rs).  Every client connects,
//! performs its write schedule (upstream) and then reads what the server's handler for its connection writes
//! (downstream schedule, the same for every connection, distinguished by the handler's index); every handler
//! writes and then reads until nothing has arrived for a (virtual) while.  All payload bytes depend on the
//! sender and on the position in the sender's stream, so loss, duplication, reordering, corruption and delivery
//! to the wrong socket are all visible in the bytes.
//!
//! case line:
//!   `<tcp|udp> f=<0|n> mtu=<m> arp=<0|1> plan=<seed>:<jitter us>:<drop %>:<dup %>:<k> acc=<ms> srv=<W> sr=<R> | c<id> w=<W> r=<R> d=<ms> ; ...`
//!   f: 0 = current-thread runtime with paused time, n = multi-thread runtime with n workers (real time)
//!   plan: frame fate from hash(seed, frame index): extra delay < jitter, drop with the given probability but
//!         never more than k consecutive frames of one direction (sender, destination), duplicate
//!   acc: the server sleeps so long before its first accept()
//!   W = `<len>:<gap ms>,...` writes with a sleep before each (0 = back-to-back), `-` = none
//!   R = `<n>,<n>,...` read sizes, cycled (stream sockets); datagram sockets are read with recv_msg
//! impl line:
//!   `<status> | c<id> sid=<k|-> x=<c> dx=<c> up=<reads> down=<reads> ; ...`
//!   status: Exited | TimedOut | CRASH <hash> | HANG
//!   sid: index of the server handler that received this client's bytes; x / dx: how many copies of one
//!   datagram the link layer may have delivered at most (1 + duplicated frames of the sender)
//!   reads (tcp): `<n>:<payload>/...` ; (udp): `<payload>/...` ; `-` = nothing
//!   payload: `P<sender>.<start>+<len>` pattern bytes, `X<hex>` literal bytes, joined by `,`
use elvis_core::{
    message::Message,
    network::verif::{FrameFate, FrameInfo},
    network::NetworkBuilder,
    new_machine_arc,
    protocol::{DemuxError, StartError},
    protocols::{
        arp::subnetting::{Ipv4Mask, SubnetInfo},
        ipv4::{Ipv4, Ipv4Address, Recipient},
        socket_api::socket::{ProtocolFamily, Socket, SocketType},
        tcp::Tcp,
        udp::Udp,
        Arp, Endpoint, Pci, SocketAPI,
    },
    run_internet_with_timeout, Control, IpTable, Machine, Protocol, Session, Shutdown,
};
use elvis_verif_harness::stack::*;
use elvis_verif_harness::*;
use std::collections::HashMap;
use std::sync::{Arc, Mutex};
use std::time::Duration;
use tokio::sync::{Barrier, Semaphore};

// ------------------------------------------------------------------ case
#[derive(Clone, Debug, Default)]
struct ClientCfg {
    id: usize,
    w: Vec<(usize, u64)>,
    r: Vec<usize>,
    delay: u64,
}

#[derive(Clone, Debug, Default)]
struct Cfg {
    tcp: bool,
    flavor: usize,
    mtu: u32,
    arp: bool,
    seed: u64,
    jitter_us: u64,
    drop_pct: u64,
    dup_pct: u64,
    k: u64,
    acc: u64,
    srv_w: Vec<(usize, u64)>,
    srv_r: Vec<usize>,
    clients: Vec<ClientCfg>,
}

fn parse_w(s: &str) -> Option<Vec<(usize, u64)>> {
    if s == "-" {
        return Some(vec![]);
    }
    s.split(',')
        .map(|x| {
            let (a, b) = x.split_once(':')?;
            Some((a.parse().ok()?, b.parse().ok()?))
        })
        .collect()
}

fn parse_r(s: &str) -> Option<Vec<usize>> {
    let v: Option<Vec<usize>> = s.split(',').map(|x| x.parse().ok()).collect();
    let v = v?;
    if v.is_empty() || v.iter().any(|n| *n == 0) {
        return None;
    }
    Some(v)
}

fn parse_case(case: &str) -> Option<Cfg> {
    let (head, cl) = case.split_once('|')?;
    let mut c = Cfg::default();
    let mut it = head.split_whitespace();
    c.tcp = match it.next()? {
        "tcp" => true,
        "udp" => false,
        _ => return None,
    };
    for t in it {
        let (k, v) = t.split_once('=')?;
        match k {
            "f" => c.flavor = v.parse().ok()?,
            "mtu" => c.mtu = v.parse().ok()?,
            "arp" => c.arp = v == "1",
            "plan" => {
                let p: Vec<u64> = v.split(':').map(|x| x.parse().ok()).collect::<Option<_>>()?;
                if p.len() != 5 {
                    return None;
                }
                c.seed = p[0];
                c.jitter_us = p[1];
                c.drop_pct = p[2];
                c.dup_pct = p[3];
                c.k = p[4];
            }
            "acc" => c.acc = v.parse().ok()?,
            "srv" => c.srv_w = parse_w(v)?,
            "sr" => c.srv_r = parse_r(v)?,
            _ => return None,
        }
    }
    for sec in cl.split(';') {
        let mut cc = ClientCfg::default();
        let mut it = sec.split_whitespace();
        cc.id = it.next()?.strip_prefix('c')?.parse().ok()?;
        for t in it {
            let (k, v) = t.split_once('=')?;
            match k {
                "w" => cc.w = parse_w(v)?,
                "r" => cc.r = parse_r(v)?,
                "d" => cc.delay = v.parse().ok()?,
                _ => return None,
            }
        }
        if cc.r.is_empty() || cc.id == 0 || cc.id > 4 {
            return None;
        }
        c.clients.push(cc);
    }
    if c.clients.is_empty() || c.srv_r.is_empty() || c.mtu < 100 {
        return None;
    }
    Some(c)
}

// ------------------------------------------------------------------ payloads
/// the byte at position p of sender c's stream (clients 1..4, server handlers 50..53): the first byte of a
/// stream / of every datagram names the sender, every other byte is a hash of (sender, position)
fn pat(c: usize, p: usize) -> u8 {
    if p % 65536 == 0 {
        return c as u8;
    }
    let mut x: u64 = (p as u64 * 2654435 + c as u64 * 1000003 + 12345) & 0x3FFF_FFFF;
    x ^= x >> 13;
    x = (x * 40503) & 0x3FFF_FFFF;
    x ^= x >> 9;
    ((x >> 7) & 255) as u8
}

/// stream sockets: write k carries positions off_k .. off_k+len_k of the sender's stream;
/// datagram sockets: datagram k carries positions k*65536 .. +len
fn write_start(tcp: bool, w: &[(usize, u64)], k: usize) -> usize {
    if tcp {
        w[..k].iter().map(|x| x.0).sum()
    } else {
        k * 65536
    }
}

fn payload(sender: usize, start: usize, len: usize) -> Vec<u8> {
    (0..len).map(|i| pat(sender, start + i)).collect()
}

/// lossless pattern-relative rendering of observed bytes (computed from the ACTUAL bytes).  `cont` = where
/// a pattern run of an earlier read would continue; a continuation is accepted from 1 byte on, a fresh run
/// (at a write start) from 4 bytes on.
fn encode(bytes: &[u8], starts: &[(usize, usize)], cont: &mut Option<(usize, usize)>) -> String {
    if bytes.is_empty() {
        return "-".into();
    }
    let mut segs: Vec<String> = vec![];
    let mut lit: Vec<u8> = vec![];
    let mut i = 0;
    let mut mergeable = false; // the last element of segs is a P segment ending where `cont` points
    while i < bytes.len() {
        let run = |s: usize, st: usize| -> usize {
            let mut l = 0;
            while i + l < bytes.len() && bytes[i + l] == pat(s, st + l) {
                l += 1;
            }
            l
        };
        let mut best: Option<(usize, usize, usize, bool)> = None;
        if let Some((s, st)) = *cont {
            let l = run(s, st);
            if l >= 1 {
                best = Some((s, st, l, true));
            }
        }
        if best.is_none() {
            let need = 4.min(bytes.len() - i);
            for (s, st) in starts {
                let l = run(*s, *st);
                if l >= need && best.map(|b| l > b.2).unwrap_or(true) {
                    best = Some((*s, *st, l, false));
                }
            }
        }
        match best {
            Some((s, st, l, is_cont)) => {
                if !lit.is_empty() {
                    segs.push(format!("X{}", hex(&lit)));
                    lit.clear();
                    mergeable = false;
                }
                if is_cont && mergeable {
                    let last = segs.last_mut().unwrap();
                    let (head, len) = last.rsplit_once('+').unwrap();
                    let nl: usize = len.parse::<usize>().unwrap() + l;
                    *last = format!("{}+{}", head, nl);
                } else {
                    segs.push(format!("P{}.{}+{}", s, st, l));
                }
                mergeable = true;
                *cont = Some((s, st + l));
                i += l;
            }
            None => {
                lit.push(bytes[i]);
                *cont = None;
                mergeable = false;
                i += 1;
            }
        }
    }
    if !lit.is_empty() {
        segs.push(format!("X{}", hex(&lit)));
    }
    segs.join(",")
}

// ------------------------------------------------------------------ child: the scenario
#[derive(Default)]
struct Collected {
    /// per server handler (accept order): reads (requested n, bytes); n = 0 for recv_msg
    handlers: Vec<Vec<(usize, Vec<u8>)>>,
    /// per client id
    clients: HashMap<usize, Vec<(usize, Vec<u8>)>>,
    notes: Vec<String>,
}

static COLLECT: Mutex<Option<Collected>> = Mutex::new(None);

fn with_collect<R>(f: impl FnOnce(&mut Collected) -> R) -> R {
    let mut g = COLLECT.lock().unwrap();
    f(g.get_or_insert_with(Default::default))
}

struct Shared {
    cfg: Cfg,
    clients_done: Semaphore,
    /// silence after which a reader stops when it holds exactly one of the expected totals / otherwise
    idle_short: Duration,
    idle: Duration,
}

const MAX_READS: usize = 60000;

async fn do_writes(sock: &Socket, sender: usize, tcp: bool, w: &[(usize, u64)]) {
    for (k, (len, gap)) in w.iter().enumerate() {
        if *gap > 0 {
            tokio::time::sleep(Duration::from_millis(*gap)).await;
        }
        let bytes = payload(sender, write_start(tcp, w, k), *len);
        if let Err(e) = sock.send(bytes) {
            with_collect(|c| c.notes.push(format!("send-error sender={} write={} {:?}", sender, k, e)));
        }
    }
}

/// Reads until nothing arrives for `idle` (or for `idle_short` when what was read so far is exactly one of the
/// `targets`: byte totals for streams, datagram counts for datagram sockets).
async fn do_reads(sock: &mut Socket, sh: &Shared, r: &[usize], targets: &[usize], who: &str) -> Vec<(usize, Vec<u8>)> {
    let tcp = sh.cfg.tcp;
    let mut out = vec![];
    let mut i = 0;
    let mut have = 0usize;
    loop {
        if out.len() >= MAX_READS {
            with_collect(|c| c.notes.push(format!("{} read-limit", who)));
            break;
        }
        let idle = if targets.contains(&have) { sh.idle_short } else { sh.idle };
        if tcp {
            let n = r[i % r.len()];
            i += 1;
            match tokio::time::timeout(idle, sock.recv(n)).await {
                Err(_) => break,
                Ok(Ok(v)) => {
                    have += v.len();
                    out.push((n, v));
                }
                Ok(Err(e)) => {
                    with_collect(|c| c.notes.push(format!("{} recv-error {:?}", who, e)));
                    break;
                }
            }
        } else {
            match tokio::time::timeout(idle, sock.recv_msg()).await {
                Err(_) => break,
                Ok(Ok(m)) => {
                    have += 1;
                    out.push((0, m.to_vec()));
                }
                Ok(Err(e)) => {
                    with_collect(|c| c.notes.push(format!("{} recv_msg-error {:?}", who, e)));
                    break;
                }
            }
        }
    }
    out
}

fn total_of(tcp: bool, w: &[(usize, u64)]) -> usize {
    if tcp {
        w.iter().map(|x| x.0).sum()
    } else {
        w.len()
    }
}

struct ServerApp {
    sh: Arc<Shared>,
}

#[async_trait::async_trait]
impl Protocol for ServerApp {
    async fn start(&self, shutdown: Shutdown, initialized: Arc<Barrier>, machine: Arc<Machine>) -> Result<(), StartError> {
        let sockets = machine.protocol::<SocketAPI>().unwrap();
        let cfg = self.sh.cfg.clone();
        let st = if cfg.tcp { SocketType::Stream } else { SocketType::Datagram };
        let mut listener = sockets.new_socket(ProtocolFamily::INET, st, machine.clone()).await.unwrap();
        listener.bind(Endpoint::new(Ipv4Address::CURRENT_NETWORK, 0xbeef)).unwrap();
        listener.listen(cfg.clients.len() + 2).unwrap();
        initialized.wait().await;
        if cfg.acc > 0 {
            tokio::time::sleep(Duration::from_millis(cfg.acc)).await;
        }
        let n = cfg.clients.len();
        let max_delay = cfg.clients.iter().map(|c| c.delay).max().unwrap_or(0);
        let mut tasks = tokio::task::JoinSet::new();
        for k in 0..n {
            // a connection that never arrives must not hang the scenario
            let wait = self.sh.idle + Duration::from_millis(max_delay + 2500);
            let mut sock = match tokio::time::timeout(wait, listener.accept()).await {
                Err(_) => {
                    with_collect(|c| c.notes.push(format!("accept-timeout after {}", k)));
                    break;
                }
                Ok(Err(e)) => {
                    with_collect(|c| c.notes.push(format!("accept-error {:?}", e)));
                    break;
                }
                Ok(Ok(s)) => s,
            };
            with_collect(|c| c.handlers.push(vec![]));
            let sh = self.sh.clone();
            tasks.spawn(async move {
                do_writes(&sock, 50 + k, sh.cfg.tcp, &sh.cfg.srv_w).await;
                let targets: Vec<usize> = sh.cfg.clients.iter().map(|c| total_of(sh.cfg.tcp, &c.w)).collect();
                let reads = do_reads(&mut sock, &sh, &sh.cfg.srv_r, &targets, &format!("handler{}", k)).await;
                with_collect(|c| c.handlers[k] = reads);
                sock
            });
        }
        let mut keep = vec![];
        while let Some(r) = tasks.join_next().await {
            if let Ok(s) = r {
                keep.push(s);
            }
        }
        // every client has finished too (each one has its own idle bound)
        let _ = self.sh.clients_done.acquire_many(n as u32).await;
        drop(keep);
        shutdown.shut_down();
        Ok(())
    }

    fn demux(&self, _m: Message, _c: Arc<dyn Session>, _ctl: Control, _ma: Arc<Machine>) -> Result<(), DemuxError> {
        Ok(())
    }
}

struct ClientApp {
    sh: Arc<Shared>,
    me: ClientCfg,
}

#[async_trait::async_trait]
impl Protocol for ClientApp {
    async fn start(&self, _shutdown: Shutdown, initialized: Arc<Barrier>, machine: Arc<Machine>) -> Result<(), StartError> {
        let sockets = machine.protocol::<SocketAPI>().unwrap();
        let cfg = &self.sh.cfg;
        let st = if cfg.tcp { SocketType::Stream } else { SocketType::Datagram };
        let mut sock = sockets.new_socket(ProtocolFamily::INET, st, machine.clone()).await.unwrap();
        initialized.wait().await;
        if self.me.delay > 0 {
            tokio::time::sleep(Duration::from_millis(self.me.delay)).await;
        }
        // one client in three uses a fixed local endpoint, and a rival socket of the same application then tries the
        // very same (local, remote) pair: the connect must be refused and closing the refused socket must not
        // disturb the established one (everything the oracle expects of this client stays as it is)
        let rival = mix(cfg.seed, self.me.id as u64, 77) % 3 == 0;
        let local = Endpoint::new(Ipv4Address::from([10, 0, 0, self.me.id as u8]), 5000 + self.me.id as u16);
        if rival {
            let _ = sock.bind(local);
        }
        let server = Endpoint::new(Ipv4Address::from([10, 0, 0, 100]), 0xbeef);
        match sock.connect(server).await {
            Ok(_) => {
                if rival {
                    let mut second = sockets.new_socket(ProtocolFamily::INET, st, machine.clone()).await.unwrap();
                    let _ = second.bind(local);
                    let refused = second.connect(server).await.is_err();
                    with_collect(|c| c.notes.push(format!("rival client={} refused={}", self.me.id, refused)));
                    drop(second);
                }
                do_writes(&sock, self.me.id, cfg.tcp, &self.me.w).await;
                let reads = if cfg.srv_w.is_empty() {
                    vec![]
                } else {
                    do_reads(&mut sock, &self.sh, &self.me.r, &[total_of(cfg.tcp, &cfg.srv_w)], &format!("client{}", self.me.id)).await
                };
                with_collect(|c| {
                    c.clients.insert(self.me.id, reads);
                });
            }
            Err(e) => with_collect(|c| c.notes.push(format!("connect-error client={} {:?}", self.me.id, e))),
        }
        self.sh.clients_done.add_permits(1);
        // keep the socket until the simulation ends
        let mut rx = _shutdown.receiver();
        let _ = rx.recv().await;
        drop(sock);
        Ok(())
    }

    fn demux(&self, _m: Message, _c: Arc<dyn Session>, _ctl: Control, _ma: Arc<Machine>) -> Result<(), DemuxError> {
        Ok(())
    }
}

/// experiments only: C02_IDLE_MS overrides the readers' silence bound
fn idle_override() -> Option<Duration> {
    std::env::var("C02_IDLE_MS").ok().and_then(|v| v.parse().ok()).map(Duration::from_millis)
}

fn mix(seed: u64, idx: u64, salt: u64) -> u64 {
    let mut z = seed
        .wrapping_mul(0x9E37_79B9_7F4A_7C15)
        .wrapping_add(idx.wrapping_mul(0xBF58_476D_1CE4_E5B9))
        .wrapping_add(salt.wrapping_mul(0x94D0_49BB_1331_11EB));
    z = (z ^ (z >> 30)).wrapping_mul(0xBF58_476D_1CE4_E5B9);
    z = (z ^ (z >> 27)).wrapping_mul(0x94D0_49BB_1331_11EB);
    z ^ (z >> 31)
}

fn child(case: &str) -> ! {
    let cfg = parse_case(case).expect("case");
    let flavor = if cfg.flavor == 0 { Flavor::CurrentPaused } else { Flavor::Multi(cfg.flavor) };
    {
        let (seed, jit, dp, up, k) = (cfg.seed, cfg.jitter_us, cfg.drop_pct, cfg.dup_pct, cfg.k);
        let streak: Mutex<HashMap<(u64, u64), u64>> = Mutex::new(HashMap::new());
        Recorder::install(
            Box::new(move |idx, f: &FrameInfo| {
                let dir = (f.sender as u64, f.destination.map(|m| m as u64).unwrap_or(u64::MAX));
                let mut g = streak.lock().unwrap();
                let s = g.entry(dir).or_insert(0);
                if dp > 0 && mix(seed, idx as u64, 1) % 100 < dp && *s < k {
                    *s += 1;
                    return FrameFate::Drop;
                }
                *s = 0;
                if up > 0 && mix(seed, idx as u64, 2) % 100 < up {
                    return FrameFate::Duplicate;
                }
                if jit > 0 {
                    let d = mix(seed, idx as u64, 3) % jit;
                    if d > 0 {
                        return FrameFate::Delay(Duration::from_micros(d));
                    }
                }
                FrameFate::Deliver
            }),
            std::env::var("C02_BYTES").is_ok(),
        );
    }
    let paused = cfg.flavor == 0;
    let out = block_on(flavor, async move {
        start_clock();
        let network = NetworkBuilder::new().mtu(cfg.mtu as u16).build();
        register_network(&network);
        let server_ip: Ipv4Address = [10, 0, 0, 100].into();
        let ip_table: IpTable<Recipient> = [("0.0.0.0/0", Recipient::new(0, None))].into_iter().collect();
        let info = SubnetInfo { mask: Ipv4Mask::from_bitcount(0), default_gateway: Ipv4Address::from([1, 1, 1, 1]) };
        let sh = Arc::new(Shared {
            cfg: cfg.clone(),
            clients_done: Semaphore::new(0),
            // virtual time costs nothing: wait long (TCP under loss and reordering may stall for seconds);
            // real time: stop 300 ms after an expected total is complete, else after 8 s of silence
            idle_short: idle_override().unwrap_or(if paused { Duration::from_millis(30000) } else { Duration::from_millis(300) }),
            idle: idle_override().unwrap_or(if paused { Duration::from_millis(30000) } else { Duration::from_millis(8000) }),
        });
        let mut machines = vec![];
        if cfg.arp {
            machines.push(new_machine_arc![
                Udp::new(),
                Tcp::new(),
                Ipv4::new(ip_table.clone()),
                Pci::new([network.clone()]),
                Arp::new().preconfig_subnet(server_ip, info),
                SocketAPI::new(Some(server_ip)),
                ServerApp { sh: sh.clone() },
            ]);
        } else {
            machines.push(new_machine_arc![
                Udp::new(),
                Tcp::new(),
                Ipv4::new(ip_table.clone()),
                Pci::new([network.clone()]),
                SocketAPI::new(Some(server_ip)),
                ServerApp { sh: sh.clone() },
            ]);
        }
        for cc in &cfg.clients {
            let ip: Ipv4Address = [10, 0, 0, cc.id as u8].into();
            if cfg.arp {
                machines.push(new_machine_arc![
                    Udp::new(),
                    Tcp::new(),
                    Ipv4::new(ip_table.clone()),
                    Pci::new([network.clone()]),
                    Arp::new().preconfig_subnet(ip, info),
                    SocketAPI::new(Some(ip)),
                    ClientApp { sh: sh.clone(), me: cc.clone() },
                ]);
            } else {
                machines.push(new_machine_arc![
                    Udp::new(),
                    Tcp::new(),
                    Ipv4::new(ip_table.clone()),
                    Pci::new([network.clone()]),
                    SocketAPI::new(Some(ip)),
                    ClientApp { sh: sh.clone(), me: cc.clone() },
                ]);
            }
        }
        let limit = if paused { Duration::from_secs(600) } else { Duration::from_secs(20) };
        let status = run_internet_with_timeout(&machines, limit).await;
        let mut out = vec![format!("status {:?}", status)];
        let col = COLLECT.lock().unwrap().take().unwrap_or_default();
        for (k, h) in col.handlers.iter().enumerate() {
            out.push(format!("handler {} {}", k, render_reads(h)));
        }
        let mut ids: Vec<&usize> = col.clients.keys().collect();
        ids.sort();
        for id in ids {
            out.push(format!("client {} {}", id, render_reads(&col.clients[id])));
        }
        for n in &col.notes {
            out.push(format!("note {}", n));
        }
        out
    });
    child_finish(&out)
}

/// raw transport of the reads from the child to the parent: `<n>:<hex>/...`
fn render_reads(r: &[(usize, Vec<u8>)]) -> String {
    if r.is_empty() {
        return "-".into();
    }
    r.iter().map(|(n, v)| format!("{}:{}", n, hex(v))).collect::<Vec<_>>().join("/")
}

fn parse_reads(s: &str) -> Vec<(usize, Vec<u8>)> {
    if s == "-" {
        return vec![];
    }
    s.split('/')
        .filter_map(|x| {
            let (n, h) = x.split_once(':')?;
            Some((n.parse().ok()?, unhex(h)))
        })
        .collect()
}

// ------------------------------------------------------------------ parent: oracle
/// Is `got` the concatenation of the writes of `w` in some order (each exactly once)?  Returns the order.
fn as_permutation(got: &[u8], sender: usize, w: &[(usize, u64)]) -> Option<Vec<usize>> {
    let total: usize = w.iter().map(|x| x.0).sum();
    if got.len() != total {
        return None;
    }
    fn go(got: &[u8], pos: usize, sender: usize, w: &[(usize, u64)], used: &mut Vec<bool>, order: &mut Vec<usize>, budget: &mut usize) -> bool {
        if order.len() == w.len() {
            return pos == got.len();
        }
        for k in 0..w.len() {
            if used[k] {
                continue;
            }
            if *budget == 0 {
                return false;
            }
            *budget -= 1;
            let st = write_start(true, w, k);
            let len = w[k].0;
            if pos + len <= got.len() && (0..len).all(|i| got[pos + i] == pat(sender, st + i)) {
                used[k] = true;
                order.push(k);
                if go(got, pos + len, sender, w, used, order, budget) {
                    return true;
                }
                order.pop();
                used[k] = false;
            }
        }
        false
    }
    let mut used = vec![false; w.len()];
    let mut order = vec![];
    let mut budget = 200000;
    if go(got, 0, sender, w, &mut used, &mut order, &mut budget) {
        Some(order)
    } else {
        None
    }
}

fn back_to_back(w: &[(usize, u64)]) -> usize {
    // the longest run of writes without a sleep between them
    let mut best = if w.is_empty() { 0 } else { 1 };
    let mut cur = 1;
    for k in 1..w.len() {
        if w[k].1 == 0 {
            cur += 1;
        } else {
            cur = 1;
        }
        best = best.max(cur);
    }
    best
}

struct Verdict {
    fails: Vec<String>,
    known: Vec<String>,
}

/// One direction of one connection: what was written vs what was read.
fn judge_stream(v: &mut Verdict, cfg: &Cfg, what: &str, sender: usize, w: &[(usize, u64)], reads: &[(usize, Vec<u8>)]) {
    let want: Vec<u8> = (0..w.len()).flat_map(|k| payload(sender, write_start(true, w, k), w[k].0)).collect();
    let got: Vec<u8> = reads.iter().flat_map(|r| r.1.iter().cloned()).collect();
    for (n, b) in reads {
        if b.len() > *n {
            v.fails.push(format!("{}: recv({}) returned {} bytes", what, n, b.len()));
            stat("oracle recv bound exceeded");
            break;
        }
    }
    if got == want {
        stat("oracle stream intact");
        return;
    }
    if let Some(order) = as_permutation(&got, sender, w) {
        let msg = format!("{}: the {} writes arrived in the order {:?}", what, w.len(), order);
        // the recorded class: multi-thread runtime, at least two writes with no await on a reply between them
        // (none of the schedules here waits for a reply), the stream is a permutation of the writes.
        if cfg.flavor >= 1 && w.len() >= 2 {
            stat("oracle reorder multi");
            if back_to_back(w) < 2 || order.windows(2).any(|p| p[0] > p[1] && (p[1] + 1..=p[0]).any(|k| w[k].1 > 0)) {
                // (seen under heavy machine load: a hand-off task overtaken across a 25 ms real-time sleep)
                stat("oracle reorder across a sleep");
            }
            v.known.push(msg);
        } else {
            stat("oracle reorder OTHER");
            v.fails.push(format!("{} (runtime flavour {}, longest back-to-back run {})", msg, cfg.flavor, back_to_back(w)));
        }
        return;
    }
    let common = got.iter().zip(want.iter()).take_while(|(a, b)| a == b).count();
    let kind = if got.len() < want.len() && want.starts_with(&got) {
        "truncated (bytes lost at the end)"
    } else if got.len() > want.len() && got.starts_with(&want) {
        "extra bytes after the stream"
    } else {
        "differs"
    };
    stat("oracle stream corrupt");
    v.fails.push(format!("{}: stream {}: wrote {} bytes, read {} bytes, first difference at {}", what, kind, want.len(), got.len(), common));
}

/// Datagrams of one direction: each read datagram is one of the sent ones (whole), at most `copies` times each.
fn judge_dgrams(v: &mut Verdict, what: &str, sender: usize, w: &[(usize, u64)], reads: &[(usize, Vec<u8>)], copies: usize) {
    let mut seen = vec![0usize; w.len()];
    for (_, b) in reads {
        let cands: Vec<usize> = (0..w.len()).filter(|k| w[*k].0 == b.len() && *b == payload(sender, write_start(false, w, *k), w[*k].0)).collect();
        if cands.is_empty() {
            v.fails.push(format!("{}: a datagram of {} bytes is none of the sent datagrams", what, b.len()));
            stat("oracle dgram corrupt");
            continue;
        }
        // identical datagrams (same length, 1 byte) are interchangeable: charge the least used one
        let k = *cands.iter().min_by_key(|k| seen[**k]).unwrap();
        seen[k] += 1;
        if seen[k] > copies {
            v.fails.push(format!("{}: datagram {} delivered {} times (the link delivered at most {} copies)", what, k, seen[k], copies));
            stat("oracle dgram duplicated");
        }
    }
    let lost = seen.iter().filter(|x| **x == 0).count();
    if lost > 0 {
        stat("oracle dgram some absent");
    } else {
        stat("oracle dgram all delivered");
    }
}

/// How many of the bytes read are explained by sender s: greedy walk, whole unused writes first, else the
/// longest run (>= 4 bytes) from the start of an unused write.
fn explained(tcp: bool, got: &[u8], s: usize, w: &[(usize, u64)]) -> usize {
    let mut used = vec![false; w.len()];
    let mut i = 0;
    let mut n = 0;
    while i < got.len() {
        let run = |st: usize| got[i..].iter().enumerate().take_while(|(j, b)| **b == pat(s, st + j)).count();
        let mut best: Option<(usize, usize)> = None; // (write, matched)
        for k in 0..w.len() {
            if used[k] {
                continue;
            }
            let l = run(write_start(tcp, w, k)).min(if tcp { usize::MAX } else { w[k].0 });
            if l >= 4.min(w[k].0) && l > 0 && best.map(|b| l > b.1).unwrap_or(true) {
                best = Some((k, l));
            }
        }
        match best {
            Some((k, l)) => {
                used[k] = true;
                n += l;
                i += l;
            }
            None => i += 1,
        }
    }
    n
}

/// which sender's pattern do these bytes carry?  The sender that explains most of them (at least one byte in
/// eight); the first byte of a stream / datagram names its sender, which settles very short ones.
fn attribute(cfg: &Cfg, reads: &[(usize, Vec<u8>)], senders: &[(usize, Vec<(usize, u64)>)]) -> Option<usize> {
    let mut score: Vec<(usize, usize)> = vec![];
    let mut total = 0;
    if cfg.tcp {
        let got: Vec<u8> = reads.iter().flat_map(|r| r.1.iter().cloned()).collect();
        total = got.len();
        for (s, w) in senders {
            score.push((explained(true, &got, *s, w), *s));
        }
    } else {
        for (s, w) in senders {
            let mut n = 0;
            for r in reads {
                n += explained(false, &r.1, *s, w);
            }
            score.push((n, *s));
        }
        total = reads.iter().map(|r| r.1.len()).sum();
    }
    if total == 0 {
        return None;
    }
    score.sort();
    match score.last() {
        Some((n, s)) if *n * 8 >= total && *n > 0 => Some(*s),
        _ => None,
    }
}

struct Sock;

fn size_bucket(n: usize) -> &'static str {
    match n {
        0 => "0",
        1 => "1",
        2..=49 => "2-49",
        50..=99 => "50-99",
        100..=1459 => "100-1459",
        1460..=4999 => "1460-4999",
        _ => "5000+",
    }
}

impl Family for Sock {
    fn gen(rng: &mut Rng, _idx: usize) -> String {
        let tcp = rng.coin(2, 3);
        // 12% on the real multi-thread runtime (short, no faults: the runtime-flavour quantifier)
        let multi = rng.coin(12, 100);
        let flavor = if multi { *rng.pick(&[2usize, 2, 4, 4, 16, 3, 8]) } else { 0 };
        let mtu: u32 = match rng.below(8) {
            0 => 100,
            1 => rng.range(101, 130) as u32,
            2 | 3 => rng.range(131, 600) as u32,
            4 | 5 => rng.range(601, 1499) as u32,
            _ => 1500,
        };
        let arp = rng.coin(3, 4);
        let faults = !multi && rng.coin(3, 5);
        let (jit, dp, up, k) = if faults {
            (
                *rng.pick(&[0u64, 200, 3000, 40000]),
                *rng.pick(&[0u64, 0, 5, 15, 30]),
                *rng.pick(&[0u64, 0, 5, 20]),
                rng.range(1, 3),
            )
        } else {
            (0, 0, 0, 1)
        };
        let seed = rng.below(1_000_000);
        let nclients = match rng.below(10) {
            0..=5 => 1,
            6 | 7 => 2,
            8 => 3,
            _ => 4,
        } as usize;
        let acc = if rng.coin(1, 3) { *rng.pick(&[1u64, 20, 300]) } else { 0 };
        // budget of bytes per direction so that a scenario stays small
        // datagrams: IPv4 does not fragment on send, the link carries at most mtu-28 bytes of UDP payload;
        // 5% of the datagram scenarios contain larger datagrams (property: intact or not at all)
        let oversize = !tcp && rng.coin(1, 20);
        let max_payload = if tcp || oversize { 20000 } else { (mtu as usize).saturating_sub(28) };
        let sched = |rng: &mut Rng, budget: usize, allow_empty: bool| -> Vec<(usize, u64)> {
            if allow_empty && rng.coin(1, 2) {
                return vec![];
            }
            let count = match rng.below(10) {
                0 | 1 => 1,
                2..=5 => rng.range(2, 5),
                6..=8 => rng.range(6, 12),
                _ => rng.range(13, 20),
            } as usize;
            let spaced = rng.below(3); // 0 all back-to-back, 1 mixed, 2 all spaced
            let mut left = budget;
            let mut w = vec![];
            for i in 0..count {
                let mut len = match rng.below(12) {
                    0 => 1,
                    1 | 2 => rng.range(2, 20) as usize,
                    3..=5 => rng.range(21, 200) as usize,
                    6 | 7 => (mtu as usize).saturating_sub(rng.range(48, 52) as usize).max(1),
                    8 | 9 => rng.range(201, 3000) as usize,
                    10 => rng.range(3001, 9000) as usize,
                    _ => rng.range(9001, 20000) as usize,
                };
                len = len.min(max_payload).max(1);
                if left == 0 && !w.is_empty() {
                    break;
                }
                if len > left {
                    len = left.max(1).min(max_payload);
                }
                left = left.saturating_sub(len);
                let gap = if i == 0 && rng.coin(1, 2) {
                    0
                } else {
                    match spaced {
                        0 => 0,
                        1 => {
                            if rng.coin(1, 2) {
                                0
                            } else {
                                *rng.pick(&[1u64, 5, 30, 120])
                            }
                        }
                        _ => *rng.pick(&[1u64, 5, 30, 120]),
                    }
                };
                // on the real-time runtime sleeps are real: keep them short but clearly separated
                let gap = if multi && gap > 0 { 25 } else { gap };
                w.push((len, gap));
            }
            w
        };
        let budget = if multi { 6000 } else if tcp { *rng.pick(&[400usize, 3000, 3000, 12000, 45000]) } else { 30000 };
        let reads = |rng: &mut Rng, w_total: usize, w: &[(usize, u64)]| -> Vec<usize> {
            match rng.below(8) {
                0 if w_total <= 700 => vec![1],
                0 | 1 if w_total <= 6000 => vec![rng.range(2, 17) as usize],
                2 | 3 => {
                    // the sizes of the peer's writes ("exact")
                    let v: Vec<usize> = w.iter().map(|x| x.0).collect();
                    if v.is_empty() {
                        vec![64]
                    } else {
                        v
                    }
                }
                4 => vec![65536],
                5 => vec![rng.range(50, 3000) as usize],
                _ => {
                    let mut v = vec![];
                    for _ in 0..rng.range(2, 5) {
                        v.push(*rng.pick(&[3usize, 7, 50, 64, 99, 100, 700, 1460, 5000, 20000]));
                    }
                    if w_total > 6000 {
                        v.retain(|n| *n >= 50);
                    }
                    if v.is_empty() {
                        v.push(700);
                    }
                    v
                }
            }
        };
        let render_w = |w: &[(usize, u64)]| -> String {
            if w.is_empty() {
                "-".into()
            } else {
                w.iter().map(|(l, g)| format!("{}:{}", l, g)).collect::<Vec<_>>().join(",")
            }
        };
        let render_r = |r: &[usize]| r.iter().map(|n| n.to_string()).collect::<Vec<_>>().join(",");
        let srv_w = sched(rng, budget, true);
        let srv_total: usize = srv_w.iter().map(|x| x.0).sum();
        let mut clients = vec![];
        let mut up_all: Vec<(usize, u64)> = vec![];
        for c in 1..=nclients {
            // a datagram server learns of a client from its first datagram: upstream is never empty for udp
            let w = sched(rng, budget / nclients.max(1), tcp && !srv_w.is_empty());
            let r = reads(rng, srv_total, &srv_w);
            let d = if rng.coin(1, 3) { *rng.pick(&[1u64, 10, 150]) } else { 0 };
            let d = if multi { d.min(10) } else { d };
            up_all.extend_from_slice(&w);
            clients.push(format!("c{} w={} r={} d={}", c, render_w(&w), render_r(&r), d));
        }
        let up_max: usize = up_all.iter().map(|x| x.0).sum();
        let sr = reads(rng, up_max, &up_all);
        format!(
            "{} f={} mtu={} arp={} plan={}:{}:{}:{}:{} acc={} srv={} sr={} | {}",
            if tcp { "tcp" } else { "udp" },
            flavor,
            mtu,
            if arp { 1 } else { 0 },
            seed,
            jit,
            dp,
            up,
            k,
            if multi { acc.min(20) } else { acc },
            render_w(&srv_w),
            render_r(&sr),
            clients.join(" ; ")
        )
    }

    fn realtime(case: &str) -> bool {
        parse_case(case).map_or(false, |c| c.flavor != 0)
    }

    fn run(case: &str) -> Outcome {
        let cfg = match parse_case(case) {
            Some(c) => c,
            None => return Outcome { impl_line: "ERR parse".into(), oracle: Oracle::Ok },
        };
        stat(if cfg.tcp { "kind tcp" } else { "kind udp" });
        if !cfg.tcp && (cfg.clients.iter().any(|c| c.w.iter().any(|x| x.0 + 28 > cfg.mtu as usize)) || cfg.srv_w.iter().any(|x| x.0 + 28 > cfg.mtu as usize)) {
            stat("udp datagram larger than the link carries");
        }
        stat(&format!("flavor {}", cfg.flavor));
        stat(&format!("clients {}", cfg.clients.len()));
        stat(&format!("mtu {}", match cfg.mtu { 100 => "100", 101..=130 => "101-130", 131..=600 => "131-600", 601..=1499 => "601-1499", _ => "1500+" }));
        stat(if cfg.arp { "arp yes" } else { "arp no" });
        stat(&format!("faults jitter={} drop={} dup={}", cfg.jitter_us > 0, cfg.drop_pct > 0, cfg.dup_pct > 0));
        stat(if cfg.acc > 0 { "accept delayed" } else { "accept immediate" });
        for cc in &cfg.clients {
            stat(&format!("up writes {}", match cc.w.len() { 0 => "0", 1 => "1", 2..=5 => "2-5", 6..=12 => "6-12", _ => "13-20" }));
            stat(&format!("up longest back-to-back {}", match back_to_back(&cc.w) { 0 => "0", 1 => "1", 2..=5 => "2-5", _ => "6+" }));
            for (l, _) in &cc.w {
                stat(&format!("write size {}", size_bucket(*l)));
            }
            for n in &cc.r {
                stat(&format!("read size {}", size_bucket(*n)));
            }
        }
        for n in &cfg.srv_r {
            stat(&format!("read size {}", size_bucket(*n)));
        }
        stat(&format!("down writes {}", match cfg.srv_w.len() { 0 => "0", 1 => "1", 2..=5 => "2-5", 6..=12 => "6-12", _ => "13-20" }));

        let wall = if cfg.flavor == 0 { Duration::from_secs(60) } else { Duration::from_secs(40) };
        let r = run_child(case, wall);
        let mut v = Verdict { fails: vec![], known: vec![] };
        if !r.clean {
            // a crashed or hung simulation is an observation, not a harness error
            let status = if r.timed_out {
                stat("child HANG");
                "HANG".to_string()
            } else {
                stat("child CRASH");
                // exit code 1 = the panic hook installed by run_internet fired (a task panicked)
                let tail: String = r.stderr_tail.lines().rev().find(|l| !l.trim().is_empty()).unwrap_or("").trim().to_string();
                let h: u64 = r.exit_code.unwrap_or(-1) as u64 & 0xffff;
                v.fails.push(format!(
                    "the simulation process died (exit {:?}; 1 = a task panicked and run_internet's panic hook exited the process); last stderr line: {}",
                    r.exit_code,
                    tail.chars().take(200).collect::<String>()
                ));
                format!("CRASH {}", h)
            };
            if r.timed_out {
                v.fails.push("the simulation did not finish within the wall-clock limit".into());
            }
            let secs: Vec<String> = cfg.clients.iter().map(|c| format!("c{} sid=- x=1 dx=1 up=- down=-", c.id)).collect();
            return Outcome { impl_line: format!("{} | {}", status, secs.join(" ; ")), oracle: Oracle::Fail(v.fails.join("; ")) };
        }
        let mut status = "?".to_string();
        let mut handlers: Vec<Vec<(usize, Vec<u8>)>> = vec![];
        let mut clients: HashMap<usize, Vec<(usize, Vec<u8>)>> = HashMap::new();
        let mut notes = vec![];
        for l in &r.out {
            let t: Vec<&str> = l.splitn(3, ' ').collect();
            match t[0] {
                "status" => status = t[1].to_string(),
                "handler" => handlers.push(parse_reads(t[2])),
                "client" => {
                    clients.insert(t[1].parse().unwrap_or(0), parse_reads(t[2]));
                }
                "note" => notes.push(l[5..].to_string()),
                _ => {}
            }
        }
        stat(&format!("status {}", status));
        if status != "Exited" {
            v.fails.push(format!("simulation status {}", status));
        }
        for n in &notes {
            let key: String = n.split_whitespace().next().unwrap_or("").to_string();
            stat(&format!("note {}", key));
            // an error from send/recv/connect/accept on a healthy connection is a violation; an accept
            // timeout is judged below through the missing bytes
            if n.starts_with("rival ") {
                // the rival's connect to an endpoint pair in use must be refused
                if !n.ends_with("refused=true") {
                    v.fails.push(format!("a second socket was connected on an endpoint pair in use: {}", n));
                }
            } else if !n.starts_with("accept-timeout") {
                v.fails.push(format!("note: {}", n));
            }
        }
        // frames
        let mut dups: HashMap<String, usize> = HashMap::new();
        let (mut n_send, mut n_drop, mut n_dup, mut n_delay) = (0, 0, 0, 0);
        for (_, e) in &r.events {
            if e.starts_with("send ") {
                n_send += 1;
                if e.contains("fate=drop") {
                    n_drop += 1;
                }
                if e.contains("fate=delay") {
                    n_delay += 1;
                }
                if e.contains("fate=dup") {
                    n_dup += 1;
                    if let Some(from) = e.split_whitespace().find_map(|t| t.strip_prefix("from=")) {
                        *dups.entry(from.to_string()).or_insert(0) += 1;
                    }
                }
            }
        }
        stat(&format!("frames {}", match n_send { 0..=9 => "0-9", 10..=99 => "10-99", 100..=999 => "100-999", _ => "1000+" }));
        if n_drop > 0 {
            stat("frames some dropped");
        }
        if n_dup > 0 {
            stat("frames some duplicated");
        }
        if n_delay > 0 {
            stat("frames some delayed");
        }
        // MAC addresses are handed out in machine order: server 0? -> taken from the trace order is fragile;
        // use the loose but sound bound: copies <= 1 + all duplicated frames of the scenario
        let copies = 1 + n_dup;

        // attribute every handler's upstream bytes to a client
        let senders_up: Vec<(usize, Vec<(usize, u64)>)> = cfg.clients.iter().map(|c| (c.id, c.w.clone())).collect();
        let mut sid_of: HashMap<usize, usize> = HashMap::new();
        for (k, h) in handlers.iter().enumerate() {
            match attribute(&cfg, h, &senders_up) {
                Some(id) => {
                    if sid_of.contains_key(&id) {
                        v.fails.push(format!("two server sockets received bytes of client {}", id));
                    } else {
                        sid_of.insert(id, k);
                    }
                }
                None => {
                    if !h.is_empty() && h.iter().any(|r| !r.1.is_empty()) {
                        v.fails.push(format!("server socket {} received bytes that belong to no client", k));
                    }
                }
            }
        }
        // ... and every client's downstream bytes to a handler
        let senders_down: Vec<(usize, Vec<(usize, u64)>)> = (0..cfg.clients.len().max(handlers.len())).map(|k| (50 + k, cfg.srv_w.clone())).collect();
        let mut secs = vec![];
        for cc in &cfg.clients {
            let what_up = format!("client {} -> server", cc.id);
            let what_down = format!("server -> client {}", cc.id);
            let down = clients.get(&cc.id).cloned().unwrap_or_default();
            let down_from = attribute(&cfg, &down, &senders_down).map(|s| s - 50);
            let sid = match (sid_of.get(&cc.id).cloned(), down_from) {
                (Some(a), Some(b)) => {
                    if a != b {
                        v.fails.push(format!("client {}: its bytes went to server socket {} but it was answered by server socket {}", cc.id, a, b));
                    }
                    Some(a)
                }
                (Some(a), None) => Some(a),
                (None, Some(b)) => Some(b),
                (None, None) => {
                    // nothing identifiable in either direction: when exactly one handler is unattributed, it is this one
                    None
                }
            };
            let up: Vec<(usize, Vec<u8>)> = sid_of.get(&cc.id).map(|k| handlers[*k].clone()).unwrap_or_default();
            if cfg.tcp {
                judge_stream(&mut v, &cfg, &what_up, cc.id, &cc.w, &up);
                if let Some(k) = sid {
                    judge_stream(&mut v, &cfg, &what_down, 50 + k, &cfg.srv_w, &down);
                } else if !cfg.srv_w.is_empty() {
                    judge_stream(&mut v, &cfg, &what_down, 50, &cfg.srv_w, &down);
                }
            } else {
                judge_dgrams(&mut v, &what_up, cc.id, &cc.w, &up, copies);
                judge_dgrams(&mut v, &what_down, 50 + sid.unwrap_or(0), &cfg.srv_w, &down, copies);
                // loss-free link (and virtual time): every datagram the link can carry is also present
                if n_drop == 0 && cfg.flavor == 0 {
                    let carriable = |w: &[(usize, u64)]| w.iter().filter(|x| x.0 + 28 <= cfg.mtu as usize).count();
                    let distinct = |rs: &[(usize, Vec<u8>)]| {
                        let mut v: Vec<&Vec<u8>> = rs.iter().map(|r| &r.1).collect();
                        v.sort();
                        v.dedup();
                        v.len()
                    };
                    if distinct(&up) < carriable(&cc.w).min(1) || (n_dup == 0 && up.len() < carriable(&cc.w)) {
                        v.fails.push(format!("{}: {} of {} datagrams arrived although no frame was dropped", what_up, up.len(), carriable(&cc.w)));
                    }
                    if n_dup == 0 && down.len() < carriable(&cfg.srv_w) && sid.is_some() {
                        v.fails.push(format!("{}: {} of {} datagrams arrived although no frame was dropped", what_down, down.len(), carriable(&cfg.srv_w)));
                    }
                }
            }
            // rendering for the model-side validator
            let starts_up: Vec<(usize, usize)> = (0..cc.w.len()).map(|k| (cc.id, write_start(cfg.tcp, &cc.w, k))).collect();
            let sidn = sid.unwrap_or(0);
            let starts_down: Vec<(usize, usize)> = (0..cfg.srv_w.len()).map(|k| (50 + sidn, write_start(cfg.tcp, &cfg.srv_w, k))).collect();
            let enc_reads = |rs: &[(usize, Vec<u8>)], starts: &[(usize, usize)]| -> String {
                if rs.is_empty() {
                    return "-".into();
                }
                let mut cont = None;
                rs.iter()
                    .map(|(n, b)| {
                        if !cfg.tcp {
                            cont = None;
                        }
                        let e = encode(b, starts, &mut cont);
                        if cfg.tcp {
                            format!("{}:{}", n, e)
                        } else {
                            e
                        }
                    })
                    .collect::<Vec<_>>()
                    .join("/")
            };
            secs.push(format!(
                "c{} sid={} x={} dx={} up={} down={}",
                cc.id,
                sid.map(|k| k.to_string()).unwrap_or_else(|| "-".into()),
                copies,
                copies,
                enc_reads(&up, &starts_up),
                enc_reads(&down, &starts_down)
            ));
        }
        let impl_line = format!("{} | {}", status, secs.join(" ; "));
        let oracle = if !v.fails.is_empty() {
            Oracle::Fail(v.fails.join("; "))
        } else if !v.known.is_empty() {
            Oracle::Known("c02-write-reorder-multithread".into(), v.known.join("; "))
        } else {
            Oracle::Ok
        };
        Outcome { impl_line, oracle }
    }
}

fn main() {
    if let Some(case) = child_case() {
        child(&case);
    }
    main_loop::<Sock>();
}
