//! C14 part 2: frames whose headers fail to decode are dropped at that layer: they reach no
//! application, change no connection, provoke no reply, and the simulation keeps running.
//!
//! Scenario (child process, paused virtual time): machines A (10.0.0.1, MAC 0) and B (10.0.0.2,
//! MAC 1) on one network. A's driver opens a TCP connection to B:7000 and sends chunk 1, then
//! injects raw frames (`PciSession::send_pci`) addressed to B's tap, then sends chunk 2 on the
//! same connection and one UDP datagram to B:5000, then shuts the simulation down.
//!
//! case: `<frame> <frame> ...` with frame = `<i|a>:<hex bytes>` (i = handed to Ipv4, a = handed to Arp)
use elvis_core::{
    message::Message,
    new_machine_arc,
    protocol::{DemuxError, StartError},
    protocols::{
        arp::arp_parsing::ArpPacket,
        ipv4::{ipv4_parsing::Ipv4Header, Ipv4, Ipv4Address, Recipient},
        tcp::TcpHeader,
        udp::UdpHeader,
        Arp, Endpoint, Endpoints, Pci, Tcp, Udp,
    },
    run_internet_with_timeout, Control, IpTable, Machine, Network, Protocol, Session, Shutdown,
};
use elvis_verif_harness::stack::*;
use elvis_verif_harness::*;
use std::any::TypeId;
use std::sync::Arc;
use std::time::Duration;
use tokio::sync::Barrier;

const A_IP: [u8; 4] = [10, 0, 0, 1];
const B_IP: [u8; 4] = [10, 0, 0, 2];
const TCP_PORT: u16 = 7000;
const UDP_PORT: u16 = 5000;

fn chunk(k: usize) -> Vec<u8> {
    (0..300).map(|i| (i * 7 + k * 31) as u8).collect()
}

/// B's application: listens on TCP 7000 and UDP 5000 and logs everything it is given.
struct Sink;

#[async_trait::async_trait]
impl Protocol for Sink {
    async fn start(&self, _s: Shutdown, initialized: Arc<Barrier>, machine: Arc<Machine>) -> Result<(), StartError> {
        let b = Ipv4Address::new(B_IP);
        machine.protocol::<Tcp>().unwrap().listen(self.id(), Endpoint::new(b, TCP_PORT), machine.clone()).unwrap();
        machine.protocol::<Udp>().unwrap().listen(self.id(), Endpoint::new(b, UDP_PORT), machine.clone()).unwrap();
        initialized.wait().await;
        Ok(())
    }
    fn demux(&self, message: Message, _c: Arc<dyn Session>, control: Control, _m: Arc<Machine>) -> Result<(), DemuxError> {
        let ep = control.get::<Endpoints>().copied();
        let port = ep
            .map(|e| e.local.port)
            .or_else(|| control.get::<UdpHeader>().map(|u| u.destination))
            .unwrap_or(0);
        log(format!("app port={} bytes={}", port, hex(&message.to_vec())));
        Ok(())
    }
}

struct Driver {
    frames: Vec<(bool, Vec<u8>)>,
}

#[async_trait::async_trait]
impl Protocol for Driver {
    async fn start(&self, shutdown: Shutdown, initialized: Arc<Barrier>, machine: Arc<Machine>) -> Result<(), StartError> {
        initialized.wait().await;
        let a = Ipv4Address::new(A_IP);
        let b = Ipv4Address::new(B_IP);
        let tcp = machine
            .protocol::<Tcp>()
            .unwrap()
            .open(self.id(), Endpoints::new(Endpoint::new(a, 1111), Endpoint::new(b, TCP_PORT)), machine.clone())
            .await
            .unwrap();
        tcp.send(Message::new(chunk(1)), machine.clone()).unwrap();
        tokio::time::sleep(Duration::from_millis(400)).await;
        log("phase inject".into());
        let pci = machine.protocol::<Pci>().unwrap().open(0);
        for (is_ip, bytes) in &self.frames {
            let proto = if *is_ip { TypeId::of::<Ipv4>() } else { TypeId::of::<Arp>() };
            let r = pci.send_pci(Message::new(bytes.clone()), Some(1), proto);
            log(format!("injected ok={}", r.is_ok()));
            tokio::time::sleep(Duration::from_millis(50)).await;
        }
        tokio::time::sleep(Duration::from_millis(400)).await;
        log("phase after".into());
        tcp.send(Message::new(chunk(2)), machine.clone()).unwrap();
        let udp = machine
            .protocol::<Udp>()
            .unwrap()
            .open_for_sending(self.id(), Endpoints::new(Endpoint::new(a, 2222), Endpoint::new(b, UDP_PORT)), machine.clone())
            .await
            .unwrap();
        udp.send(Message::new(b"still alive".to_vec()), machine.clone()).unwrap();
        tokio::time::sleep(Duration::from_millis(600)).await;
        shutdown.shut_down();
        Ok(())
    }
    fn demux(&self, _m: Message, _c: Arc<dyn Session>, _ctl: Control, _ma: Arc<Machine>) -> Result<(), DemuxError> {
        Ok(())
    }
}

fn parse_case(case: &str) -> Vec<(bool, Vec<u8>)> {
    case.split_whitespace()
        .map(|t| {
            let (k, h) = t.split_once(':').unwrap();
            (k == "i", unhex(h))
        })
        .collect()
}

fn child(case: &str) -> ! {
    let frames = parse_case(case);
    Recorder::install(Box::new(|_, _| elvis_core::network::verif::FrameFate::Deliver), false);
    let out = block_on(Flavor::CurrentPaused, async move {
        start_clock();
        let network = Network::basic();
        register_network(&network);
        let a = Ipv4Address::new(A_IP);
        let b = Ipv4Address::new(B_IP);
        let ta: IpTable<Recipient> = [(a, Recipient::with_mac(0, 1))].into_iter().collect();
        let tb: IpTable<Recipient> = [(b, Recipient::with_mac(0, 0))].into_iter().collect();
        let machines = vec![
            new_machine_arc![Tcp::new(), Udp::new(), Ipv4::new(ta), Arp::new(), Pci::new([network.clone()]), Driver { frames }],
            new_machine_arc![Tcp::new(), Udp::new(), Ipv4::new(tb), Arp::new(), Pci::new([network.clone()]), Sink],
        ];
        let status = run_internet_with_timeout(&machines, Duration::from_secs(20)).await;
        vec![format!("status {:?}", status)]
    });
    child_finish(&out)
}

/// How far the REAL decoders get on a frame addressed to B (independent of the Coq model).
#[derive(Debug, PartialEq, Clone, Copy)]
enum Fate {
    ArpUndecodable,
    ArpDecodable,
    Ipv4Undecodable,
    /// IPv4 header decodes, destination is not bound on B
    NotForB,
    /// fragment of a larger datagram (MF set or offset non-zero): goes to reassembly
    Fragment,
    TransportUndecodable,
    /// decodes completely: ordinary traffic (C04 / C17 territory), only "no crash" is checked
    Decodable,
    OtherProtocol,
}

fn classify(is_ip: bool, bytes: &[u8]) -> Fate {
    if !is_ip {
        return match ArpPacket::from_bytes(bytes.iter().cloned()) {
            Ok(_) => Fate::ArpDecodable,
            Err(_) => Fate::ArpUndecodable,
        };
    }
    let h = match Ipv4Header::from_bytes(bytes.iter().cloned()) {
        Ok(h) => h,
        Err(_) => return Fate::Ipv4Undecodable,
    };
    if h.destination != Ipv4Address::new(B_IP) {
        return Fate::NotForB;
    }
    if !h.flags.is_last_fragment() || h.fragment_offset != 0 {
        return Fate::Fragment;
    }
    let rest = &bytes[20.min(bytes.len())..];
    match h.protocol {
        17 => match UdpHeader::from_bytes_ipv4(rest.iter().cloned(), rest.len(), h.source, h.destination) {
            Ok(_) => Fate::Decodable,
            Err(_) => Fate::TransportUndecodable,
        },
        6 => match TcpHeader::from_bytes(rest.iter().cloned(), rest.len(), h.source, h.destination) {
            Ok(_) => Fate::Decodable,
            Err(_) => Fate::TransportUndecodable,
        },
        _ => Fate::OtherProtocol,
    }
}

fn rb(rng: &mut Rng, n: u64) -> Vec<u8> {
    let k = rng.below(n) as usize;
    rng.bytes(k)
}

struct Inject;

fn valid_udp(payload: &[u8], dport: u16) -> Vec<u8> {
    let a = Ipv4Address::new(A_IP);
    let b = Ipv4Address::new(B_IP);
    let udp = elvis_core::protocols::udp::verif::build_udp_header(a, 3333, b, dport, payload.iter().cloned(), payload.len()).unwrap();
    let mut body = udp;
    body.extend_from_slice(payload);
    let ip = elvis_core::protocols::ipv4::verif::build_ipv4_header(
        a, b, 17, body.len() as u16, Default::default(), 0, 0, Default::default(),
    )
    .unwrap();
    let mut f = ip;
    f.extend(body);
    f
}

fn valid_tcp(seq: u32, ack: u32, ctl: u8, payload: &[u8]) -> Vec<u8> {
    let a = Ipv4Address::new(A_IP);
    let b = Ipv4Address::new(B_IP);
    let h = TcpHeader {
        src_port: 1111,
        dst_port: TCP_PORT,
        seq,
        ack,
        data_offset: 5,
        ctl: elvis_core::protocols::tcp::verif::Control::from(ctl),
        wnd: 1000,
        urg: 0,
        checksum: 0,
    };
    let mut body = h.serialize();
    body.extend_from_slice(payload);
    let ip = elvis_core::protocols::ipv4::verif::build_ipv4_header(
        a, b, 6, body.len() as u16, Default::default(), 0, 0, Default::default(),
    )
    .unwrap();
    let mut f = ip;
    f.extend(body);
    f
}

fn arp_frame(rng: &mut Rng) -> Vec<u8> {
    // 28-byte ARP packet as arp_parsing.rs builds it, fields random
    let mut v = vec![0, 1, 8, 0, 6, 4, 0, rng.range(1, 2) as u8];
    v.extend(rng.bytes(20));
    v
}

impl Family for Inject {
    fn gen(rng: &mut Rng, _idx: usize) -> String {
        let n = rng.range(1, 4);
        let mut out = vec![];
        for _ in 0..n {
            let kind = match rng.below(14) { 13 => 4, k => k };
            let (is_ip, bytes): (bool, Vec<u8>) = match kind {
                0 => (true, rb(rng, 60)),
                1 => {
                    // truncation of a valid UDP packet at every length
                    let f = valid_udp(&rb(rng, 30), UDP_PORT);
                    let k = rng.below(f.len() as u64 + 1) as usize;
                    (true, f[..k].to_vec())
                }
                2 => {
                    // one byte mutated
                    let mut f = valid_udp(&rb(rng, 30), UDP_PORT);
                    let k = rng.below(f.len() as u64) as usize;
                    f[k] ^= 1 << rng.below(8);
                    (true, f)
                }
                3 => {
                    // extreme length fields: total_length / udp length
                    let mut f = valid_udp(&rng.bytes(8), UDP_PORT);
                    let v = if rng.coin(1, 3) { rng.below(41) as u16 } else { *rng.pick(&[0u16, 1, 19, 20, 21, 27, 28, 29, 0xffff, 0x7fff]) };
                    let at = if rng.coin(1, 2) { 2 } else { 24 };
                    f[at] = (v >> 8) as u8;
                    f[at + 1] = v as u8;
                    (true, f)
                }
                4 => {
                    // fragments: MF set and/or fragment offset, with crafted lengths
                    let mut f = valid_udp(&rb(rng, 24), UDP_PORT);
                    let fo = *rng.pick(&[0u16, 1, 2, 100, 8190, 8191]);
                    let mf = rng.coin(1, 2) as u16;
                    let w = (mf << 13) | fo;
                    f[6] = (w >> 8) as u8;
                    f[7] = w as u8;
                    if rng.coin(1, 2) {
                        // every total length around and below the header size (a guard that compares with the wrong
                        // unit lets 5..19 through to the reassembly arithmetic), plus the classic boundaries
                        let v = if rng.coin(1, 2) { rng.below(41) as u16 } else { *rng.pick(&[20u16, 21, 27, 28, 29, 36, 0xffff]) };
                        f[2] = (v >> 8) as u8;
                        f[3] = v as u8;
                    }
                    (true, f)
                }
                5 => {
                    // TCP segment with a wrong data offset / truncated header
                    let mut f = valid_tcp(rng.u32(), rng.u32(), rng.below(64) as u8, &rb(rng, 10));
                    if rng.coin(1, 2) {
                        f[32] = (rng.below(16) as u8) << 4;
                    } else {
                        let k = 20 + rng.below(20) as usize;
                        f.truncate(k);
                        f[2] = 0;
                        f[3] = k as u8;
                    }
                    (true, f)
                }
                6 => (true, valid_udp(&rb(rng, 20), *rng.pick(&[UDP_PORT, 5001, 0]))),
                7 => {
                    // wrong destination address / other protocol number
                    let mut f = valid_udp(&rng.bytes(4), UDP_PORT);
                    if rng.coin(1, 2) {
                        f[19] = 9;
                    } else {
                        f[9] = *rng.pick(&[0u8, 1, 2, 47, 255]);
                    }
                    (true, f)
                }
                12 => {
                    // fragments whose end (offset*8 + total length) lies around the largest possible datagram:
                    // the boundary of the reassembly arithmetic (u16 sums), dense in both directions
                    let mut f = valid_udp(&rb(rng, 24), UDP_PORT);
                    let fo = rng.range(8176, 8191) as u16;
                    let end = rng.range(65500, 65580) as i64; // offset*8 + total_length
                    let tl = (end - fo as i64 * 8).clamp(20, 200) as u16;
                    let mf = rng.coin(1, 3) as u16;
                    let w = (mf << 13) | fo;
                    f[6] = (w >> 8) as u8;
                    f[7] = w as u8;
                    f[2] = (tl >> 8) as u8;
                    f[3] = tl as u8;
                    // make the frame as long as it claims (the decoder does not check, later stages may)
                    f.resize((tl as usize).max(20), 0x5a);
                    (true, f)
                }
                8 => (false, rb(rng, 40)),
                9 => {
                    let f = arp_frame(rng);
                    let k = rng.below(f.len() as u64 + 1) as usize;
                    (false, f[..k].to_vec())
                }
                10 => (false, arp_frame(rng)),
                _ => {
                    // version / IHL / reserved bits
                    let mut f = valid_udp(&rng.bytes(4), UDP_PORT);
                    match rng.below(3) {
                        0 => f[0] = rng.below(256) as u8,
                        1 => f[1] = rng.below(256) as u8,
                        _ => f[6] |= 0x80,
                    }
                    (true, f)
                }
            };
            out.push(format!("{}:{}", if is_ip { "i" } else { "a" }, hex(&bytes)));
        }
        out.join(" ")
    }

    fn run(case: &str) -> Outcome {
        let frames = parse_case(case);
        let fates: Vec<Fate> = frames.iter().map(|(k, b)| classify(*k, b)).collect();
        for f in &fates {
            stat(&format!("fate_{:?}", f));
        }
        let r = run_child(case, Duration::from_secs(60));
        let mut viol = vec![];
        if !r.clean {
            viol.push(format!(
                "simulation did not keep running: exit={:?} timed_out={} stderr: {}",
                r.exit_code, r.timed_out, r.stderr_tail.replace('\n', " ")
            ));
        }
        // split the trace into phases
        let mut phase = 0;
        let mut tcp_stream: Vec<u8> = vec![];
        let mut udp_after = 0;
        let mut app_during = vec![];
        let mut b_frames_during = 0;
        let mut inj_seen = 0usize;
        let mut per_frame_reply: Vec<usize> = vec![0; frames.len()];
        for (_t, e) in &r.events {
            if e == "phase inject" {
                phase = 1;
            } else if e == "phase after" {
                phase = 2;
            } else if e.starts_with("injected") {
                inj_seen += 1;
            } else if let Some(rest) = e.strip_prefix("app ") {
                let port: u16 = rest.split_whitespace().next().unwrap().trim_start_matches("port=").parse().unwrap_or(0);
                let bytes = unhex(rest.split("bytes=").nth(1).unwrap_or("-"));
                if phase == 1 {
                    app_during.push((port, bytes.clone()));
                }
                if port == TCP_PORT {
                    tcp_stream.extend(bytes);
                } else if port == UDP_PORT && phase == 2 {
                    udp_after += 1;
                }
            } else if e.starts_with("send ") && e.contains(" from=1 ") && phase == 1 {
                b_frames_during += 1;
                if inj_seen >= 1 && inj_seen <= frames.len() {
                    per_frame_reply[inj_seen - 1] += 1;
                }
            }
        }
        if r.clean {
            let status_ok = r.out.iter().any(|l| l == "status Exited");
            if !status_ok {
                viol.push(format!("run did not end with the requested status: {:?}", r.out));
            }
            // frames that fail to decode reach no application and provoke no reply
            let all_inert = fates.iter().all(|f| {
                matches!(f, Fate::ArpUndecodable | Fate::Ipv4Undecodable | Fate::TransportUndecodable | Fate::NotForB | Fate::OtherProtocol)
            });
            if all_inert {
                stat("case_all_frames_undecodable");
                if !app_during.is_empty() {
                    viol.push(format!("undecodable frames reached an application: {:?}", app_during.iter().map(|(p, b)| (p, b.len())).collect::<Vec<_>>()));
                }
            }
            for (i, f) in fates.iter().enumerate() {
                if matches!(f, Fate::ArpUndecodable | Fate::Ipv4Undecodable | Fate::TransportUndecodable) && per_frame_reply[i] > 0 {
                    viol.push(format!("frame #{} ({:?}) provoked {} frame(s) from B", i, f, per_frame_reply[i]));
                }
            }
            // the connection is unchanged: the stream is exactly chunk1 ++ chunk2 unless a decodable
            // TCP segment for the connection was among the injected frames
            let touched_tcp = frames.iter().zip(&fates).any(|((_, b), f)| *f == Fate::Decodable && b.len() > 9 && b[9] == 6);
            let mut expect = chunk(1);
            expect.extend(chunk(2));
            if !touched_tcp && tcp_stream != expect {
                viol.push(format!("TCP stream changed: got {} bytes, expected {}", tcp_stream.len(), expect.len()));
            }
            if udp_after != 1 {
                viol.push(format!("the datagram sent after the injection arrived {} times", udp_after));
            }
        }
        let _ = b_frames_during;
        let line = format!(
            "clean={} fates={:?} app_during={} replies={:?} tcp={} udp_after={}",
            r.clean, fates, app_during.len(), per_frame_reply, tcp_stream.len(), udp_after
        );
        let oracle = if viol.is_empty() { Oracle::Ok } else { Oracle::Fail(viol.join(" || ")) };
        Outcome { impl_line: line, oracle }
    }
}

fn main() {
    if let Some(case) = child_case() {
        child(&case);
    }
    main_loop::<Inject>();
}
