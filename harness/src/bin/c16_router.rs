//! C16 - routers forward along the route, TTL bounds every packet's life (full-stack kit).
//!
//! One case = one generated internet: networks, ArpRouter machines with static route tables,
//! hosts with a recording UDP application, a few datagrams (through the real UDP/IPv4 stack, or
//! as a raw IPv4 frame with a chosen TTL), and extra delays for some frames.
//!
//! case line (sections separated by " | ", all numbers decimal, addresses as u32):
//!   `<flavor 0=paused|n=multi n> <class> | N <mtu>* | R <k> (<net> <ip>)*k <extra local ips> <m> (<addr> <len> <gw|0> <slot>)*m | ...
//!    | H <net> <ip> <masklen> <gw> <wildcard listener 0|1> | ... | D <src host> <dst ip> <ttl|-1> <len> <start ms> <expect 0|1> | ... | F (<frame idx> <ms>)*`
//! impl line: `OK quiet=<0|1> | f <tag> <net> <from> <to> <ttl> <src> <dst> <tos> <totlen> <ident> <flags> <frag> <proto> <body hex> | ...
//!    | x <tag> <host> <src> <dst> <data hex> | ...`   or   `PANIC <site>`   or   `HANG`
//! The extracted Coq validator reads `case ||| impl` and must ACCEPT.
use elvis::applications::ArpRouter;
use elvis_core::{
    machine::PciSlot,
    message::Message,
    network::{verif::FrameFate, NetworkBuilder},
    new_machine_arc,
    protocol::{DemuxError, StartError},
    protocols::{
        arp::subnetting::{Ipv4Mask, Ipv4Net, SubnetInfo},
        ipv4::{ipv4_parsing::Ipv4Header, Ipv4, Ipv4Address, Recipient},
        udp::Udp,
        AddressPair, Arp, Endpoint, Endpoints, Pci,
    },
    run_internet_with_timeout, Control, IpTable, Machine, Network, Protocol, Session, Shutdown,
};
use elvis_verif_harness::stack::*;
use elvis_verif_harness::*;
use std::any::TypeId;
use std::collections::HashMap;
use std::sync::Arc;
use std::time::Duration;
use tokio::sync::Barrier;

const PORT: u16 = 0xbeef;
const PAUSED_SIM_MS: u64 = 14_000;
const PAUSED_QUIET_MS: u64 = 4_000;
const MULTI_SIM_MS: u64 = 1500;
const MULTI_QUIET_MS: u64 = 500;

// ------------------------------------------------------------------ scenario

#[derive(Clone, Debug)]
struct RouteE {
    addr: u32,
    len: u32,
    gw: u32, // 0 = None
    slot: u32,
}
#[derive(Clone, Debug)]
struct RouterC {
    nets: Vec<usize>,
    ips: Vec<u32>,
    extra_local: usize,
    routes: Vec<RouteE>,
}
#[derive(Clone, Debug)]
struct HostC {
    net: usize,
    ip: u32,
    masklen: u32,
    gw: u32,
    wild: bool,
}
#[derive(Clone, Debug)]
struct Dgram {
    src: usize,
    dst: u32,
    ttl: i64, // -1: through Udp/Ipv4 (TTL 30)
    len: usize,
    start_ms: u64,
    expect: bool,
}
#[derive(Clone, Debug)]
struct Scn {
    flavor: usize,
    class: String,
    mtus: Vec<u32>,
    routers: Vec<RouterC>,
    hosts: Vec<HostC>,
    dgrams: Vec<Dgram>,
    delays: Vec<(usize, u64)>,
}

fn net_prefix(i: usize) -> u32 {
    0x0A00_0000 | ((i as u32) << 8)
}
fn router_ip(net: usize, r: usize) -> u32 {
    net_prefix(net) | (1 + r as u32)
}
fn host_ip(net: usize, h: usize) -> u32 {
    net_prefix(net) | (10 + h as u32)
}
fn extra_ip(r: usize, j: usize) -> u32 {
    0x0A63_0000 | ((r as u32) << 8) | (1 + j as u32)
}
fn mask_of(len: u32) -> u32 {
    if len == 0 {
        0
    } else if len >= 32 {
        u32::MAX
    } else {
        u32::MAX << (32 - len)
    }
}
fn payload(k: usize, len: usize) -> Vec<u8> {
    (0..len)
        .map(|i| match i {
            0 => (k >> 8) as u8,
            1 => k as u8,
            _ => (k * 37 + i * 11 + 5) as u8,
        })
        .collect()
}

impl Scn {
    fn render(&self) -> String {
        let mut s = format!("{} {}", self.flavor, self.class);
        s.push_str(" | N");
        for m in &self.mtus {
            s.push_str(&format!(" {}", m));
        }
        for r in &self.routers {
            s.push_str(&format!(" | R {}", r.nets.len()));
            for (n, ip) in r.nets.iter().zip(r.ips.iter()) {
                s.push_str(&format!(" {} {}", n, ip));
            }
            s.push_str(&format!(" {} {}", r.extra_local, r.routes.len()));
            for e in &r.routes {
                s.push_str(&format!(" {} {} {} {}", e.addr, e.len, e.gw, e.slot));
            }
        }
        for h in &self.hosts {
            s.push_str(&format!(" | H {} {} {} {} {}", h.net, h.ip, h.masklen, h.gw, h.wild as u8));
        }
        for d in &self.dgrams {
            s.push_str(&format!(" | D {} {} {} {} {} {}", d.src, d.dst, d.ttl, d.len, d.start_ms, d.expect as u8));
        }
        s.push_str(" | F");
        for (i, ms) in &self.delays {
            s.push_str(&format!(" {} {}", i, ms));
        }
        s
    }

    fn parse(case: &str) -> Scn {
        let mut scn = Scn { flavor: 0, class: String::new(), mtus: vec![], routers: vec![], hosts: vec![], dgrams: vec![], delays: vec![] };
        for (si, sec) in case.split('|').enumerate() {
            let t: Vec<&str> = sec.split_whitespace().collect();
            if si == 0 {
                scn.flavor = t[0].parse().unwrap();
                scn.class = t[1].to_string();
                continue;
            }
            let n = |i: usize| -> i64 { t[i].parse().unwrap() };
            match t[0] {
                "N" => scn.mtus = (1..t.len()).map(|i| n(i) as u32).collect(),
                "R" => {
                    let k = n(1) as usize;
                    let mut r = RouterC { nets: vec![], ips: vec![], extra_local: 0, routes: vec![] };
                    for j in 0..k {
                        r.nets.push(n(2 + 2 * j) as usize);
                        r.ips.push(n(3 + 2 * j) as u32);
                    }
                    let mut p = 2 + 2 * k;
                    r.extra_local = n(p) as usize;
                    let m = n(p + 1) as usize;
                    p += 2;
                    for _ in 0..m {
                        r.routes.push(RouteE { addr: n(p) as u32, len: n(p + 1) as u32, gw: n(p + 2) as u32, slot: n(p + 3) as u32 });
                        p += 4;
                    }
                    scn.routers.push(r);
                }
                "H" => scn.hosts.push(HostC { net: n(1) as usize, ip: n(2) as u32, masklen: n(3) as u32, gw: n(4) as u32, wild: n(5) != 0 }),
                "D" => scn.dgrams.push(Dgram { src: n(1) as usize, dst: n(2) as u32, ttl: n(3), len: n(4) as usize, start_ms: n(5) as u64, expect: n(6) != 0 }),
                "F" => {
                    let mut p = 1;
                    while p + 1 < t.len() {
                        scn.delays.push((n(p) as usize, n(p + 1) as u64));
                        p += 2;
                    }
                }
                _ => panic!("bad section"),
            }
        }
        scn
    }

    fn sim_ms(&self) -> u64 {
        if self.flavor == 0 { PAUSED_SIM_MS } else { MULTI_SIM_MS }
    }
    fn quiet_ms(&self) -> u64 {
        if self.flavor == 0 { PAUSED_QUIET_MS } else { MULTI_QUIET_MS }
    }
    fn ttl0(&self, d: &Dgram) -> u32 {
        if d.ttl < 0 { 30 } else { d.ttl as u32 }
    }
}

// ------------------------------------------------------------------ the host application (child side)

struct SendSpec {
    k: usize,
    dst: u32,
    ttl: i64,
    len: usize,
    start_ms: u64,
}

struct HostApp {
    idx: usize,
    ip: u32,
    /// listen on 0.0.0.0 (like a socket bound to INADDR_ANY) instead of the host's own address
    wild: bool,
    sends: Vec<SendSpec>,
}

async fn do_send(app_id: TypeId, idx: usize, ip: u32, s: SendSpec, machine: Arc<Machine>) {
    if s.start_ms > 0 {
        tokio::time::sleep(Duration::from_millis(s.start_ms)).await;
    }
    let data = payload(s.k, s.len);
    let local: Ipv4Address = ip.into();
    let remote: Ipv4Address = s.dst.into();
    if s.ttl < 0 {
        // the real stack: Udp::open_for_sending -> Ipv4::open_for_sending -> Arp::resolve
        let endpoints = Endpoints { local: Endpoint { address: local, port: PORT }, remote: Endpoint { address: remote, port: PORT } };
        let udp = machine.protocol::<Udp>().unwrap();
        match udp.open_for_sending(app_id, endpoints, machine.clone()).await {
            Ok(session) => match session.send(Message::new(data), machine.clone()) {
                Ok(()) => log(format!("sent host={} k={}", idx, s.k)),
                Err(e) => log(format!("sendfail host={} k={} {:?}", idx, s.k, e)),
            },
            Err(e) => log(format!("openfail host={} k={} {:?}", idx, s.k, e)),
        }
    } else {
        // a raw IPv4 frame with a chosen TTL, built with the public Ipv4Header::serialize, sent to the MAC
        // that the host's own Arp resolves (same subnet decision as the stack)
        let arp = machine.protocol::<Arp>().unwrap();
        arp.listen(local);
        match arp.resolve(AddressPair { local, remote }, 0, machine.clone()).await {
            Ok(mac) => {
                let udp_h = elvis_core::protocols::udp::verif::build_udp_header(local, PORT, remote, PORT, data.iter().cloned(), data.len()).unwrap();
                let mut body = udp_h;
                body.extend_from_slice(&data);
                // take a header the stack would build and change the TTL only
                let proto = elvis_core::protocols::ipv4::verif::build_ipv4_header(
                    local,
                    remote,
                    17,
                    body.len() as u16,
                    Default::default(),
                    0,
                    0,
                    Default::default(),
                )
                .unwrap();
                let mut h = Ipv4Header::from_bytes(proto.iter().cloned()).unwrap();
                h.time_to_live = s.ttl as u8;
                // non-default values in the fields a router must carry over unchanged
                h.identification = (0x1234 + 7 * s.k as u32 + s.len as u32) as u16;
                h.type_of_service = ((((s.k % 8) as u8) << 5) | (((s.len % 8) as u8) << 2)).into();
                if s.len % 2 == 1 {
                    h.flags.set_may_fragment(false);
                }
                let hb = h.serialize().unwrap();
                let mut msg = Message::new(body);
                msg.header(hb);
                let pci = machine.protocol::<Pci>().unwrap().open(0);
                match pci.send_pci(msg, Some(mac), TypeId::of::<Ipv4>()) {
                    Ok(()) => log(format!("sent host={} k={}", idx, s.k)),
                    Err(e) => log(format!("sendfail host={} k={} {:?}", idx, s.k, e)),
                }
            }
            Err(e) => log(format!("openfail host={} k={} {:?}", idx, s.k, e)),
        }
    }
}

#[async_trait::async_trait]
impl Protocol for HostApp {
    async fn start(&self, _shutdown: Shutdown, initialized: Arc<Barrier>, machine: Arc<Machine>) -> Result<(), StartError> {
        machine
            .protocol::<Udp>()
            .unwrap()
            .listen(
                self.id(),
                Endpoint { address: if self.wild { Ipv4Address::CURRENT_NETWORK } else { self.ip.into() }, port: PORT },
                machine.clone(),
            )
            .unwrap();
        initialized.wait().await;
        for s in self.sends.iter() {
            let spec = SendSpec { k: s.k, dst: s.dst, ttl: s.ttl, len: s.len, start_ms: s.start_ms };
            tokio::spawn(do_send(self.id(), self.idx, self.ip, spec, machine.clone()));
        }
        Ok(())
    }

    fn demux(&self, message: Message, _caller: Arc<dyn Session>, control: Control, _machine: Arc<Machine>) -> Result<(), DemuxError> {
        let (src, dst) = match control.get::<Ipv4Header>() {
            Some(h) => (h.source.to_u32(), h.destination.to_u32()),
            None => (0, 0),
        };
        log(format!("rx host={} src={} dst={} data={}", self.idx, src, dst, hex(&message.to_vec())));
        Ok(())
    }
}

fn child(case: &str) -> ! {
    let scn = Scn::parse(case);
    let flavor = if scn.flavor == 0 { Flavor::CurrentPaused } else { Flavor::Multi(scn.flavor) };
    let delays: HashMap<usize, u64> = scn.delays.iter().cloned().collect();
    Recorder::install(
        Box::new(move |idx, _f| match delays.get(&idx) {
            Some(ms) => FrameFate::Delay(Duration::from_millis(*ms)),
            None => FrameFate::Deliver,
        }),
        true,
    );
    let sim_ms = scn.sim_ms();
    // run_internet chains to the hook installed before it, prints a backtrace and exits with status 1: report
    // WHERE the panic happened on stdout (the parent only keeps the tail of stderr)
    std::panic::set_hook(Box::new(|info| {
        use std::io::Write;
        let loc = info.location().map(|l| format!("{}:{}", l.file(), l.line())).unwrap_or_else(|| "?".into());
        println!("EV 0 panic {}", loc);
        let _ = std::io::stdout().flush();
        eprintln!("{}", info);
        // run_internet's hook would now capture and print a backtrace (0.5 s of symbol resolution) and then
        // call process::exit(1); do the same without the backtrace
        std::process::exit(1);
    }));
    let out = block_on(flavor, async move {
        start_clock();
        let nets: Vec<Arc<Network>> = scn
            .mtus
            .iter()
            .map(|m| if *m >= 65535 { Network::basic() } else { NetworkBuilder::new().mtu(*m as u16).build() })
            .collect();
        for n in &nets {
            register_network(n);
        }
        let mut machines: Vec<Arc<Machine>> = vec![];
        let mut out: Vec<String> = vec![];
        for (ri, r) in scn.routers.iter().enumerate() {
            let mut table: IpTable<(Option<Ipv4Address>, PciSlot)> = IpTable::new();
            for e in &r.routes {
                let gw = if e.gw == 0 { None } else { Some(Ipv4Address::from(e.gw)) };
                table.add(Ipv4Net::new(e.addr.into(), Ipv4Mask::from_bitcount(e.len)), (gw, e.slot));
            }
            let mut local_ips: Vec<Ipv4Address> = r.ips.iter().map(|x| Ipv4Address::from(*x)).collect();
            for j in 0..r.extra_local {
                local_ips.push(extra_ip(ri, j).into());
            }
            let mut own: IpTable<Recipient> = IpTable::new();
            for ip in &local_ips {
                own.add_direct(*ip, Recipient::new(0, None));
            }
            let m = new_machine_arc![
                Pci::new(r.nets.iter().map(|n| nets[*n].clone()).collect::<Vec<_>>()),
                Ipv4::new(own),
                Arp::new(),
                ArpRouter::new(table, local_ips)
            ];
            for (slot, mac) in m.protocol::<Pci>().unwrap().mac_addresses().enumerate() {
                out.push(format!("tap {} {} R{}", r.nets[slot], mac, ri));
            }
            machines.push(m);
        }
        for (hi, h) in scn.hosts.iter().enumerate() {
            let ip: Ipv4Address = h.ip.into();
            let sends: Vec<SendSpec> = scn
                .dgrams
                .iter()
                .enumerate()
                .filter(|(_, d)| d.src == hi)
                .map(|(k, d)| SendSpec { k, dst: d.dst, ttl: d.ttl, len: d.len, start_ms: d.start_ms })
                .collect();
            let own: IpTable<Recipient> = [(ip, Recipient::new(0, None))].into_iter().collect();
            let m = new_machine_arc![
                Udp::new(),
                Ipv4::new(own),
                Pci::new([nets[h.net].clone()]),
                Arp::new().preconfig_subnet(ip, SubnetInfo { mask: Ipv4Mask::from_bitcount(h.masklen), default_gateway: h.gw.into() }),
                HostApp { idx: hi, ip: h.ip, wild: h.wild, sends }
            ];
            for mac in m.protocol::<Pci>().unwrap().mac_addresses() {
                out.push(format!("tap {} {} H{}", h.net, mac, hi));
            }
            machines.push(m);
        }
        let status = run_internet_with_timeout(&machines, Duration::from_millis(sim_ms)).await;
        out.push(format!("status {:?}", status));
        out.push(format!("end {}", now_ns()));
        out
    });
    child_finish(&out)
}

// ------------------------------------------------------------------ parent side: trace -> impl line, oracle

#[derive(Clone, Debug, PartialEq)]
struct Frame {
    t_ns: u128,
    tag: usize,
    net: usize,
    from: String,
    to: String,
    ttl: u32,
    src: u32,
    dst: u32,
    other: [u32; 6], // tos totlen ident flags frag proto
    body: Vec<u8>,
}
#[derive(Clone, Debug)]
struct Rx {
    tag: usize,
    host: usize,
    src: u32,
    dst: u32,
    data: Vec<u8>,
}

fn kv<'a>(text: &'a str, key: &str) -> Option<&'a str> {
    for tok in text.split_whitespace() {
        if let Some(v) = tok.strip_prefix(key) {
            if let Some(v) = v.strip_prefix('=') {
                return Some(v);
            }
        }
    }
    None
}

/// brute-force longest-prefix match over the route list (later entries replace earlier ones with the same key)
fn lpm(routes: &[RouteE], dst: u32) -> Option<&RouteE> {
    let mut best: Option<&RouteE> = None;
    for e in routes {
        let m = mask_of(e.len);
        if (dst & m) == (e.addr & m) {
            match best {
                Some(b) if b.len > e.len => {}
                _ => best = Some(e), // same length: same network, the later add wins
            }
        }
    }
    best
}

/// who owns `ip` on network `net` (answers ARP for it)
fn owner(scn: &Scn, net: usize, ip: u32) -> Option<String> {
    for (ri, r) in scn.routers.iter().enumerate() {
        let mut all: Vec<u32> = r.ips.clone();
        for j in 0..r.extra_local {
            all.push(extra_ip(ri, j));
        }
        if r.nets.contains(&net) && all.contains(&ip) {
            return Some(format!("R{}", ri));
        }
    }
    for (hi, h) in scn.hosts.iter().enumerate() {
        if h.net == net && h.ip == ip {
            return Some(format!("H{}", hi));
        }
    }
    None
}

/// Finding: the ARP table is keyed by IP only and shared by all interfaces, so a router with a route that names
/// the wrong slot sends the frame to whatever station has, on that network, the MAC number learnt elsewhere.
/// Set to Some("class") once the finding is recorded in known_findings.json.
const ARP_CLASS: Option<&str> = Some("c16-arp-table-shared-by-all-slots");
const ARP_TAG: &str = "[arp-table-shared-by-all-slots]";

fn oracle(scn: &Scn, frames: &[Frame], rxs: &[Rx], quiet: bool, stray: usize) -> Result<(), String> {
    // first of all: nobody but the owner of the destination address may hand the datagram to an application
    for x in rxs.iter() {
        if let Some(d) = scn.dgrams.get(x.tag) {
            if scn.hosts[x.host].ip != d.dst {
                let via_arp = frames.iter().filter(|f| f.tag == x.tag).any(|f| {
                    f.from.starts_with('R') && {
                        let r = &scn.routers[f.from[1..].parse::<usize>().unwrap()];
                        match lpm(&r.routes, d.dst) {
                            Some(e) => owner(scn, f.net, if e.gw == 0 { d.dst } else { e.gw }).as_deref() != Some(f.to.as_str()),
                            None => false,
                        }
                    }
                });
                return Err(format!(
                    "{}datagram {} for {} was handed to the application of host {} ({}), which does not own that address",
                    if via_arp { format!("{} ", ARP_TAG) } else { String::new() },
                    x.tag,
                    d.dst,
                    x.host,
                    scn.hosts[x.host].ip
                ));
            }
        }
    }
    if stray > 0 {
        return Err(format!("{} IPv4 frames / deliveries that belong to no datagram of the scenario", stray));
    }
    if !quiet {
        return Err("the networks did not fall silent".into());
    }
    for (k, d) in scn.dgrams.iter().enumerate() {
        let fs: Vec<&Frame> = frames.iter().filter(|f| f.tag == k).collect();
        let xs: Vec<&Rx> = rxs.iter().filter(|x| x.tag == k).collect();
        let ttl0 = scn.ttl0(d);
        let data = payload(k, d.len);
        if xs.len() > 1 {
            return Err(format!("datagram {} delivered {} times", k, xs.len()));
        }
        if fs.is_empty() {
            if !xs.is_empty() {
                return Err(format!("datagram {} delivered without any frame", k));
            }
            if d.expect {
                return Err(format!("datagram {} with correct routes was never sent", k));
            }
            continue;
        }
        if fs.len() as u64 > ttl0.max(1) as u64 {
            return Err(format!("datagram {}: {} frames for initial TTL {}", k, fs.len(), ttl0));
        }
        let f0 = fs[0];
        if f0.from != format!("H{}", d.src) || f0.ttl != ttl0 || f0.src != scn.hosts[d.src].ip || f0.dst != d.dst {
            return Err(format!("datagram {}: first frame is not the sender's", k));
        }
        if f0.body.len() < 8 || f0.body[8..] != data[..] {
            return Err(format!("datagram {}: payload differs at the sender", k));
        }
        for i in 1..fs.len() {
            let (p, f) = (fs[i - 1], fs[i]);
            if f.ttl + 1 != p.ttl {
                return Err(format!("datagram {}: TTL {} follows TTL {}", k, f.ttl, p.ttl));
            }
            if f.from != p.to || !f.from.starts_with('R') {
                return Err(format!("datagram {}: frame {} sent by {} but the previous one went to {}", k, i, f.from, p.to));
            }
            if f.src != f0.src || f.dst != f0.dst || f.other != f0.other || f.body != f0.body {
                return Err(format!("datagram {}: frame {} differs from the original in more than the TTL", k, i));
            }
            // along the route: the router's best entry names this network and this receiver
            let ri: usize = f.from[1..].parse().unwrap();
            let r = &scn.routers[ri];
            match lpm(&r.routes, d.dst) {
                None => return Err(format!("datagram {}: R{} forwarded without a route", k, ri)),
                Some(e) => {
                    let nh = if e.gw == 0 { d.dst } else { e.gw };
                    let net = r.nets.get(e.slot as usize).cloned();
                    if net != Some(f.net) {
                        return Err(format!("datagram {}: R{} sent on net {} but its route names slot {}", k, ri, f.net, e.slot));
                    }
                    if owner(scn, f.net, nh).as_deref() != Some(f.to.as_str()) {
                        return Err(format!("{} datagram {}: R{} sent to {} which does not own the next hop {}", ARP_TAG, k, ri, f.to, nh));
                    }
                }
            }
        }
        // the end of the line
        let last = fs[fs.len() - 1];
        if let Some(x) = xs.first() {
            if format!("H{}", x.host) != last.to || scn.hosts[x.host].ip != d.dst {
                return Err(format!("datagram {} delivered at host {} which is not the destination", k, x.host));
            }
            if x.data != data || x.src != f0.src || x.dst != d.dst {
                return Err(format!("datagram {} delivered with changed payload or addresses", k));
            }
        } else {
            if d.expect {
                return Err(format!("datagram {} with correct routes was not delivered (last frame to {} with TTL {})", k, last.to, last.ttl));
            }
            // a router may swallow a datagram only for a reason
            if let Some(rs) = last.to.strip_prefix('R') {
                let ri: usize = rs.parse().unwrap();
                let r = &scn.routers[ri];
                let justified = last.ttl <= 1
                    || match lpm(&r.routes, d.dst) {
                        None => true,
                        Some(e) => {
                            let nh = if e.gw == 0 { d.dst } else { e.gw };
                            match r.nets.get(e.slot as usize) {
                                None => true,
                                Some(n) => owner(scn, *n, nh).is_none(),
                            }
                        }
                    };
                if !justified {
                    return Err(format!("datagram {}: R{} has a usable route but did not forward (TTL {})", k, ri, last.ttl));
                }
            } else if let Some(hs) = last.to.strip_prefix('H') {
                let hi: usize = hs.parse().unwrap();
                if scn.hosts[hi].ip == d.dst {
                    return Err(format!("datagram {} reached the destination host {} but its application saw nothing", k, hi));
                }
            }
        }
    }
    Ok(())
}

struct C16;

impl Family for C16 {
    fn gen(rng: &mut Rng, _idx: usize) -> String {
        gen_scn(rng).render()
    }

    fn realtime(case: &str) -> bool {
        Scn::parse(case).flavor != 0
    }

    fn run(case: &str) -> Outcome {
        let scn = Scn::parse(case);
        stat(&format!("class_{}", scn.class));
        stat(&format!("flavor_{}", if scn.flavor == 0 { "paused" } else { "multi" }));
        stat(&format!("routers_{}", scn.routers.len()));
        stat(&format!("nets_{}", scn.mtus.len()));
        let hostile = scn.class.starts_with("hostile");
        let r = run_child(case, Duration::from_secs(30));
        if r.timed_out {
            stat("outcome_hang");
            return Outcome { impl_line: "HANG".into(), oracle: Oracle::Fail("the simulation did not finish".into()) };
        }
        if !r.clean {
            let site = r.events.iter().find(|(_, t)| t.starts_with("panic ")).map(|(_, t)| t[6..].to_string()).unwrap_or_default();
            let what = if site.is_empty() { format!("exit={:?}", r.exit_code) } else { site };
            stat("outcome_crash");
            let line = format!("PANIC {}", what.replace('|', "/"));
            let oracle = if hostile {
                stat(&format!("crash_{}", scn.class));
                Oracle::Ok
            } else {
                Oracle::Fail(format!("the simulation process died: {}", r.stderr_tail.chars().take(300).collect::<String>()))
            };
            return Outcome { impl_line: line, oracle };
        }
        // MAC table
        let mut taps: HashMap<(usize, String), String> = HashMap::new();
        let mut end_ns: u128 = 0;
        for l in &r.out {
            let t: Vec<&str> = l.split_whitespace().collect();
            if t.len() == 4 && t[0] == "tap" {
                taps.insert((t[1].parse().unwrap(), t[2].to_string()), t[3].to_string());
            } else if t.len() == 2 && t[0] == "end" {
                end_ns = t[1].parse().unwrap();
            }
        }
        let mut frames: Vec<Frame> = vec![];
        let mut rxs: Vec<Rx> = vec![];
        let mut stray = 0usize;
        let mut last_frame_ns: u128 = 0;
        let mut arp_frames = 0usize;
        for (t_ns, text) in &r.events {
            if text.starts_with("send ") {
                last_frame_ns = last_frame_ns.max(*t_ns);
                // a delayed frame is on the wire until its delay is over
                if let Some(f) = kv(text, "fate") {
                    if let Some(d) = f.strip_prefix("delay") {
                        last_frame_ns = last_frame_ns.max(*t_ns + d.parse::<u128>().unwrap_or(0));
                    }
                }
                let proto = kv(text, "proto").unwrap_or("");
                if proto == "arp" {
                    arp_frames += 1;
                    continue;
                }
                if proto != "ipv4" {
                    stray += 1;
                    continue;
                }
                let net: usize = kv(text, "net").unwrap().parse().unwrap_or(usize::MAX);
                let from = taps.get(&(net, kv(text, "from").unwrap().to_string())).cloned().unwrap_or_else(|| "-".into());
                let to = taps.get(&(net, kv(text, "to").unwrap().to_string())).cloned().unwrap_or_else(|| "-".into());
                let bytes = unhex(kv(text, "bytes").unwrap_or("-"));
                match Ipv4Header::from_bytes(bytes.iter().cloned()) {
                    Ok(h) => {
                        let body = bytes[20..].to_vec();
                        let tag = if body.len() >= 10 { ((body[8] as usize) << 8) | body[9] as usize } else { 65535 };
                        if tag >= scn.dgrams.len() {
                            stray += 1;
                        }
                        frames.push(Frame {
                            t_ns: *t_ns,
                            tag,
                            net,
                            from,
                            to,
                            ttl: h.time_to_live as u32,
                            src: h.source.to_u32(),
                            dst: h.destination.to_u32(),
                            other: [
                                h.type_of_service.as_u8() as u32,
                                h.total_length as u32,
                                h.identification as u32,
                                h.flags.as_u8() as u32,
                                h.fragment_offset as u32,
                                h.protocol as u32,
                            ],
                            body,
                        });
                    }
                    Err(_) => stray += 1,
                }
            } else if text.starts_with("rx ") {
                let data = unhex(kv(text, "data").unwrap_or("-"));
                let tag = if data.len() >= 2 { ((data[0] as usize) << 8) | data[1] as usize } else { 65535 };
                if tag >= scn.dgrams.len() {
                    stray += 1;
                }
                rxs.push(Rx {
                    tag,
                    host: kv(text, "host").unwrap().parse().unwrap(),
                    src: kv(text, "src").unwrap().parse().unwrap(),
                    dst: kv(text, "dst").unwrap().parse().unwrap(),
                    data,
                });
            }
        }
        let quiet = end_ns >= last_frame_ns + (scn.quiet_ms() as u128) * 1_000_000;
        let mut line = format!("OK quiet={}", quiet as u8);
        for f in &frames {
            line.push_str(&format!(
                " | f {} {} {} {} {} {} {} {} {} {} {} {} {} {}",
                f.tag, f.net, f.from, f.to, f.ttl, f.src, f.dst, f.other[0], f.other[1], f.other[2], f.other[3], f.other[4], f.other[5], hex(&f.body)
            ));
        }
        for x in &rxs {
            line.push_str(&format!(" | x {} {} {} {} {}", x.tag, x.host, x.src, x.dst, hex(&x.data)));
        }
        // distribution
        stat(&format!("ipv4_frames_{}", match frames.len() { 0 => "0", 1..=3 => "1-3", 4..=10 => "4-10", 11..=40 => "11-40", _ => ">40" }));
        stat(&format!("arp_frames_{}", match arp_frames { 0 => "0", 1..=4 => "1-4", 5..=12 => "5-12", _ => ">12" }));
        for (k, d) in scn.dgrams.iter().enumerate() {
            let n = frames.iter().filter(|f| f.tag == k).count();
            let got = rxs.iter().any(|x| x.tag == k);
            let ttl0 = scn.ttl0(d);
            stat(&format!("ttl_{}", match ttl0 { 0 => "0", 1 => "1", 2 => "2", 3..=5 => "3-5", 30 => "30", 255 => "255", _ => "other" }));
            stat(if d.ttl < 0 { "send_stack" } else { "send_raw" });
            let fate = if got {
                "delivered"
            } else if n == 0 {
                "never_sent"
            } else if n as u32 >= ttl0 {
                "ttl_exhausted"
            } else {
                "dropped_on_the_way"
            };
            stat(&format!("dgram_{}", fate));
            stat(&format!("hops_{}", match n { 0 => "0", 1 => "1", 2 => "2", 3 => "3", 4 => "4", 5..=29 => "5-29", _ => ">=30" }));
        }
        if hostile {
            stat(&format!("survived_{}", scn.class));
        }
        let oracle = match oracle(&scn, &frames, &rxs, quiet, stray) {
            Ok(()) => Oracle::Ok,
            Err(m) => {
                if m.starts_with(ARP_TAG) {
                    stat("finding_arp_table_shared");
                    match ARP_CLASS {
                        Some(c) => Oracle::Known(c.to_string(), m),
                        None => Oracle::Fail(m),
                    }
                } else {
                    Oracle::Fail(m)
                }
            }
        };
        Outcome { impl_line: line, oracle }
    }
}

// ------------------------------------------------------------------ generator

struct Topo {
    nnets: usize,
    routers: Vec<Vec<usize>>, // nets of each router, by slot
}

fn gen_topo(rng: &mut Rng) -> (Topo, &'static str) {
    let (mut t, name) = match rng.below(10) {
        0..=2 => {
            let k = rng.range(1, 3) as usize;
            (Topo { nnets: k + 1, routers: (0..k).map(|i| vec![i, i + 1]).collect() }, "line")
        }
        3..=4 => {
            let s = rng.range(2, 4) as usize;
            (Topo { nnets: s, routers: vec![(0..s).collect()] }, "star1")
        }
        5..=6 => {
            let k = rng.range(2, 3) as usize;
            (Topo { nnets: k + 1, routers: (0..k).map(|i| vec![0, i + 1]).collect() }, "stark")
        }
        _ => {
            let k = rng.range(2, 3) as usize;
            let mut t = Topo { nnets: k, routers: (0..k).map(|i| vec![i, (i + 1) % k]).collect() };
            if rng.coin(1, 2) {
                // a stub network behind one router
                let r = rng.below(k as u64) as usize;
                t.routers[r].push(t.nnets);
                t.nnets += 1;
            }
            (t, "ring")
        }
    };
    for r in t.routers.iter_mut() {
        if rng.coin(1, 3) {
            r.reverse();
        }
    }
    (t, name)
}

/// hop distance from every router to network `target` (0 = attached)
fn dist_to(t: &Topo, target: usize) -> Vec<usize> {
    let n = t.routers.len();
    let mut d = vec![usize::MAX; n];
    for (i, r) in t.routers.iter().enumerate() {
        if r.contains(&target) {
            d[i] = 0;
        }
    }
    loop {
        let mut changed = false;
        for i in 0..n {
            for j in 0..n {
                if i != j && d[j] != usize::MAX && t.routers[i].iter().any(|x| t.routers[j].contains(x)) && d[j] + 1 < d[i] {
                    d[i] = d[j] + 1;
                    changed = true;
                }
            }
        }
        if !changed {
            break;
        }
    }
    d
}

fn slot_of(t: &Topo, r: usize, net: usize) -> u32 {
    t.routers[r].iter().position(|x| *x == net).unwrap() as u32
}

fn correct_routes(t: &Topo, rng: &mut Rng) -> Vec<Vec<RouteE>> {
    let mut out: Vec<Vec<RouteE>> = vec![vec![]; t.routers.len()];
    for target in 0..t.nnets {
        let d = dist_to(t, target);
        for r in 0..t.routers.len() {
            if d[r] == 0 {
                out[r].push(RouteE { addr: net_prefix(target), len: 24, gw: 0, slot: slot_of(t, r, target) });
            } else if d[r] != usize::MAX {
                let mut cands: Vec<(usize, usize)> = vec![]; // (neighbour, shared net)
                for j in 0..t.routers.len() {
                    if j != r && d[j] + 1 == d[r] {
                        for n in &t.routers[r] {
                            if t.routers[j].contains(n) {
                                cands.push((j, *n));
                            }
                        }
                    }
                }
                let (j, n) = *rng.pick(&cands);
                out[r].push(RouteE { addr: net_prefix(target), len: 24, gw: router_ip(n, j), slot: slot_of(t, r, n) });
            }
        }
    }
    out
}

fn gen_scn(rng: &mut Rng) -> Scn {
    let (t, tname) = gen_topo(rng);
    let nr = t.routers.len();
    let mut routes = correct_routes(&t, rng);
    // hosts: one or two per network, at most six
    let mut hosts: Vec<HostC> = vec![];
    for net in 0..t.nnets {
        let cnt = if rng.coin(1, 4) { 2 } else { 1 };
        for _ in 0..cnt {
            if hosts.len() >= 6 {
                break;
            }
            let attached: Vec<usize> = (0..nr).filter(|r| t.routers[*r].contains(&net)).collect();
            let g = *rng.pick(&attached);
            let masklen = match rng.below(10) {
                0..=6 => 24,
                7..=8 => 32,
                _ => 30,
            };
            let hi = hosts.len();
            hosts.push(HostC { net, ip: host_ip(net, hi), masklen, gw: router_ip(net, g), wild: rng.coin(1, 4) });
        }
    }
    let mut mtus = vec![65535u32; t.nnets];
    let mut extra_local = vec![0usize; nr];
    let mut class: String;
    let mut correct = false;
    let mut force_ttl0 = false;
    let mut big_payload = false;

    // route style variations that keep the routes correct
    for r in 0..nr {
        // collapse all remote entries into a default route when they agree
        let remote: Vec<RouteE> = routes[r].iter().filter(|e| e.gw != 0).cloned().collect();
        if !remote.is_empty() && remote.iter().all(|e| e.gw == remote[0].gw && e.slot == remote[0].slot) && rng.coin(1, 3) {
            routes[r].retain(|e| e.gw == 0);
            routes[r].push(RouteE { addr: 0, len: 0, gw: remote[0].gw, slot: remote[0].slot });
        }
        // a redundant host route that agrees with the network route
        if rng.coin(1, 5) {
            let h = rng.pick(&hosts).clone();
            if let Some(e) = lpm(&routes[r], h.ip).cloned() {
                routes[r].push(RouteE { addr: h.ip, len: 32, gw: e.gw, slot: e.slot });
            }
        }
        // a less specific route to nowhere that must never win (all /24 entries are present)
        if rng.coin(1, 6) && routes[r].iter().all(|e| e.len != 0) {
            routes[r].push(RouteE { addr: 0x0A00_0000, len: 16, gw: net_prefix(t.routers[r][0]) | 222, slot: 0 });
        }
        // shuffle the order of insertion
        for i in (1..routes[r].len()).rev() {
            let j = rng.below(i as u64 + 1) as usize;
            routes[r].swap(i, j);
        }
    }
    // the less specific bogus route changes behaviour only for unknown subnets; default routes likewise:
    // "correct" below means: every host-to-host datagram must arrive

    let kind = rng.below(100);
    if kind < 42 {
        class = format!("correct_{}", tname);
        correct = true;
    } else if kind < 52 {
        class = format!("missing_{}", tname);
        let r = rng.below(nr as u64) as usize;
        // remove whatever matches a random network at a random router (including default / covering entries)
        let target = rng.below(t.nnets as u64) as usize;
        let probe = net_prefix(target) | 10;
        while let Some(e) = lpm(&routes[r], probe).cloned() {
            let before = routes[r].len();
            routes[r].retain(|x| !(x.addr == e.addr && x.len == e.len));
            if routes[r].len() == before {
                break;
            }
        }
    } else if kind < 64 && nr >= 2 {
        class = format!("loop_{}", tname);
        // two routers sharing a network send some network's traffic to each other
        let mut pairs: Vec<(usize, usize, usize)> = vec![];
        for a in 0..nr {
            for b in 0..nr {
                if a != b {
                    for n in &t.routers[a] {
                        if t.routers[b].contains(n) {
                            pairs.push((a, b, *n));
                        }
                    }
                }
            }
        }
        let (a, b, n) = *rng.pick(&pairs);
        let target = rng.below(t.nnets as u64) as usize;
        let len = if rng.coin(1, 3) { 32 } else { 24 };
        let addr = if len == 32 { hosts.iter().find(|h| h.net == target).map(|h| h.ip).unwrap_or(net_prefix(target) | 10) } else { net_prefix(target) };
        for (x, y) in [(a, b), (b, a)] {
            routes[x].retain(|e| !(e.addr == addr && e.len == len));
            routes[x].push(RouteE { addr, len, gw: router_ip(n, y), slot: slot_of(&t, x, n) });
        }
    } else if kind < 70 {
        class = format!("selfloop_{}", tname);
        let r = rng.below(nr as u64) as usize;
        let target = rng.below(t.nnets as u64) as usize;
        let slot = rng.below(t.routers[r].len() as u64) as u32;
        routes[r].retain(|e| !(e.addr == net_prefix(target) && e.len == 24));
        routes[r].push(RouteE { addr: net_prefix(target), len: 24, gw: router_ip(t.routers[r][slot as usize], r), slot });
    } else if kind < 78 {
        class = format!("nowhere_{}", tname);
        let r = rng.below(nr as u64) as usize;
        let target = rng.below(t.nnets as u64) as usize;
        let slot = rng.below(t.routers[r].len() as u64) as u32;
        let len = if rng.coin(1, 3) { 32 } else { 24 };
        let addr = if len == 32 { hosts.iter().find(|h| h.net == target).map(|h| h.ip).unwrap_or(net_prefix(target) | 10) } else { net_prefix(target) };
        routes[r].retain(|e| !(e.addr == addr && e.len == len));
        routes[r].push(RouteE { addr, len, gw: net_prefix(t.routers[r][slot as usize]) | 200, slot });
    } else if kind < 86 {
        class = format!("wrongslot_{}", tname);
        let r = rng.below(nr as u64) as usize;
        let k = t.routers[r].len();
        let s = rng.below(k as u64) as usize;
        let target = t.routers[r][s];
        let other = ((s + 1 + rng.below(k as u64 - 1) as usize) % k) as u32;
        routes[r].retain(|e| !(e.addr == net_prefix(target) && e.len == 24));
        routes[r].push(RouteE { addr: net_prefix(target), len: 24, gw: 0, slot: other });
    } else if kind < 90 {
        class = format!("gwhost_{}", tname);
        // a host whose default gateway does not exist, or is another host
        let h = rng.below(hosts.len() as u64) as usize;
        for x in hosts.iter_mut() {
            x.wild = false; // a wildcard listener behind a wrong HOST gateway takes everything: not a router matter
        }
        hosts[h].gw = if rng.coin(1, 2) { net_prefix(hosts[h].net) | 201 } else { hosts[(h + 1) % hosts.len()].ip };
    } else {
        // outside the property's quantifier: inputs that no conforming configuration produces
        match rng.below(4) {
            0 => {
                class = "hostile_ttl0".into();
                force_ttl0 = true;
            }
            1 => {
                class = "hostile_mtu".into();
                let n = rng.below(t.nnets as u64) as usize;
                mtus[n] = *rng.pick(&[60u32, 100, 128]);
                big_payload = true;
            }
            2 => {
                class = "hostile_slot_index".into();
                let r = rng.below(nr as u64) as usize;
                let target = rng.below(t.nnets as u64) as usize;
                routes[r].retain(|e| !(e.addr == net_prefix(target) && e.len == 24));
                routes[r].push(RouteE { addr: net_prefix(target), len: 24, gw: 0, slot: t.routers[r].len() as u32 });
            }
            _ => {
                class = "hostile_slot_pci".into();
                let r = rng.below(nr as u64) as usize;
                let target = rng.below(t.nnets as u64) as usize;
                extra_local[r] = 1;
                routes[r].retain(|e| !(e.addr == net_prefix(target) && e.len == 24));
                routes[r].push(RouteE { addr: net_prefix(target), len: 24, gw: 0, slot: t.routers[r].len() as u32 });
            }
        }
    }

    // prefix ladder: host routes (/32) for every host of one network next to less specific decoy entries of
    // lengths 25..31 around one of them, which point to a gateway nobody owns on another slot. With longest-prefix
    // matching the host routes win and nothing changes for real hosts; a table that orders or merges entries of
    // neighbouring prefix lengths wrongly (e.g. /31 against /32) sends a host's datagrams into the decoy.
    let mut ladder = false;
    if !class.starts_with("hostile") && rng.coin(1, 2) {
        let r = rng.below(nr as u64) as usize;
        let h = rng.below(hosts.len() as u64) as usize;
        if let Some(e) = lpm(&routes[r], hosts[h].ip).cloned() {
            let k = t.routers[r].len() as u32;
            if k >= 2 && (e.slot as usize) < t.routers[r].len() {
                ladder = true;
                let net = hosts[h].net;
                for x in hosts.iter().filter(|x| x.net == net) {
                    if let Some(ex) = lpm(&routes[r], x.ip).cloned() {
                        if ex.len < 32 {
                            routes[r].push(RouteE { addr: x.ip, len: 32, gw: ex.gw, slot: ex.slot });
                        }
                    }
                }
                let other = (e.slot + 1 + rng.below(k as u64 - 1) as u32) % k;
                for len in 25..=31u32 {
                    if rng.coin(2, 3) {
                        let addr = hosts[h].ip & mask_of(len);
                        routes[r].retain(|x| !(x.addr == addr && x.len == len));
                        routes[r].push(RouteE { addr, len, gw: net_prefix(t.routers[r][other as usize]) | (200 + len), slot: other });
                    }
                }
            }
        }
    }
    if ladder {
        class.push_str("_ladder");
    }

    // datagrams
    let nd = rng.range(1, 5) as usize;
    let mut dgrams: Vec<Dgram> = vec![];
    for _ in 0..nd {
        let src = rng.below(hosts.len() as u64) as usize;
        let roll = rng.below(100);
        let (dst, dst_is_host) = if roll < 80 {
            // another host, preferably on another network
            let mut cands: Vec<usize> = (0..hosts.len()).filter(|h| *h != src && hosts[*h].net != hosts[src].net).collect();
            if cands.is_empty() || rng.coin(1, 8) {
                cands = (0..hosts.len()).filter(|h| *h != src).collect();
            }
            if cands.is_empty() {
                (net_prefix(0) | 250, false)
            } else {
                (hosts[*rng.pick(&cands)].ip, true)
            }
        } else if roll < 88 {
            (net_prefix(rng.below(t.nnets as u64) as usize) | 250, false) // nobody has it
        } else if roll < 94 {
            (0x0A00_4D05, false) // 10.0.77.5: no such network
        } else {
            let r = rng.below(nr as u64) as usize;
            (router_ip(t.routers[r][0], r), false)
        };
        let mut ttl: i64 = if rng.coin(3, 5) { -1 } else { *rng.pick(&[1i64, 1, 2, 2, 3, 3, 4, 5, 8, 30, 64, 255]) };
        let mut len = rng.range(2, 40) as usize;
        if big_payload && rng.coin(2, 3) {
            len = rng.range(90, 200) as usize;
        }
        if force_ttl0 && (dgrams.is_empty() || rng.coin(1, 3)) {
            ttl = 0;
        }
        let start_ms = *rng.pick(&[0u64, 0, 0, 0, 1, 5, 30, 300]);
        // with correct routes and a real destination on another or the same network the datagram must arrive,
        // provided the TTL covers the routers on the way (at most 3) and the sender's subnet mask does not hide the
        // destination behind a wrong gateway decision
        let ttl_eff = if ttl < 0 { 30 } else { ttl };
        let expect = correct && dst_is_host && ttl_eff >= 5;
        dgrams.push(Dgram { src, dst, ttl, len, start_ms, expect });
    }
    // delays of individual frames (ARP and data alike): reorder arrivals, force ARP retries
    let mut delays: Vec<(usize, u64)> = vec![];
    if rng.coin(1, 2) {
        for _ in 0..rng.range(1, 5) {
            let idx = rng.below(36) as usize;
            if !delays.iter().any(|(i, _)| *i == idx) {
                delays.push((idx, *rng.pick(&[1u64, 20, 150, 250, 450])));
            }
        }
    }
    // a few runs on the multi-thread runtime (real time): only when nothing has to time out
    let mut flavor = 0;
    if correct && delays.is_empty() && dgrams.iter().all(|d| d.expect && d.start_ms <= 30) && rng.coin(1, 2) {
        flavor = 2;
    }
    let routers: Vec<RouterC> = (0..nr)
        .map(|r| RouterC {
            nets: t.routers[r].clone(),
            ips: t.routers[r].iter().map(|n| router_ip(*n, r)).collect(),
            extra_local: extra_local[r],
            routes: routes[r].clone(),
        })
        .collect();
    if class.is_empty() {
        class = "none".into();
    }
    Scn { flavor, class, mtus, routers, hosts, dgrams, delays }
}

fn main() {
    if let Some(case) = child_case() {
        child(&case);
    }
    main_loop::<C16>();
}
