//! C15 (DHCP part): full-stack scenarios on the real `DhcpServer` / `DhcpClient` / `Udp` / `Ipv4` / `Arp` / `Pci`,
//! wired as sim/elvis/src/simulations/dhcp_basic.rs (one `Network::basic()`, default route through slot 0,
//! server at 123.123.123.123), each scenario in a child process.
//!
//! case: `F <flavor 0=paused|n=multi n> N <clients> P <range S E | sub IP LEN | noends IP LEN>
//!        D <dupmax> <dup%> <drop%> <delay%> <max delay us> <seed> W <max watcher delay us> H <0|1 hostile>`
//!   pool: `range` = DhcpServer::new(_, IpRange::new(S, E)); `sub` = the range of the subnet; `noends` = the
//!   server's public `ip_generator` is replaced by IpGenerator::new_sub_no_ends(net) before the run.
//!   plan: frame i (running index of Network::send) gets, from h(seed, i): ARP frames only a delay (<= 20 ms,
//!   never lost: a lost ARP exchange makes DhcpClient::start's unwrap kill the process, outside C15); IPv4
//!   frames are duplicated (at most <dupmax> in the run), dropped or delayed with the given percentages.
//!   watcher: the harness application of client c calls DhcpClient::ip_address() h(seed,1000+c) % (W+1) us
//!   after the start barrier, with a deadline (30 s virtual / 2 s real): a client that never learns an
//!   address is reported as HANG.
//! impl line: events in log order separated by ` ; `:
//!   `S <u|d> <c> <type 1..7> <your_ip> <v|2|x>`  DHCP message handed to the network (u: client c -> server,
//!                                               d: server -> client c; v deliver/delay, 2 duplicated, x dropped)
//!   `D <u|d> <c> <type> <your_ip>`               that message handed to the destination's tap
//!   `K <c> <addr|HANG>`                          what DhcpClient::ip_address() returned to the watcher
//!   `X <c> <addr|->`                             the public field DhcpClient.ip_address after the run
//!   `G <ranges>`                                 the server's generator after the run (Debug rendering)
//!   `E <DONE|CRASH <file>:<line>|HANG-wall>`     how the run ended
//! Frames are decoded here (IPv4 + UDP by hand, the payload with the real `DhcpMessage::from_bytes`).
//!
//! Oracle (nothing from the Coq model): addresses offered / acknowledged to distinct clients are disjoint,
//! every one lies in the pool, the final fields are pairwise distinct, what ip_address() returned was
//! acknowledged to that client, the final field is the last acknowledged address, a client without a lost
//! frame learns an address.  Hostile stream (pool smaller than the number of Discovers): the server's
//! `fetch_ip().unwrap()` (dhcp_server.rs:60) kills the process; this is counted (`crash_hostile_exhaustion`)
//! and not judged: the DHCP clause quantifies over pools that can serve the clients.
use elvis::applications::dhcp_server::DhcpServer;
use elvis::ip_generator::{IpGenerator, IpRange};
use elvis_core::{
    machine::Machine,
    message::Message,
    network::verif::FrameFate,
    new_machine_arc,
    protocol::{DemuxError, StartError},
    protocols::{
        arp::subnetting::Ipv4Net,
        dhcp::dhcp_client::DhcpClient,
        dhcp::dhcp_parsing::{DhcpMessage, MessageType},
        ipv4::{Ipv4, Ipv4Address, Recipient},
        udp::Udp,
        Arp, Pci,
    },
    run_internet, Control, IpTable, Network, Protocol, Session, Shutdown,
};
use elvis_verif_harness::stack::*;
use elvis_verif_harness::*;
use std::collections::{BTreeMap, BTreeSet};
use std::sync::atomic::{AtomicUsize, Ordering};
use std::sync::Arc;
use std::time::Duration;
use tokio::sync::{Barrier, Notify};

const SERVER_IP: u32 = 0x7b7b_7b7b; // 123.123.123.123 as in dhcp_basic.rs
const MAX: u64 = 0xffff_ffff;

// ------------------------------------------------------------------ case
#[derive(Clone, Debug)]
struct Cfg {
    flavor: usize,
    n: usize,
    pkind: String,
    pa: u64,
    pb: u64,
    dupmax: usize,
    duppct: u64,
    droppct: u64,
    delaypct: u64,
    maxdelay_us: u64,
    seed: u64,
    wmax_us: u64,
    hostile: bool,
}

fn parse(case: &str) -> Cfg {
    let t: Vec<&str> = case.split_whitespace().collect();
    let num = |i: usize| -> u64 { t[i].parse().expect("number") };
    assert!(t[0] == "F" && t[2] == "N" && t[4] == "P" && t[8] == "D" && t[15] == "W" && t[17] == "H", "case syntax");
    Cfg {
        flavor: num(1) as usize,
        n: num(3) as usize,
        pkind: t[5].to_string(),
        pa: num(6),
        pb: num(7),
        dupmax: num(9) as usize,
        duppct: num(10),
        droppct: num(11),
        delaypct: num(12),
        maxdelay_us: num(13),
        seed: num(14),
        wmax_us: num(16),
        hostile: num(18) != 0,
    }
}

fn mask_of(len: u64) -> u64 {
    let len = len.min(32);
    if len == 0 {
        0
    } else {
        (MAX << (32 - len)) & MAX
    }
}

impl Cfg {
    /// the configured pool as (lo, hi), None when empty - from the constructors' documentation
    fn pool(&self) -> Option<(u64, u64)> {
        match self.pkind.as_str() {
            "range" => (self.pa <= self.pb).then_some((self.pa, self.pb)),
            "sub" | "noends" => {
                let m = mask_of(self.pb);
                let id = self.pa & m;
                let bc = id | (!m & MAX);
                if self.pkind == "sub" {
                    Some((id, bc))
                } else {
                    (bc >= 1 && id + 1 <= bc - 1).then_some((id + 1, bc - 1))
                }
            }
            _ => panic!("bad pool"),
        }
    }
    fn pool_size(&self) -> u64 {
        self.pool().map_or(0, |(a, b)| b - a + 1)
    }
}

fn mix(seed: u64, i: u64) -> u64 {
    let mut r = Rng::new(seed.wrapping_mul(0x1000_0000_01B3) ^ i.wrapping_mul(0x9E37_79B9));
    r.next_u64()
}

// ------------------------------------------------------------------ child: the real simulation
static FINISHED: AtomicUsize = AtomicUsize::new(0);
static DUPS: AtomicUsize = AtomicUsize::new(0);

/// The harness application on a client machine: asks the real client for its address.
struct Watcher {
    c: usize,
    n: usize,
    delay: Duration,
    deadline: Duration,
    done: Arc<Notify>,
}

#[async_trait::async_trait]
impl Protocol for Watcher {
    async fn start(&self, _shutdown: Shutdown, initialized: Arc<Barrier>, machine: Arc<Machine>) -> Result<(), StartError> {
        initialized.wait().await;
        let (c, n, delay, deadline, done) = (self.c, self.n, self.delay, self.deadline, self.done.clone());
        tokio::spawn(async move {
            if delay > Duration::ZERO {
                tokio::time::sleep(delay).await;
            }
            let dhcp = machine.protocol::<DhcpClient>().expect("DhcpClient");
            match tokio::time::timeout(deadline, dhcp.ip_address()).await {
                Ok(ip) => log(format!("K {} {}", c, ip.to_u32())),
                Err(_) => log(format!("K {} HANG", c)),
            }
            if FINISHED.fetch_add(1, Ordering::SeqCst) + 1 == n {
                done.notify_one();
            }
        });
        Ok(())
    }
    fn demux(&self, _m: Message, _c: Arc<dyn Session>, _ctl: Control, _machine: Arc<Machine>) -> Result<(), DemuxError> {
        Ok(())
    }
}

fn gen_ranges(g: &IpGenerator) -> String {
    let s = format!("{:?}", g);
    let mut vals: Vec<u64> = Vec::new();
    let mut rest = s.as_str();
    while let Some(p) = rest.find("Ipv4Address([") {
        rest = &rest[p + "Ipv4Address([".len()..];
        let q = rest.find("])").expect("debug format");
        let b: Vec<u64> = rest[..q].split(',').map(|t| t.trim().parse().expect("octet")).collect();
        vals.push((b[0] << 24) | (b[1] << 16) | (b[2] << 8) | b[3]);
        rest = &rest[q..];
    }
    if vals.is_empty() {
        "{}".into()
    } else {
        vals.chunks(2).map(|c| format!("{}-{}", c[0], c[1])).collect::<Vec<_>>().join(",")
    }
}

fn child(case: &str) -> ! {
    let cfg = parse(case);
    let flavor = if cfg.flavor == 0 { Flavor::CurrentPaused } else { Flavor::Multi(cfg.flavor) };
    // run_internet chains this hook, then prints a backtrace and exits with code 1; we write the trace first
    std::panic::set_hook(Box::new(|info| {
        static REPORTED: std::sync::atomic::AtomicBool = std::sync::atomic::AtomicBool::new(false);
        if REPORTED.swap(true, Ordering::SeqCst) {
            loop {
                std::thread::sleep(Duration::from_secs(1));
            }
        }
        let loc = info.location().map(|l| format!("{}:{}", l.file(), l.line())).unwrap_or_else(|| "?".into());
        log(format!("PANIC {}", loc));
        child_finish(&[]);
    }));
    let p = cfg.clone();
    Recorder::install(
        Box::new(move |idx, f| {
            let h = mix(p.seed, idx as u64 * 4);
            let delay = |pct: u64, max_us: u64| {
                if max_us > 0 && mix(p.seed, idx as u64 * 4 + 1) % 100 < pct {
                    FrameFate::Delay(Duration::from_micros(mix(p.seed, idx as u64 * 4 + 2) % (max_us + 1)))
                } else {
                    FrameFate::Deliver
                }
            };
            if proto_name(f.protocol) != "ipv4" {
                return delay(p.delaypct, p.maxdelay_us.min(20_000));
            }
            let r = h % 100;
            if r < p.duppct {
                if DUPS.fetch_add(1, Ordering::SeqCst) < p.dupmax {
                    return FrameFate::Duplicate;
                }
                return FrameFate::Deliver;
            }
            if r < p.duppct + p.droppct {
                return FrameFate::Drop;
            }
            delay(p.delaypct, p.maxdelay_us)
        }),
        true,
    );
    let cfg2 = cfg.clone();
    let out = block_on(flavor, async move {
        start_clock();
        let cfg = cfg2;
        let paused = cfg.flavor == 0;
        let network = Network::basic();
        register_network(&network);
        let ip_table: IpTable<Recipient> = [("0.0.0.0/0", Recipient::new(0, None))].into_iter().collect();
        let server_ip = Ipv4Address::from(SERVER_IP);
        let server = match cfg.pkind.as_str() {
            "range" => DhcpServer::new(server_ip, IpRange::new(Ipv4Address::from(cfg.pa as u32), Ipv4Address::from(cfg.pb as u32))),
            "sub" => DhcpServer::new(server_ip, Ipv4Net::new_short(Ipv4Address::from(cfg.pa as u32), cfg.pb as u32).into()),
            "noends" => {
                let s = DhcpServer::new(server_ip, IpRange::new(Ipv4Address::from(1u32), Ipv4Address::from(0u32)));
                *s.ip_generator.write().unwrap() = IpGenerator::new_sub_no_ends(Ipv4Net::new_short(Ipv4Address::from(cfg.pa as u32), cfg.pb as u32));
                s
            }
            _ => panic!("bad pool"),
        };
        log(format!("G0 {}", gen_ranges(&server.ip_generator.read().unwrap())));
        let done = Arc::new(Notify::new());
        let mut machines = vec![new_machine_arc![
            Udp::new(),
            Ipv4::new(ip_table.clone()),
            Pci::new([network.clone()]),
            Arp::new(),
            server,
        ]];
        let deadline = if paused { Duration::from_secs(30) } else { Duration::from_secs(2) * elvis_verif_harness::slow_factor() };
        for c in 0..cfg.n {
            let delay = Duration::from_micros(if cfg.wmax_us > 0 { mix(cfg.seed, 1000 + c as u64) % (cfg.wmax_us + 1) } else { 0 });
            machines.push(new_machine_arc![
                Udp::new(),
                Ipv4::new(ip_table.clone()),
                Pci::new([network.clone()]),
                Arp::new(),
                DhcpClient::new(server_ip),
                Watcher { c, n: cfg.n, delay, deadline, done: done.clone() },
            ]);
        }
        for (i, m) in machines.iter().enumerate() {
            let mac = m.protocol::<Pci>().unwrap().mac_addresses().next().unwrap();
            log(if i == 0 { format!("MACS {}", mac) } else { format!("MAC {} {}", i - 1, mac) });
        }
        // run_internet returns as soon as every start() has returned; the traffic goes on in spawned tasks
        let sim = async {
            let st = run_internet(&machines, None).await;
            log(format!("SIM {:?}", st));
            std::future::pending::<()>().await
        };
        let how = tokio::select! {
            _ = sim => unreachable!(),
            _ = done.notified() => "DONE".to_string(),
            _ = tokio::time::sleep(if paused { Duration::from_secs(3600) } else { Duration::from_secs(10) * elvis_verif_harness::slow_factor() }) => "HANG".to_string(),
        };
        // late duplicates and delayed frames arrive here
        tokio::time::sleep(if paused { Duration::from_secs(5) } else { Duration::from_millis(40) }).await;
        for (c, m) in machines.iter().skip(1).enumerate() {
            let v = *m.protocol::<DhcpClient>().unwrap().ip_address.read().unwrap();
            log(format!("X {} {}", c, v.map_or("-".to_string(), |a| a.to_u32().to_string())));
        }
        log(format!("G {}", gen_ranges(&machines[0].protocol::<DhcpServer>().unwrap().ip_generator.read().unwrap())));
        log(format!("END {}", how));
        Vec::<String>::new()
    });
    child_finish(&out)
}

// ------------------------------------------------------------------ parent: trace -> impl line, oracle
#[derive(Clone, Debug, PartialEq)]
struct DMsg {
    up: bool,
    c: usize,
    ty: u8,
    ip: u64,
}

/// IPv4 + UDP: (sport, dport, payload)
fn parse_udp(b: &[u8]) -> Option<(u16, u16, Vec<u8>)> {
    if b.len() < 28 || b[0] >> 4 != 4 {
        return None;
    }
    let ihl = (b[0] & 15) as usize * 4;
    if b[9] != 17 || b.len() < ihl + 8 || (u16::from_be_bytes([b[6], b[7]]) & 0x3fff) != 0 {
        return None;
    }
    let u = &b[ihl..];
    Some((u16::from_be_bytes([u[0], u[1]]), u16::from_be_bytes([u[2], u[3]]), u[8..].to_vec()))
}

fn field<'a>(text: &'a str, key: &str) -> Option<&'a str> {
    text.split(' ').find_map(|t| t.strip_prefix(key))
}

fn type_no(t: &MessageType) -> u8 {
    match t {
        MessageType::Discover => 1,
        MessageType::Offer => 2,
        MessageType::Request => 3,
        MessageType::Decline => 4,
        MessageType::Ack => 5,
        MessageType::Nack => 6,
        MessageType::Release => 7,
    }
}

#[derive(Clone, Debug)]
enum Ev {
    S(DMsg, char),
    D(DMsg),
    K(usize, Option<u64>),
    X(usize, Option<u64>),
    G(String),
}

struct Parsed {
    evs: Vec<Ev>,
    g0: String,
    end: String,
    arp_frames: usize,
    problems: Vec<String>,
}

fn digest(r: &ChildResult) -> Parsed {
    let mut p = Parsed { evs: vec![], g0: String::new(), end: String::new(), arp_frames: 0, problems: vec![] };
    let mut macs: BTreeMap<String, usize> = BTreeMap::new();
    let mut smac = String::new();
    let mut by_key: BTreeMap<(String, String, String, String), DMsg> = BTreeMap::new();
    let mut panic_loc = None;
    for (_, text) in &r.events {
        let t: Vec<&str> = text.split(' ').collect();
        match t[0] {
            "MACS" => smac = t[1].to_string(),
            "MAC" => {
                macs.insert(t[2].to_string(), t[1].parse().unwrap());
            }
            "G0" => p.g0 = t[1..].join(" "),
            "G" => p.evs.push(Ev::G(t[1..].join(" "))),
            "K" => p.evs.push(Ev::K(t[1].parse().unwrap(), t[2].parse().ok())),
            "X" => p.evs.push(Ev::X(t[1].parse().unwrap(), t[2].parse().ok())),
            "END" => p.end = t[1].to_string(),
            "PANIC" => panic_loc = Some(t[1].to_string()),
            "send" => {
                if field(text, "proto=") != Some("ipv4") {
                    p.arp_frames += 1;
                    continue;
                }
                let from = field(text, "from=").unwrap_or("").to_string();
                let to = field(text, "to=").unwrap_or("").to_string();
                let bytes = unhex(field(text, "bytes=").unwrap_or("-"));
                let Some((sp, dp, payload)) = parse_udp(&bytes) else {
                    p.problems.push("an IPv4 frame that is not a UDP datagram".into());
                    continue;
                };
                let up = if sp == 68 && dp == 67 {
                    true
                } else if sp == 67 && dp == 68 {
                    false
                } else {
                    p.problems.push(format!("UDP datagram {} -> {} is not DHCP", sp, dp));
                    continue;
                };
                let parsed = std::panic::catch_unwind(|| DhcpMessage::from_bytes(payload.iter().copied()));
                let m = match parsed {
                    Ok(Ok(m)) => m,
                    _ => {
                        p.problems.push("a DHCP datagram that DhcpMessage::from_bytes rejects".into());
                        continue;
                    }
                };
                let cmac = if up { &from } else { &to };
                if (up && to != smac) || (!up && from != smac) {
                    p.problems.push(format!("DHCP frame between {} and {} does not involve the server", from, to));
                    continue;
                }
                let Some(c) = macs.get(cmac).copied() else {
                    p.problems.push(format!("DHCP frame for unknown station {}", cmac));
                    continue;
                };
                let dm = DMsg { up, c, ty: type_no(&m.msg_type), ip: m.your_ip.to_u32() as u64 };
                let fate = match field(text, "fate=").unwrap_or("") {
                    "dup" => '2',
                    "drop" => 'x',
                    _ => 'v',
                };
                by_key.insert(
                    (from, to, field(text, "len=").unwrap_or("").to_string(), field(text, "hash=").unwrap_or("").to_string()),
                    dm.clone(),
                );
                p.evs.push(Ev::S(dm, fate));
            }
            "dlv" => {
                if field(text, "proto=") != Some("ipv4") {
                    continue;
                }
                let key = (
                    field(text, "from=").unwrap_or("").to_string(),
                    field(text, "to=").unwrap_or("").to_string(),
                    field(text, "len=").unwrap_or("").to_string(),
                    field(text, "hash=").unwrap_or("").to_string(),
                );
                if field(text, "tap=") != Some(key.1.as_str()) {
                    p.problems.push(format!("frame for {} handed to tap {:?}", key.1, field(text, "tap=")));
                }
                match by_key.get(&key) {
                    Some(dm) => p.evs.push(Ev::D(dm.clone())),
                    None => p.problems.push("a delivered IPv4 frame that was never sent".into()),
                }
            }
            _ => {}
        }
    }
    if let Some(loc) = panic_loc {
        p.end = format!("CRASH {}", loc.rsplit('/').next().unwrap_or(&loc));
    } else if r.timed_out {
        p.end = "HANG-wall".into();
    } else if !r.clean {
        p.end = format!("CRASH exit-{:?}", r.exit_code);
    }
    p
}

fn render(p: &Parsed) -> String {
    let mut parts = vec![format!("G0 {}", p.g0)];
    let d = |up: bool| if up { 'u' } else { 'd' };
    let o = |v: &Option<u64>, none: &str| v.map_or(none.to_string(), |a| a.to_string());
    for e in &p.evs {
        parts.push(match e {
            Ev::S(m, f) => format!("S {} {} {} {} {}", d(m.up), m.c, m.ty, m.ip, f),
            Ev::D(m) => format!("D {} {} {} {}", d(m.up), m.c, m.ty, m.ip),
            Ev::K(c, v) => format!("K {} {}", c, o(v, "HANG")),
            Ev::X(c, v) => format!("X {} {}", c, o(v, "-")),
            Ev::G(s) => format!("G {}", s),
        });
    }
    parts.push(format!("E {}", p.end));
    parts.join(" ; ")
}

/// The property on the trace alone.
fn oracle(cfg: &Cfg, p: &Parsed) -> Result<(), String> {
    if let Some(m) = p.problems.first() {
        return Err(format!("unreadable trace: {}", m));
    }
    let discovers_at_server = p.evs.iter().filter(|e| matches!(e, Ev::D(m) if m.up && m.ty == 1)).count() as u64;
    if p.end.starts_with("CRASH") {
        if p.end.starts_with("CRASH dhcp_server.rs:60") && discovers_at_server > cfg.pool_size() {
            // more Discovers than addresses: outside the DHCP clause's quantifier, counted only
            stat("crash_hostile_exhaustion");
            return Ok(());
        }
        return Err(format!("the run ended with `{}` ({} Discovers reached the server, pool of {})", p.end, discovers_at_server, cfg.pool_size()));
    }
    if p.end != "DONE" {
        return Err(format!("the run ended with `{}`", p.end));
    }
    let mut offered: BTreeMap<usize, Vec<u64>> = BTreeMap::new();
    let mut acked: BTreeMap<usize, Vec<u64>> = BTreeMap::new(); // Acks that reached the client, in order
    let mut lost: BTreeSet<usize> = BTreeSet::new();
    let mut learned: BTreeMap<usize, Option<u64>> = BTreeMap::new();
    let mut fin: BTreeMap<usize, Option<u64>> = BTreeMap::new();
    let mut acked_before_k: BTreeMap<usize, Vec<u64>> = BTreeMap::new();
    for e in &p.evs {
        match e {
            Ev::S(m, f) => {
                if *f == 'x' {
                    lost.insert(m.c);
                }
                if !m.up && m.ty == 2 {
                    offered.entry(m.c).or_default().push(m.ip);
                }
            }
            Ev::D(m) => {
                if !m.up && m.ty == 5 {
                    acked.entry(m.c).or_default().push(m.ip);
                }
            }
            Ev::K(c, v) => {
                learned.insert(*c, *v);
                acked_before_k.insert(*c, acked.get(c).cloned().unwrap_or_default());
            }
            Ev::X(c, v) => {
                fin.insert(*c, *v);
            }
            Ev::G(_) => {}
        }
    }
    let pool = cfg.pool();
    let in_pool = |a: u64| pool.map_or(false, |(lo, hi)| lo <= a && a <= hi);
    // pairwise distinct leases, all from the pool
    let mut owner: BTreeMap<u64, usize> = BTreeMap::new();
    for (what, map) in [("offered", &offered), ("acknowledged", &acked)] {
        for (c, v) in map {
            for a in v {
                if !in_pool(*a) {
                    return Err(format!("address {} {} to client {} is outside the pool {:?}", a, what, c, pool));
                }
                if let Some(o) = owner.insert(*a, *c) {
                    if o != *c {
                        return Err(format!("DOUBLE LEASE: address {} {} to client {} and to client {}", a, what, c, o));
                    }
                }
            }
        }
    }
    let mut seen: BTreeMap<u64, usize> = BTreeMap::new();
    for (c, v) in &fin {
        if let Some(a) = v {
            if let Some(o) = seen.insert(*a, *c) {
                return Err(format!("DOUBLE LEASE: clients {} and {} both ended with address {}", o, c, a));
            }
        }
    }
    // each client learns exactly what was acknowledged to it
    for c in 0..cfg.n {
        let ak = acked.get(&c).cloned().unwrap_or_default();
        let f = fin.get(&c).copied().flatten();
        if f != ak.last().copied() {
            return Err(format!("client {} ended with {:?} but the last Ack it received carried {:?}", c, f, ak.last()));
        }
        match learned.get(&c) {
            None => return Err(format!("the watcher of client {} never finished", c)),
            Some(Some(a)) => {
                if !acked_before_k.get(&c).map_or(false, |v| v.contains(a)) {
                    return Err(format!("ip_address() of client {} returned {} which no Ack had carried to it", c, a));
                }
            }
            Some(None) => {
                if !ak.is_empty() && acked_before_k.get(&c).map_or(false, |v| !v.is_empty()) {
                    stat("lost_wakeup");
                    return Err(format!(
                        "client {} received Ack({}) but ip_address() never returned (flavor {}): lost wake-up",
                        c, ak[0], cfg.flavor
                    ));
                }
                if !lost.contains(&c) && ak.is_empty() {
                    return Err(format!("client {} never learned an address although none of its frames was lost", c));
                }
            }
        }
    }
    Ok(())
}

// ------------------------------------------------------------------ generator
struct C15Dhcp;
impl Family for C15Dhcp {
    fn gen(rng: &mut Rng, idx: usize) -> String {
        let flavor = if idx % 8 == 7 { *rng.pick(&[1usize, 2, 4]) } else { 0 };
        let hostile = rng.coin(1, 14);
        let n = rng.range(1, 6);
        let dupmax = if hostile { 0 } else { rng.range(0, 2).min(8 - n) };
        let need = n + dupmax;
        let size = if hostile { rng.range(1, n.max(2) - 1).max(1) } else { rng.range(need, 8.max(need)) };
        let hostile = hostile && size < n;
        let base = match rng.below(6) {
            0 => 0x0a00_0000u64 + rng.below(200) * 16,
            1 => MAX - 15,
            2 => 16, // low addresses, as dhcp_basic's 0.0.0.1-0.0.0.255
            _ => ((rng.u32() as u64) & 0xffff_fff0).clamp(0x0100_0000, 0x7a00_0000),
        };
        let pool = match rng.below(if hostile { 1 } else { 5 }) {
            0 | 1 => {
                let off = rng.below(16 - size + 1);
                format!("range {} {}", base + off, base + off + size - 1)
            }
            2 | 3 => {
                // the smallest subnet with at least `size` addresses
                let len = match size {
                    1 => 32,
                    2 => 31,
                    3..=4 => 30,
                    _ => 29,
                };
                format!("sub {} {}", base + rng.below(8), len)
            }
            _ => {
                let len = match size {
                    1..=2 => 30,
                    3..=6 => 29,
                    _ => 28,
                };
                format!("noends {} {}", base + rng.below(16), len)
            }
        };
        let (duppct, droppct) = if hostile {
            (0, 0)
        } else if flavor != 0 {
            (0, if rng.coin(1, 5) { 6 } else { 0 })
        } else {
            match rng.below(4) {
                0 => (0, 0),
                1 => (25, 0),
                2 => (30, 8),
                _ => (10, 4),
            }
        };
        let dupmax = if duppct == 0 { 0 } else { dupmax };
        let (delaypct, maxdelay) = match rng.below(4) {
            0 => (0, 0),
            1 => (40, if flavor == 0 { 20_000 } else { 600 }),
            2 => (80, if flavor == 0 { 150_000 } else { 1500 }),
            _ => (100, if flavor == 0 { 80 } else { 200 }),
        };
        let w = match rng.below(3) {
            0 => 0,
            1 => {
                if flavor == 0 {
                    300_000
                } else {
                    1500
                }
            }
            _ => {
                if flavor == 0 {
                    3000
                } else {
                    400
                }
            }
        };
        format!(
            "F {} N {} P {} D {} {} {} {} {} {} W {} H {}",
            flavor, n, pool, dupmax, duppct, droppct, delaypct, maxdelay, rng.below(1 << 30), w, hostile as u8
        )
    }

    fn realtime(case: &str) -> bool {
        parse(case).flavor != 0
    }

    fn run(case: &str) -> Outcome {
        let cfg = parse(case);
        let r = run_child(case, Duration::from_secs(60));
        let p = digest(&r);
        stat(&format!("flavor-{}", if cfg.flavor == 0 { "paused".to_string() } else { format!("multi{}", cfg.flavor) }));
        stat(&format!("clients-{}", cfg.n));
        stat(&format!("pool-{}-{}", cfg.pkind, cfg.pool_size()));
        stat(&format!("end-{}", p.end.replace(' ', "-")));
        if cfg.hostile {
            stat("stream-hostile-exhaustion");
        }
        for e in &p.evs {
            match e {
                Ev::S(m, f) => {
                    stat(&format!("msg-type-{}", m.ty));
                    match f {
                        '2' => stat("frame-duplicated"),
                        'x' => stat("frame-dropped"),
                        _ => {}
                    }
                }
                Ev::K(_, None) => stat("client-HANG"),
                Ev::K(_, Some(_)) => stat("client-learned"),
                _ => {}
            }
        }
        // reordering actually observed: a delivery that overtakes an earlier send
        {
            let mut order: Vec<&DMsg> = vec![];
            let mut overtaken = false;
            for e in &p.evs {
                match e {
                    Ev::S(m, f) if *f != 'x' => order.push(m),
                    Ev::D(m) => {
                        if let Some(i) = order.iter().position(|x| *x == m) {
                            if i != 0 {
                                overtaken = true;
                            }
                            order.remove(i);
                        }
                    }
                    _ => {}
                }
            }
            if overtaken {
                stat("reordered-delivery");
            }
        }
        let oracle = match oracle(&cfg, &p) {
            Ok(()) => Oracle::Ok,
            Err(m) => Oracle::Fail(m),
        };
        Outcome { impl_line: render(&p), oracle }
    }
}

fn main() {
    if let Some(case) = child_case() {
        child(&case);
    }
    main_loop::<C15Dhcp>();
}
