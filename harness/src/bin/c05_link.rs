//! C05 (the link delivers as configured): full-stack scenarios on the real `Network` / `Pci`.
//!
//! case: `F <flavor 0=paused|n=multi n> S <seed>
//!        N <nnets> { <mtu|-1=unset> <lat_base_ns> <lat_rand_ns> <thr_base_Bps> <thr_rand_Bps> }
//!        M <nmach> { <k> <net>*k }                 (slot s of machine m is attached to network <net>)
//!        X <nsend> { <t_ns> <machine> <slot> <dst|-1=None> <len> }`
//! impl line: events separated by ` ; `, all fields integers (mac `none` = -1):
//!   `tap <machine> <slot> <net> <mac> <mtu>`            address handed out by the real allocator
//!   `tx <t> <i> <res 0=Ok|1=Err(Mtu)> <errmtu|-1> <key>` result of the real `PciSession::send_pci` for send #i
//!   `wire <t> <net> <from> <to> <key>`                  frame seen by the link observer in `Network::send`
//!   `dlv <t> <net> <from> <to> <tap|-1> <key>`          hand-over to a tap (-1: nobody owns the address)
//!   `rx <t> <machine> <slot> <src> <dst> <mtu> <key>`   `demux` of the harness protocol with the `DemuxInfo`
//! key = len * 1000003 + hash(payload); the child makes keys unique per scenario.
use elvis_core::{
    machine::Machine,
    message::Message,
    network::{Baud, Latency, NetworkBuilder, Throughput},
    new_machine_arc,
    protocol::{DemuxError, StartError},
    protocols::{pci::DemuxInfo, Pci},
    run_internet, Control, Network, Protocol, Session, Shutdown,
};
use elvis_verif_harness::stack::*;
use elvis_verif_harness::*;
use std::any::TypeId;
use std::collections::{BTreeMap, BTreeSet};
use std::sync::atomic::{AtomicUsize, Ordering};
use std::sync::{Arc, Mutex};
use std::time::Duration;
use tokio::sync::Barrier;

const BCAST: i64 = 0xFF_FF_FF_FF_FF_FF;
const HMOD: u64 = 1_000_003;

// ------------------------------------------------------------------ case

#[derive(Clone, Debug)]
struct NetCfg {
    mtu: i64, // -1: not configured (Mtu::MAX)
    lat_base: u64,
    lat_rand: u64,
    thr_base: u64,
    thr_rand: u64,
}
impl NetCfg {
    fn eff_mtu(&self) -> i64 {
        if self.mtu < 0 {
            65535
        } else {
            self.mtu
        }
    }
    /// the largest rate a frame may see
    fn thr_max(&self) -> u64 {
        if self.thr_rand == 0 {
            self.thr_base
        } else {
            self.thr_base + self.thr_rand - 1
        }
    }
}
#[derive(Clone, Debug)]
struct SendCfg {
    t_ns: u64,
    machine: usize,
    slot: usize,
    dst: i64,
    len: usize,
}
#[derive(Clone, Debug)]
struct Cfg {
    flavor: usize,
    seed: u64,
    nets: Vec<NetCfg>,
    machines: Vec<Vec<usize>>,
    sends: Vec<SendCfg>,
}

fn parse(case: &str) -> Cfg {
    let t: Vec<&str> = case.split_whitespace().collect();
    let mut p = 0usize;
    let mut tok = |exp: Option<&str>| -> i64 {
        if let Some(e) = exp {
            assert_eq!(t[p], e, "case syntax");
            p += 1;
        }
        let v: i64 = t[p].parse().expect("int");
        p += 1;
        v
    };
    let flavor = tok(Some("F")) as usize;
    let seed = tok(Some("S")) as u64;
    let nn = tok(Some("N"));
    let mut nets = vec![];
    for _ in 0..nn {
        nets.push(NetCfg { mtu: tok(None), lat_base: tok(None) as u64, lat_rand: tok(None) as u64, thr_base: tok(None) as u64, thr_rand: tok(None) as u64 });
    }
    let nm = tok(Some("M"));
    let mut machines = vec![];
    for _ in 0..nm {
        let k = tok(None);
        machines.push((0..k).map(|_| tok(None) as usize).collect());
    }
    let nx = tok(Some("X"));
    let mut sends = vec![];
    for _ in 0..nx {
        sends.push(SendCfg { t_ns: tok(None) as u64, machine: tok(None) as usize, slot: tok(None) as usize, dst: tok(None), len: tok(None) as usize });
    }
    Cfg { flavor, seed, nets, machines, sends }
}

fn bytes_hash(b: &[u8]) -> u64 {
    let mut h: u64 = 7;
    for x in b {
        h = (h * 31 + *x as u64) % HMOD;
    }
    h
}
fn key_of(len: usize, hash: u64) -> u64 {
    len as u64 * HMOD + hash
}

/// Payloads of all sends, deterministic from the case, with pairwise distinct keys where possible.
fn payloads(cfg: &Cfg) -> Vec<Vec<u8>> {
    let mut seen = BTreeSet::new();
    let mut out = vec![];
    for (j, s) in cfg.sends.iter().enumerate() {
        let mut salt = 0u64;
        loop {
            let b: Vec<u8> = (0..s.len).map(|k| (cfg.seed.wrapping_mul(131) + j as u64 * 17 + k as u64 * 7 + (k as u64 >> 8) + salt * 29) as u8).collect();
            let key = key_of(s.len, bytes_hash(&b));
            if seen.insert(key) || salt > 300 {
                out.push(b);
                break;
            }
            salt += 1;
        }
    }
    out
}

// ------------------------------------------------------------------ child: the real simulation

static RX_COUNT: AtomicUsize = AtomicUsize::new(0);

struct Ctl {
    paused: bool,
    expected_rx: usize,
    not_before_ns: u128,
}

/// The harness protocol: target protocol of every frame on every machine, and the sender of this machine's frames.
struct Sink {
    machine: usize,
    sends: Vec<(usize, SendCfg, Vec<u8>)>,
    ctl: Mutex<Option<Ctl>>,
}

#[async_trait::async_trait]
impl Protocol for Sink {
    async fn start(&self, shutdown: Shutdown, initialized: Arc<Barrier>, machine: Arc<Machine>) -> Result<(), StartError> {
        let pci = machine.protocol::<Pci>().expect("pci");
        let sessions: Vec<_> = (0..pci.slot_count()).map(|s| pci.open(s as u32)).collect();
        let sends = self.sends.clone();
        let ctl = self.ctl.lock().unwrap().take();
        initialized.wait().await;
        let t0 = tokio::time::Instant::now();
        tokio::spawn(async move {
            for (i, s, bytes) in sends {
                tokio::time::sleep_until(t0 + Duration::from_nanos(s.t_ns)).await;
                let key = key_of(bytes.len(), bytes_hash(&bytes));
                let dst = if s.dst < 0 { None } else { Some(s.dst as u64) };
                let t = now_ns();
                let r = sessions[s.slot].send_pci(Message::new(bytes), dst, TypeId::of::<Sink>());
                let (res, em) = match r {
                    Ok(()) => (0, -1i64),
                    Err(elvis_core::session::SendError::Mtu(m)) => (1, m as i64),
                    Err(_) => (2, -1),
                };
                log(format!("tx t={} i={} res={} errmtu={} key={}", t, i, res, em, key));
            }
        });
        match ctl {
            Some(c) => {
                tokio::spawn(async move {
                    if c.paused {
                        // virtual time: costs nothing
                        tokio::time::sleep(Duration::from_secs(10_000_000)).await;
                    } else {
                        let t_start = std::time::Instant::now();
                        loop {
                            tokio::time::sleep(Duration::from_millis(2)).await;
                            let done = RX_COUNT.load(Ordering::SeqCst) >= c.expected_rx && now_ns() >= c.not_before_ns;
                            if done || t_start.elapsed() > Duration::from_secs(10) {
                                break;
                            }
                        }
                        // grace period: a duplicate or stray delivery would show up here
                        tokio::time::sleep(Duration::from_millis(15)).await;
                    }
                    shutdown.shut_down();
                });
            }
            None => drop(shutdown),
        }
        Ok(())
    }

    fn demux(&self, message: Message, _caller: Arc<dyn Session>, control: Control, _machine: Arc<Machine>) -> Result<(), DemuxError> {
        let bytes = message.to_vec();
        let key = key_of(bytes.len(), bytes_hash(&bytes));
        match control.get::<DemuxInfo>() {
            Some(d) => log(format!(
                "rx m={} slot={} src={} dst={} mtu={} key={}",
                self.machine,
                d.slot,
                d.source,
                d.destination.map(|x| x as i64).unwrap_or(-1),
                d.mtu,
                key
            )),
            None => log(format!("rx m={} slot=-1 src=-1 dst=-1 mtu=-1 key={}", self.machine, key)),
        }
        RX_COUNT.fetch_add(1, Ordering::SeqCst);
        Ok(())
    }
}

fn child(case: &str) -> ! {
    let cfg = parse(case);
    let flavor = if cfg.flavor == 0 { Flavor::CurrentPaused } else { Flavor::Multi(cfg.flavor) };
    Recorder::install(Box::new(|_idx, _f| elvis_core::network::verif::FrameFate::Deliver), false);
    name_protocol(TypeId::of::<Sink>(), "sink");
    let pl = payloads(&cfg);
    let out = block_on(flavor, async move {
        start_clock();
        let nets: Vec<Arc<Network>> = cfg
            .nets
            .iter()
            .map(|n| {
                let mut b = NetworkBuilder::new();
                if n.mtu >= 0 {
                    b = b.mtu(n.mtu as u16);
                }
                let lat = if n.lat_rand == 0 {
                    Latency::constant(Duration::from_nanos(n.lat_base))
                } else {
                    Latency::variable(Duration::from_nanos(n.lat_base), Duration::from_nanos(n.lat_rand))
                };
                let thr = if n.thr_rand == 0 {
                    Throughput::constant(Baud::bytes_per_second(n.thr_base))
                } else {
                    Throughput::variable(Baud::bytes_per_second(n.thr_base), Baud::bytes_per_second(n.thr_rand))
                };
                let net = b.latency(lat).throughput(thr).build();
                register_network(&net);
                net
            })
            .collect();
        // what the controller waits for in the real-time flavour (computed from the case alone)
        let mut ntaps = vec![0usize; cfg.nets.len()];
        for m in &cfg.machines {
            for &n in m {
                ntaps[n] += 1;
            }
        }
        let mut expected_rx = 0usize;
        let mut busy_ns = vec![0u128; cfg.nets.len()];
        let mut last_send = 0u128;
        let mut max_lat = 0u128;
        for s in &cfg.sends {
            let n = cfg.machines[s.machine][s.slot];
            let nc = &cfg.nets[n];
            last_send = last_send.max(s.t_ns as u128);
            max_lat = max_lat.max((nc.lat_base + nc.lat_rand) as u128);
            if s.len as i64 > nc.eff_mtu() {
                continue;
            }
            if s.dst < 0 || s.dst == BCAST {
                expected_rx += ntaps[n];
            } else if (s.dst as usize) < ntaps[n] {
                expected_rx += 1;
            }
            if nc.thr_base > 0 {
                busy_ns[n] += (s.len as u128 * 1_000_000_000) / nc.thr_base as u128 + 2_000_000;
            }
        }
        let not_before_ns = last_send + busy_ns.iter().max().copied().unwrap_or(0) + max_lat + 60_000_000;
        let mut machines = vec![];
        for (m, slots) in cfg.machines.iter().enumerate() {
            let sends: Vec<(usize, SendCfg, Vec<u8>)> =
                cfg.sends.iter().enumerate().filter(|(_, s)| s.machine == m).map(|(i, s)| (i, s.clone(), pl[i].clone())).collect();
            let ctl = if m == 0 { Some(Ctl { paused: cfg.flavor == 0, expected_rx, not_before_ns }) } else { None };
            let mach = new_machine_arc![Pci::new(slots.iter().map(|&n| nets[n].clone())), Sink { machine: m, sends, ctl: Mutex::new(ctl) }];
            let pci = mach.protocol::<Pci>().unwrap();
            for (s, &n) in slots.iter().enumerate() {
                let sess = pci.open(s as u32);
                log(format!("tap m={} slot={} net={} mac={} mtu={}", m, sess.slot(), n, sess.mac(), sess.mtu()));
            }
            machines.push(mach);
        }
        let status = run_internet(&machines, None).await;
        vec![format!("status {:?}", status)]
    });
    child_finish(&out)
}

// ------------------------------------------------------------------ parent: trace, impl line, oracle

fn field(text: &str, name: &str) -> Option<String> {
    let pat = format!("{}=", name);
    text.split_whitespace().find_map(|w| w.strip_prefix(pat.as_str()).map(|x| x.to_string()))
}
fn mac_field(text: &str, name: &str) -> i64 {
    match field(text, name).as_deref() {
        Some("none") | None => -1,
        Some("bcast") => BCAST,
        Some("?") => BCAST,
        Some(x) => x.parse().unwrap_or(-2),
    }
}
fn int_field(text: &str, name: &str) -> i64 {
    field(text, name).and_then(|x| x.parse().ok()).unwrap_or(-2)
}

#[derive(Clone, Debug)]
enum Ev {
    Tap { m: i64, slot: i64, net: i64, mac: i64, mtu: i64 },
    Tx { t: i64, i: i64, res: i64, em: i64, key: i64 },
    Wire { t: i64, net: i64, from: i64, to: i64, key: i64 },
    Dlv { t: i64, net: i64, from: i64, to: i64, tap: i64, key: i64 },
    Rx { t: i64, m: i64, slot: i64, src: i64, dst: i64, mtu: i64, key: i64 },
}

fn parse_events(evs: &[(u128, String)]) -> Vec<Ev> {
    let mut out = vec![];
    for (t, text) in evs {
        let t = *t as i64;
        let kind = text.split_whitespace().next().unwrap_or("");
        let key2 = |text: &str| int_field(text, "len") * HMOD as i64 + int_field(text, "hash");
        match kind {
            "tap" => out.push(Ev::Tap { m: int_field(text, "m"), slot: int_field(text, "slot"), net: int_field(text, "net"), mac: int_field(text, "mac"), mtu: int_field(text, "mtu") }),
            "tx" => out.push(Ev::Tx { t: int_field(text, "t"), i: int_field(text, "i"), res: int_field(text, "res"), em: int_field(text, "errmtu"), key: int_field(text, "key") }),
            "send" => out.push(Ev::Wire { t, net: int_field(text, "net"), from: mac_field(text, "from"), to: mac_field(text, "to"), key: key2(text) }),
            "dlv" => out.push(Ev::Dlv { t, net: int_field(text, "net"), from: mac_field(text, "from"), to: mac_field(text, "to"), tap: mac_field(text, "tap"), key: key2(text) }),
            "rx" => out.push(Ev::Rx { t, m: int_field(text, "m"), slot: int_field(text, "slot"), src: int_field(text, "src"), dst: int_field(text, "dst"), mtu: int_field(text, "mtu"), key: int_field(text, "key") }),
            _ => {}
        }
    }
    out
}

fn render(evs: &[Ev]) -> String {
    let mut parts = vec![];
    for e in evs {
        parts.push(match e {
            Ev::Tap { m, slot, net, mac, mtu } => format!("tap {} {} {} {} {}", m, slot, net, mac, mtu),
            Ev::Tx { t, i, res, em, key } => format!("tx {} {} {} {} {}", t, i, res, em, key),
            Ev::Wire { t, net, from, to, key } => format!("wire {} {} {} {} {}", t, net, from, to, key),
            Ev::Dlv { t, net, from, to, tap, key } => format!("dlv {} {} {} {} {} {}", t, net, from, to, tap, key),
            Ev::Rx { t, m, slot, src, dst, mtu, key } => format!("rx {} {} {} {} {} {} {}", t, m, slot, src, dst, mtu, key),
        });
    }
    parts.join(" ; ")
}

/// The property's own predicate, evaluated on the recorded trace; knows the case and nothing of the model.
fn oracle(cfg: &Cfg, evs: &[Ev]) -> Result<(), String> {
    let pl = payloads(cfg);
    // --- addresses: every tap of a network has its own address; a tap reports its network's MTU
    let mut taps: BTreeMap<(usize, usize), (usize, i64)> = BTreeMap::new(); // (machine, slot) -> (net, mac)
    let mut by_net: Vec<BTreeMap<i64, (usize, usize)>> = vec![BTreeMap::new(); cfg.nets.len()];
    for e in evs {
        if let Ev::Tap { m, slot, net, mac, mtu } = e {
            let (m, slot, net) = (*m as usize, *slot as usize, *net as usize);
            if cfg.machines.get(m).and_then(|s| s.get(slot)) != Some(&net) {
                return Err(format!("tap event of machine {} slot {} names network {}", m, slot, net));
            }
            if *mtu != cfg.nets[net].eff_mtu() {
                return Err(format!("tap m{} s{} reports mtu {} on a network with mtu {}", m, slot, mtu, cfg.nets[net].eff_mtu()));
            }
            if let Some(other) = by_net[net].insert(*mac, (m, slot)) {
                return Err(format!("taps {:?} and {:?} of network {} share the hardware address {}", other, (m, slot), net, mac));
            }
            if taps.insert((m, slot), (net, *mac)).is_some() {
                return Err(format!("tap m{} s{} listed twice", m, slot));
            }
        }
    }
    let total_slots: usize = cfg.machines.iter().map(|s| s.len()).sum();
    if taps.len() != total_slots {
        return Err(format!("{} taps reported for {} slots", taps.len(), total_slots));
    }
    // --- per frame
    let mut known_keys = BTreeSet::new();
    // (net, arrival, first delivery, len) of accepted frames, for the timing clauses
    let mut timing: Vec<(usize, i64, i64, usize)> = vec![];
    for (i, s) in cfg.sends.iter().enumerate() {
        let key = key_of(s.len, bytes_hash(&pl[i])) as i64;
        known_keys.insert(key);
        let (net, mac) = taps[&(s.machine, s.slot)];
        let nc = &cfg.nets[net];
        let txs: Vec<_> = evs.iter().filter_map(|e| if let Ev::Tx { t, i: j, res, em, key: k } = e { if *j == i as i64 { Some((*t, *res, *em, *k)) } else { None } } else { None }).collect();
        if txs.len() != 1 {
            return Err(format!("send #{} was issued {} times", i, txs.len()));
        }
        let (t_tx, res, em, k) = txs[0];
        if k != key {
            return Err(format!("send #{}: harness key mismatch", i));
        }
        let wires: Vec<_> = evs.iter().filter_map(|e| if let Ev::Wire { t, net, from, to, key: k } = e { if *k == key { Some((*t, *net, *from, *to)) } else { None } } else { None }).collect();
        let dlvs: Vec<_> = evs.iter().filter_map(|e| if let Ev::Dlv { t, net, from, to, tap, key: k } = e { if *k == key { Some((*t, *net, *from, *to, *tap)) } else { None } } else { None }).collect();
        let rxs: Vec<_> = evs.iter().filter_map(|e| if let Ev::Rx { t, m, slot, src, dst, mtu, key: k } = e { if *k == key { Some((*t, *m, *slot, *src, *dst, *mtu)) } else { None } } else { None }).collect();
        if s.len as i64 > nc.eff_mtu() {
            // refused at the sender with an error, never on the wire
            if res != 1 || em != nc.eff_mtu() {
                return Err(format!("send #{}: {} bytes on a network with MTU {} was not refused with Err(Mtu({})) (res={} mtu={})", i, s.len, nc.eff_mtu(), nc.eff_mtu(), res, em));
            }
            if !wires.is_empty() || !dlvs.is_empty() || !rxs.is_empty() {
                return Err(format!("send #{}: a refused frame ({} bytes, MTU {}) appeared on the wire", i, s.len, nc.eff_mtu()));
            }
            continue;
        }
        if res != 0 {
            return Err(format!("send #{}: {} bytes within MTU {} was refused (res={})", i, s.len, nc.eff_mtu(), res));
        }
        if wires.len() != 1 {
            return Err(format!("send #{}: frame is on the wire {} times", i, wires.len()));
        }
        let (_, wn, wf, wt) = wires[0];
        if wn != net as i64 || wf != mac || wt != s.dst {
            return Err(format!("send #{}: on the wire as net={} from={} to={}, sent as net={} from={} to={}", i, wn, wf, wt, net, mac, s.dst));
        }
        // who must / may / must not receive it
        let broadcast = s.dst < 0 || s.dst == BCAST;
        for (&tmac, &(tm, tslot)) in by_net[net].iter() {
            let cnt = rxs.iter().filter(|r| r.1 == tm as i64 && r.2 == tslot as i64).count();
            let own = tmac == mac;
            let (lo, hi) = if broadcast {
                if own {
                    (0, 1) // "every OTHER tap": the sender's own tap is neither required nor forbidden
                } else {
                    (1, 1)
                }
            } else if tmac == s.dst {
                (1, 1)
            } else {
                (0, 0)
            };
            if cnt < lo || cnt > hi {
                return Err(format!("send #{} (from {} to {} on net {}): tap {} (m{} s{}) received it {} times, expected {}..{}", i, mac, s.dst, net, tmac, tm, tslot, cnt, lo, hi));
            }
        }
        for r in &rxs {
            // no tap of another network, no unknown (machine, slot)
            match taps.get(&(r.1 as usize, r.2 as usize)) {
                Some((n2, _)) if *n2 == net => {}
                _ => return Err(format!("send #{} on net {}: received at m{} s{}, which is not a tap of that network", i, net, r.1, r.2)),
            }
            if r.3 != mac || r.4 != s.dst || r.5 != nc.eff_mtu() {
                return Err(format!("send #{}: link info changed in flight: src={} dst={} mtu={} (sent from {} to {}, mtu {})", i, r.3, r.4, r.5, mac, s.dst, nc.eff_mtu()));
            }
        }
        // timing
        let mut first: Option<i64> = None;
        for t in rxs.iter().map(|r| r.0).chain(dlvs.iter().map(|d| d.0)) {
            if t - t_tx < nc.lat_base as i64 {
                return Err(format!("send #{}: delivered {} ns after it was sent, configured latency is {} ns", i, t - t_tx, nc.lat_base));
            }
            first = Some(first.map_or(t, |f: i64| f.min(t)));
        }
        match first {
            Some(f) => timing.push((net, t_tx, f, s.len)),
            None => return Err(format!("send #{}: accepted frame was never handed to a tap nor reported undeliverable", i)),
        }
    }
    for e in evs {
        let k = match e {
            Ev::Wire { key, .. } | Ev::Dlv { key, .. } | Ev::Rx { key, .. } => *key,
            _ => continue,
        };
        if !known_keys.contains(&k) {
            return Err(format!("a frame nobody sent is on the wire or was received: {:?}", e));
        }
    }
    // --- throughput: the frames sent at or after s and delivered by e fit into e - s at the configured rate
    for (n, nc) in cfg.nets.iter().enumerate() {
        if nc.thr_base == 0 {
            continue;
        }
        let fr: Vec<_> = timing.iter().filter(|f| f.0 == n).collect();
        for a in &fr {
            for b in &fr {
                let (s, e) = (a.1, b.2);
                if s > e {
                    continue;
                }
                let bytes: u128 = fr.iter().filter(|f| f.1 >= s && f.2 <= e).map(|f| f.3 as u128).sum();
                if bytes * 1_000_000_000 > nc.thr_max() as u128 * (e - s) as u128 {
                    return Err(format!(
                        "THROUGHPUT net {}: {} bytes sent at or after t={} ns were all delivered by t={} ns; at {} B/s that takes at least {} ns",
                        n,
                        bytes,
                        s,
                        e,
                        nc.thr_max(),
                        (bytes * 1_000_000_000 + nc.thr_max() as u128 - 1) / nc.thr_max() as u128
                    ));
                }
            }
        }
    }
    Ok(())
}

struct Link;

fn gen_case(rng: &mut Rng, idx: usize) -> String {
    let multi = idx % 8 == 7;
    let flavor = if multi { rng.range(2, 4) } else { 0 };
    let nn = *rng.pick(&[1usize, 1, 2, 2, 3]);
    let burst = !multi && rng.coin(1, 6);
    let mut nets = vec![];
    for _ in 0..nn {
        let mtu: i64 = if multi {
            *rng.pick(&[1i64, 2, 8, 20, 64, 100])
        } else {
            match rng.below(10) {
                0 => -1,
                1 | 2 => 1500,
                3 => *rng.pick(&[0i64, 1, 2, 3]),
                4..=6 => rng.range(4, 40) as i64,
                7 => *rng.pick(&[255i64, 256, 257, 65534, 65535]),
                _ => rng.range(41, 600) as i64,
            }
        };
        let (lb, lr): (u64, u64) = if multi {
            match rng.below(4) {
                0 => (0, 0),
                1 => (rng.range(1, 15) * 1_000_000, 0),
                2 => (rng.range(1, 10) * 1_000_000, rng.range(1, 5) * 1_000_000),
                _ => (rng.range(1, 3_000_000), 0),
            }
        } else {
            match rng.below(8) {
                0 | 1 => (0, 0),
                2 | 3 => (rng.range(1, 2000) * 1_000_000, 0),
                4 => (*rng.pick(&[1u64, 999_999, 1_000_001, 1_500_000, 2_999_999]), 0),
                5 => (rng.range(1, 5_000_000_000), 0),
                6 => (rng.range(0, 50) * 1_000_000, rng.range(1, 50) * 1_000_000),
                _ => (rng.range(1, 90_000_000), rng.range(1, 90_000_000)),
            }
        };
        let m = if mtu < 0 { 65535 } else { mtu.max(1) } as u64;
        let (tb, tr): (u64, u64) = if multi {
            match rng.below(4) {
                0 => (0, 0),
                1 => (m * rng.range(100, 1000), 0),
                2 => (m * rng.range(100, 500), m * rng.range(1, 200)),
                _ => (*rng.pick(&[1_000_000u64, 12_500_000, 999_983]), 0),
            }
        } else {
            match rng.below(12) {
                0 | 1 => (0, 0),
                // a frame of MTU size takes a whole number of milliseconds
                2 => (m * *rng.pick(&[1u64, 2, 5, 10, 1000]), 0),
                3 => (*rng.pick(&[1u64, 2, 3, 7, 34, 50]), 0),
                4 => (*rng.pick(&[999u64, 1000, 1001, 1500, 2000]), 0),
                5 => (rng.range(1, 5000), 0),
                6 => (*rng.pick(&[12_500_000u64, 125_000_000, 1_000_000_000, 1_000_000_007, 1u64 << 61]), 0),
                7 => (m * 1000 + *rng.pick(&[0u64, 1, m * 1000 - 1]), 0),
                8 => (rng.range(1, 100_000_000), 0),
                9 => (rng.range(1, 3000), rng.range(1, 3000)),
                10 => (rng.range(1, 100_000) * 1000, *rng.pick(&[1u64, 2, 1000])),
                _ => (m * rng.range(1, 50), rng.range(1, 1000)),
            }
        };
        nets.push(NetCfg { mtu, lat_base: lb, lat_rand: lr, thr_base: tb, thr_rand: tr });
    }
    // machines and taps: at most 6 taps per network
    let nm = rng.range(1, 4) as usize;
    let mut ntaps = vec![0usize; nn];
    let mut machines: Vec<Vec<usize>> = vec![];
    for _ in 0..nm {
        let k = *rng.pick(&[1usize, 1, 2, 2, 3]);
        let mut slots = vec![];
        for _ in 0..k {
            let mut n = rng.below(nn as u64) as usize;
            if ntaps[n] >= 6 {
                n = (0..nn).min_by_key(|&x| ntaps[x]).unwrap();
            }
            if ntaps[n] >= 6 {
                continue;
            }
            ntaps[n] += 1;
            slots.push(n);
        }
        if slots.is_empty() {
            continue;
        }
        machines.push(slots);
    }
    if machines.is_empty() {
        machines.push(vec![0]);
        ntaps[0] += 1;
    }
    // sends
    let nx = if burst { rng.range(8, 20) } else if multi { rng.range(1, 6) } else { rng.range(1, 9) } as usize;
    let mut sends = vec![];
    let mut have_empty = false;
    let burst_from = (rng.below(machines.len() as u64) as usize, 0usize);
    for _ in 0..nx {
        let (mach, slot) = if burst && rng.coin(3, 4) {
            burst_from
        } else {
            let mach = rng.below(machines.len() as u64) as usize;
            (mach, rng.below(machines[mach].len() as u64) as usize)
        };
        let n = machines[mach][slot];
        let nc = &nets[n];
        let mtu = nc.eff_mtu();
        let t_ns: u64 = if burst {
            if rng.coin(5, 6) {
                0
            } else {
                rng.range(0, 3) * 1_000_000
            }
        } else if multi {
            rng.range(0, 4) * 1_000_000
        } else {
            match rng.below(6) {
                0..=2 => 0,
                3 => rng.range(0, 5) * 1_000_000,
                4 => rng.range(0, 3000) * 1_000_000,
                _ => rng.range(0, 40_000_000),
            }
        };
        let dst: i64 = match rng.below(20) {
            0..=6 => rng.below(ntaps[n] as u64) as i64, // unicast to a tap of this network (sometimes the sender's own)
            7 | 8 => ntaps[n] as i64 + rng.below(3) as i64, // not allocated (just beyond the allocator)
            9 => *rng.pick(&[BCAST - 1, BCAST + 1, 1i64 << 40, 0xFFFF_FFFF, 1i64 << 61]),
            10..=14 => BCAST,
            _ => -1,
        };
        let mut len: i64 = if burst && rng.coin(2, 3) {
            rng.range(1, 3).min(mtu.max(1) as u64) as i64
        } else {
            match rng.below(10) {
                0 | 1 => mtu - 1,
                2..=4 => mtu,
                5 | 6 => mtu + 1,
                7 | 8 => rng.range(0, mtu.max(1) as u64) as i64,
                _ => (mtu * 2 + 3).min(70_000),
            }
        };
        if len < 0 {
            len = 0;
        }
        if len == 0 {
            if have_empty {
                len = mtu.min(1).max(0);
                if len == 0 {
                    len = 1; // over the MTU of an mtu-0 network
                }
            } else {
                have_empty = true;
            }
        }
        sends.push(SendCfg { t_ns, machine: mach, slot, dst, len: len as usize });
    }
    let mut s = format!("F {} S {} N {}", flavor, rng.below(1000), nn);
    for n in &nets {
        s.push_str(&format!(" {} {} {} {} {}", n.mtu, n.lat_base, n.lat_rand, n.thr_base, n.thr_rand));
    }
    s.push_str(&format!(" M {}", machines.len()));
    for m in &machines {
        s.push_str(&format!(" {}", m.len()));
        for n in m {
            s.push_str(&format!(" {}", n));
        }
    }
    s.push_str(&format!(" X {}", sends.len()));
    for x in &sends {
        s.push_str(&format!(" {} {} {} {} {}", x.t_ns, x.machine, x.slot, x.dst, x.len));
    }
    s
}

impl Family for Link {
    fn gen(rng: &mut Rng, idx: usize) -> String {
        gen_case(rng, idx)
    }

    fn realtime(case: &str) -> bool {
        parse(case).flavor != 0
    }

    fn run(case: &str) -> Outcome {
        let cfg = parse(case);
        stat(if cfg.flavor == 0 { "flavor_paused" } else { "flavor_multi" });
        stat(&format!("nets_{}", cfg.nets.len()));
        let mut ntaps = vec![0usize; cfg.nets.len()];
        for m in &cfg.machines {
            stat(&format!("slots_per_machine_{}", m.len()));
            let mut seen = BTreeSet::new();
            for &n in m {
                ntaps[n] += 1;
                if !seen.insert(n) {
                    stat("machine_twice_on_one_network");
                }
            }
            if seen.len() > 1 {
                stat("machine_on_several_networks");
            }
        }
        for t in &ntaps {
            stat(&format!("taps_on_net_{}", t));
        }
        for n in &cfg.nets {
            stat(match (n.lat_base, n.lat_rand) {
                (0, 0) => "lat_zero",
                (b, 0) if b % 1_000_000 == 0 => "lat_const_ms",
                (_, 0) => "lat_const_subms",
                _ => "lat_variable",
            });
            stat(match (n.thr_base, n.thr_rand) {
                (0, 0) => "thr_unlimited",
                (_, 0) => "thr_const",
                _ => "thr_variable",
            });
        }
        for s in &cfg.sends {
            let n = cfg.machines[s.machine][s.slot];
            let mtu = cfg.nets[n].eff_mtu();
            stat(match s.len as i64 - mtu {
                -1 => "len_mtu-1",
                0 => "len_mtu",
                1 => "len_mtu+1",
                d if d < 0 => "len_below",
                _ => "len_above",
            });
            stat(if s.dst < 0 {
                "dst_none"
            } else if s.dst == BCAST {
                "dst_bcast"
            } else if (s.dst as usize) < ntaps[n] {
                "dst_tap"
            } else {
                "dst_unknown"
            });
            let nc = &cfg.nets[n];
            if nc.thr_base > 0 && nc.thr_rand == 0 && s.len as i64 <= mtu {
                stat(if (s.len as u128 * 1000) % nc.thr_base as u128 == 0 { "txtime_whole_ms" } else { "txtime_fractional_ms" });
            }
        }
        let r = run_child(case, Duration::from_secs(40));
        if !r.clean {
            stat("child_not_clean");
            let line = format!("CRASH code={:?} timed_out={} h={}", r.exit_code, r.timed_out, bytes_hash(r.stderr_tail.as_bytes()));
            return Outcome { impl_line: line, oracle: Oracle::Fail(format!("the simulation died or hung: code={:?} timed_out={} stderr: {}", r.exit_code, r.timed_out, r.stderr_tail.replace('\n', " "))) };
        }
        let evs = parse_events(&r.events);
        let line = render(&evs);
        let oracle = match oracle(&cfg, &evs) {
            Ok(()) => Oracle::Ok,
            Err(m) => {
                stat(if m.starts_with("THROUGHPUT") { "oracle_throughput" } else { "oracle_other" });
                Oracle::Fail(m)
            }
        };
        Outcome { impl_line: line, oracle }
    }
}

fn main() {
    if let Some(case) = child_case() {
        child(&case);
    }
    main_loop::<Link>();
}
