//! C03 (part c) — the TCP session table: sessions keyed by endpoint pair, listen bindings create sessions.
//!
//! Every case is a full-stack scenario run in a child process: 2..4 machines on one network
//! (Tcp / Ipv4 / Pci, no ARP), up to four recording applications per machine (`Rec<0>`..`Rec<3>`),
//! and ONE sequential script executed by the child's main task after the start barrier:
//!   L  Tcp::listen(app, endpoint)            (real API; exact, wildcard 0.0.0.0, foreign addresses; re-binds)
//!   O  Tcp::open(app, local, remote)         (real API; several clients to one listener; the same pair twice)
//!   S  Session::send on the session an earlier O returned
//!   I  a raw TCP segment (any flags / seq / ack / text, any source endpoint) put on the link with
//!      PciSession::send_pci from some machine to some MAC
//! Each step is followed by a settle phase (virtual time on the paused runtime) unless its settle flag is 0.
//!
//! case line (all tokens decimal):
//!   `v1 <flavor 0=paused current-thread | n=multi-thread n workers> <latency_us> <nm>`
//!   per machine: `M <napps> <nroutes> {<local addr> <mac|-1>}*`
//!   `T <nsteps>` then per step one of
//!     `L <m> <app> <addr> <port> <settle>`
//!     `O <m> <app> <laddr> <lport> <raddr> <rport> <settle>`
//!     `S <index of an O step> <len> <seed> <settle>`
//!     `I <m> <to mac|-1 = none> <saddr> <sport> <daddr> <dport> <flags> <seq> <ack> <textlen> <seed> <settle>`
//! impl line: the recorded trace IN LOG ORDER, one token per event:
//!   `L<k>:<code>` `O<k>:<code>` `S<k>` `I<k>`                       script step k executed (codes: 0 ok, 1 Existing,
//!                                                                    2 ipv4 listen Exists, 3 unknown recipient, 4 ARP, 9 other)
//!   `F:<m>:<to>:<sa>:<sp>:<da>:<dp>:<flags>:<seq>:<ack>:<tlen>`     IPv4/TCP frame given to the link by machine m
//!   `A:<m>:<from>:<sa>:..:<tlen>`                                   the frame handed to machine m's tap
//!   `N:<m>:<app>:<la>:<lp>:<ra>:<rp>`                               NotifyType::NewConnection on a recorder
//!   `B:<m>:<app>:<la>:<lp>:<ra>:<rp>:<len>`                         bytes handed to a recorder
//!   `X=<number of anomalies>`
//!   flags: FIN 1, SYN 2, RST 4, PSH 8, ACK 16; frame `to`: -2 broadcast MAC, -3 none, else the MAC; machine i owns MAC i.
//! A crashed or hung child renders as `CRASH ...` and fails the oracle.
use elvis_core::{
    machine::Machine,
    message::Message,
    network::{
        verif::{FrameFate, FrameInfo, Observer},
        Latency, NetworkBuilder,
    },
    protocol::{DemuxError, NotifyType, StartError},
    protocols::{
        ipv4::{self, Ipv4, Ipv4Address, Recipient},
        tcp::{self, verif::TcpHeaderBuilder, Tcp},
        Endpoint, Endpoints, Pci,
    },
    run_internet, Control, IpTable, Network, Protocol, Session, Shutdown,
};
use elvis_verif_harness::stack::{block_on, child_case, child_finish, now_ns, run_child, start_clock, Flavor};
use elvis_verif_harness::*;
use std::any::TypeId;
use std::collections::HashMap;
use std::sync::atomic::{AtomicBool, AtomicUsize, Ordering::SeqCst};
use std::sync::Arc;
use std::time::Duration;
use tokio::sync::Barrier;

// ------------------------------------------------------------------ case

const ANY: u32 = 0;
const FIN: u8 = 1;
const SYN: u8 = 2;
const RST: u8 = 4;
const PSH: u8 = 8;
const ACK: u8 = 16;

fn own(i: usize, k: u8) -> u32 {
    u32::from_be_bytes([10, 0, i as u8, k])
}
fn spoof(k: u8) -> u32 {
    u32::from_be_bytes([10, 0, 200, k])
}

type Ep = (u32, u16);

#[derive(Clone, Debug, PartialEq, Eq, Hash)]
struct Seg {
    src: Ep,
    dst: Ep,
    flags: u8,
    seq: u32,
    ack: u32,
    tlen: usize,
}

#[derive(Clone, Debug)]
enum Step {
    L { m: usize, app: usize, ep: Ep },
    O { m: usize, app: usize, local: Ep, remote: Ep },
    S { k: usize, len: usize, seed: u64 },
    I { m: usize, to: i64, seg: Seg, seed: u64 },
}

#[derive(Clone, Debug, Default)]
struct MCfg {
    napps: usize,
    routes: Vec<(u32, i64)>,
}

#[derive(Clone, Debug)]
struct Case {
    flavor: usize,
    lat_us: u64,
    machines: Vec<MCfg>,
    steps: Vec<(Step, bool)>,
}

impl Case {
    fn render(&self) -> String {
        let mut t: Vec<String> = vec!["v1".into(), self.flavor.to_string(), self.lat_us.to_string(), self.machines.len().to_string()];
        for m in &self.machines {
            t.push("M".into());
            t.push(m.napps.to_string());
            t.push(m.routes.len().to_string());
            for r in &m.routes {
                t.push(r.0.to_string());
                t.push(r.1.to_string());
            }
        }
        t.push("T".into());
        t.push(self.steps.len().to_string());
        for (s, settle) in &self.steps {
            match s {
                Step::L { m, app, ep } => t.push(format!("L {} {} {} {}", m, app, ep.0, ep.1)),
                Step::O { m, app, local, remote } => t.push(format!("O {} {} {} {} {} {}", m, app, local.0, local.1, remote.0, remote.1)),
                Step::S { k, len, seed } => t.push(format!("S {} {} {}", k, len, seed)),
                Step::I { m, to, seg, seed } => t.push(format!(
                    "I {} {} {} {} {} {} {} {} {} {} {}",
                    m, to, seg.src.0, seg.src.1, seg.dst.0, seg.dst.1, seg.flags, seg.seq, seg.ack, seg.tlen, seed
                )),
            }
            t.push((*settle as u8).to_string());
        }
        t.join(" ")
    }

    fn parse(line: &str) -> Case {
        let t: Vec<&str> = line.split_whitespace().collect();
        let mut i = 0usize;
        let mut nx = || {
            i += 1;
            t[i - 1]
        };
        macro_rules! num {
            () => {
                nx().parse().unwrap()
            };
        }
        assert_eq!(nx(), "v1");
        let flavor: usize = num!();
        let lat_us: u64 = num!();
        let nm: usize = num!();
        let mut machines = vec![];
        for _ in 0..nm {
            assert_eq!(nx(), "M");
            let mut m = MCfg { napps: num!(), routes: vec![] };
            let nr: usize = num!();
            for _ in 0..nr {
                m.routes.push((num!(), num!()));
            }
            machines.push(m);
        }
        assert_eq!(nx(), "T");
        let ns: usize = num!();
        let mut steps = vec![];
        for _ in 0..ns {
            let s = match nx() {
                "L" => Step::L { m: num!(), app: num!(), ep: (num!(), num!()) },
                "O" => Step::O { m: num!(), app: num!(), local: (num!(), num!()), remote: (num!(), num!()) },
                "S" => Step::S { k: num!(), len: num!(), seed: num!() },
                "I" => Step::I { m: num!(), to: num!(), seg: Seg { src: (num!(), num!()), dst: (num!(), num!()), flags: num!(), seq: num!(), ack: num!(), tlen: num!() }, seed: num!() },
                other => panic!("step kind {}", other),
            };
            let settle = nx() == "1";
            steps.push((s, settle));
        }
        Case { flavor, lat_us, machines, steps }
    }

    fn route(&self, m: usize, a: u32) -> Option<i64> {
        self.machines[m].routes.iter().find(|r| r.0 == a).map(|r| r.1)
    }
}

fn pattern(seed: u64, len: usize) -> Vec<u8> {
    (0..len).map(|i| ((seed as usize).wrapping_add(i * 7) & 0xff) as u8).collect()
}

// ------------------------------------------------------------------ child: the real simulation

/// Events are printed at once (stdout is line buffered), so that the parent still has the trace of a child
/// that hangs.
fn log(text: String) {
    println!("EV {} {}", now_ns(), text.replace('\n', " "));
}

/// Do `e` and (0.0.0.0, e.port) live in the same shard of an `FxDashMap<Endpoint, _>` of this process?
/// Asked of a real map of the same type (same hasher, same shard count) by taking the two locks.
fn collides(e: Ep) -> bool {
    thread_local! {
        static PROBE: elvis_core::FxDashMap<Endpoint, ()> = Default::default();
    }
    PROBE.with(|m| {
        let g = m.entry(Endpoint::new(Ipv4Address::from(e.0), e.1));
        let locked = m.try_entry(Endpoint::new(Ipv4Address::from(ANY), e.1)).is_none();
        drop(g);
        locked
    })
}

static STARTED: AtomicUsize = AtomicUsize::new(0);
static STARTED_NOTIFY: tokio::sync::Notify = tokio::sync::Notify::const_new();
static EXPECT_DLV: AtomicUsize = AtomicUsize::new(0);
static DLV: AtomicUsize = AtomicUsize::new(0);
static ACTIVITY: AtomicUsize = AtomicUsize::new(0);
static NTAPS: AtomicUsize = AtomicUsize::new(0);
static FROZEN: AtomicBool = AtomicBool::new(false);

fn be16(b: &[u8], i: usize) -> u16 {
    u16::from_be_bytes([b[i], b[i + 1]])
}
fn be32(b: &[u8], i: usize) -> u32 {
    u32::from_be_bytes([b[i], b[i + 1], b[i + 2], b[i + 3]])
}

/// the harness's own reading of an IPv4/TCP frame
fn read_frame(b: &[u8]) -> Option<Seg> {
    if b.len() < 40 || b[0] != 0x45 || be16(b, 2) as usize != b.len() || b[9] != 6 || b[32] >> 4 != 5 {
        return None;
    }
    Some(Seg { src: (be32(b, 12), be16(b, 20)), dst: (be32(b, 16), be16(b, 22)), seq: be32(b, 24), ack: be32(b, 28), flags: b[33], tlen: b.len() - 40 })
}
fn seg_str(s: &Seg) -> String {
    format!("{}:{}:{}:{}:{}:{}:{}:{}", s.src.0, s.src.1, s.dst.0, s.dst.1, s.flags, s.seq, s.ack, s.tlen)
}

struct Obs;
impl Observer for Obs {
    fn on_send(&self, f: &FrameInfo) -> FrameFate {
        if FROZEN.load(SeqCst) {
            return FrameFate::Drop;
        }
        ACTIVITY.fetch_add(1, SeqCst);
        let to: i64 = match f.destination {
            None => -3,
            Some(m) if m == Network::BROADCAST_MAC => -2,
            Some(m) => m as i64,
        };
        EXPECT_DLV.fetch_add(if to < 0 { NTAPS.load(SeqCst) } else { 1 }, SeqCst);
        if f.protocol == TypeId::of::<Ipv4>() {
            match read_frame(&f.message.to_vec()) {
                Some(s) => log(format!("F:{}:{}:{}", f.sender, to, seg_str(&s))),
                None => log(format!("anom unreadable ipv4 frame from {} len {}", f.sender, f.message.len())),
            }
        } else {
            log(format!("anom frame of another protocol from {}", f.sender));
        }
        FrameFate::Deliver
    }
    fn on_delivery(&self, f: &FrameInfo, tap: Option<u64>) {
        ACTIVITY.fetch_add(1, SeqCst);
        if let (Some(tap), false) = (tap, FROZEN.load(SeqCst)) {
            if let Some(s) = read_frame(&f.message.to_vec()) {
                log(format!("A:{}:{}:{}", tap, f.sender, seg_str(&s)));
            }
        }
        DLV.fetch_add(1, SeqCst);
    }
}

/// A recording application; `N` only serves to give every recorder of a machine its own TypeId.
struct Rec<const N: usize> {
    m: usize,
}

#[async_trait::async_trait]
impl<const N: usize> Protocol for Rec<N> {
    async fn start(&self, _shutdown: Shutdown, initialized: Arc<Barrier>, _machine: Arc<Machine>) -> Result<(), StartError> {
        initialized.wait().await;
        if N == 0 {
            STARTED.fetch_add(1, SeqCst);
            STARTED_NOTIFY.notify_one();
        }
        Ok(())
    }

    fn demux(&self, message: Message, _caller: Arc<dyn Session>, control: Control, _machine: Arc<Machine>) -> Result<(), DemuxError> {
        ACTIVITY.fetch_add(1, SeqCst);
        if FROZEN.load(SeqCst) {
            return Ok(());
        }
        match control.get::<Endpoints>() {
            Some(e) => log(format!("B:{}:{}:{}:{}:{}:{}:{}", self.m, N, e.local.address.to_u32(), e.local.port, e.remote.address.to_u32(), e.remote.port, message.len())),
            None => log(format!("anom recorder {} on machine {}: bytes without endpoints", N, self.m)),
        }
        Ok(())
    }

    fn notify(&self, notification: NotifyType, _caller: Arc<dyn Session>, control: Control) {
        ACTIVITY.fetch_add(1, SeqCst);
        if FROZEN.load(SeqCst) {
            return;
        }
        match (notification, control.get::<Endpoints>()) {
            (NotifyType::NewConnection, Some(e)) => log(format!("N:{}:{}:{}:{}:{}:{}", self.m, N, e.local.address.to_u32(), e.local.port, e.remote.address.to_u32(), e.remote.port)),
            _ => log(format!("anom recorder {} on machine {}: unexpected notification", N, self.m)),
        }
    }
}

fn rec_tid(k: usize) -> TypeId {
    match k {
        0 => TypeId::of::<Rec<0>>(),
        1 => TypeId::of::<Rec<1>>(),
        2 => TypeId::of::<Rec<2>>(),
        _ => TypeId::of::<Rec<3>>(),
    }
}

fn raw_frame(s: &Seg, seed: u64) -> Vec<u8> {
    let text = pattern(seed, s.tlen);
    let (sa, da) = (Ipv4Address::from(s.src.0), Ipv4Address::from(s.dst.0));
    let mut b = TcpHeaderBuilder::new(s.src.1, s.dst.1, s.seq);
    if s.flags & ACK != 0 {
        b = b.ack(s.ack);
    }
    if s.flags & SYN != 0 {
        b = b.syn();
    }
    if s.flags & RST != 0 {
        b = b.rst();
    }
    if s.flags & FIN != 0 {
        b = b.fin();
    }
    if s.flags & PSH != 0 {
        b = b.psh();
    }
    let h = b.wnd(4096).build(sa, da, text.iter().cloned(), text.len()).unwrap();
    let mut body = h.serialize();
    body.extend_from_slice(&text);
    let mut f = ipv4::verif::build_ipv4_header(sa, da, 6, body.len() as u16, Default::default(), 0, 0, Default::default()).unwrap();
    f.extend(body);
    f
}

async fn settle(paused: bool, lat_us: u64, factor: u64) {
    if paused {
        // the first segments of a new session leave after its first 5 ms tick: a handshake needs ~10 ms + 3 latencies
        tokio::time::sleep(Duration::from_micros(12_000 + 4 * lat_us)).await;
        for _ in 0..200 {
            let a = ACTIVITY.load(SeqCst);
            for _ in 0..6 {
                tokio::task::yield_now().await;
            }
            let done = DLV.load(SeqCst) == EXPECT_DLV.load(SeqCst);
            if done && ACTIVITY.load(SeqCst) == a {
                return;
            }
            if !done {
                tokio::time::sleep(Duration::from_micros(500)).await;
            }
        }
        log("anom settle did not converge".into());
    } else {
        tokio::time::sleep(Duration::from_micros(30_000 * factor + 4 * lat_us)).await;
        let mut stable = 0;
        let mut last = ACTIVITY.load(SeqCst);
        for _ in 0..400 {
            tokio::time::sleep(Duration::from_millis(2 * factor)).await;
            let a = ACTIVITY.load(SeqCst);
            if a == last && DLV.load(SeqCst) == EXPECT_DLV.load(SeqCst) {
                stable += 1;
            } else {
                stable = 0;
            }
            last = a;
            if stable >= 2 {
                return;
            }
        }
        log("anom settle did not converge".into());
    }
}

fn child(case_line: &str) -> ! {
    let case = Case::parse(case_line);
    let factor: u64 = std::env::var("C03_SETTLE").ok().and_then(|s| s.parse().ok()).unwrap_or(1);
    elvis_core::network::verif::install(Arc::new(Obs));
    let flavor = if case.flavor == 0 { Flavor::CurrentPaused } else { Flavor::Multi(case.flavor) };
    let paused = case.flavor == 0;
    let out = block_on(flavor, async move {
        start_clock();
        let mut nb = NetworkBuilder::new();
        if case.lat_us > 0 {
            nb = nb.latency(Latency::constant(Duration::from_micros(case.lat_us)));
        }
        let network = nb.build();
        let nm = case.machines.len();
        NTAPS.store(nm, SeqCst);
        let mut machines = vec![];
        for (i, mc) in case.machines.iter().enumerate() {
            let table: IpTable<Recipient> = mc.routes.iter().map(|(a, mac)| (Ipv4Address::from(*a), Recipient::new(0, if *mac < 0 { None } else { Some(*mac as u64) }))).collect();
            let mut mach = Machine::new().with(Tcp::new()).with(Ipv4::new(table)).with(Pci::new([network.clone()])).with(Rec::<0> { m: i });
            if mc.napps > 1 {
                mach = mach.with(Rec::<1> { m: i });
            }
            if mc.napps > 2 {
                mach = mach.with(Rec::<2> { m: i });
            }
            if mc.napps > 3 {
                mach = mach.with(Rec::<3> { m: i });
            }
            let mach = mach.arc();
            let macs: Vec<u64> = mach.protocol::<Pci>().unwrap().mac_addresses().collect();
            if macs != vec![i as u64] {
                log(format!("anom machine {} owns macs {:?}", i, macs));
            }
            machines.push(mach);
        }
        let ms = machines.clone();
        tokio::spawn(async move { run_internet(&ms, None).await });
        while STARTED.load(SeqCst) < nm {
            STARTED_NOTIFY.notified().await;
        }
        let mut sessions: HashMap<usize, Arc<dyn Session>> = HashMap::new();
        for (k, (step, st)) in case.steps.iter().enumerate() {
            ACTIVITY.fetch_add(1, SeqCst);
            match step {
                Step::L { m, app, ep } => {
                    let r = machines[*m].protocol::<Tcp>().unwrap().listen(rec_tid(*app), Endpoint::new(Ipv4Address::from(ep.0), ep.1), machines[*m].clone());
                    let code = match r {
                        Ok(()) => 0,
                        Err(tcp::ListenError::Existing(_)) => 1,
                        Err(tcp::ListenError::Ipv4(_)) => 2,
                    };
                    log(format!("L{}:{}", k, code));
                }
                Step::O { m, app, local, remote } => {
                    let eps = Endpoints::new(Endpoint::new(Ipv4Address::from(local.0), local.1), Endpoint::new(Ipv4Address::from(remote.0), remote.1));
                    let r = machines[*m].protocol::<Tcp>().unwrap().open(rec_tid(*app), eps, machines[*m].clone()).await;
                    let code = match r {
                        Ok(s) => {
                            sessions.insert(k, s);
                            0
                        }
                        Err(tcp::OpenError::Existing(_)) => 1,
                        Err(tcp::OpenError::Ipv4(ipv4::OpenAndListenError::Listen(_))) => 2,
                        Err(tcp::OpenError::Ipv4(ipv4::OpenAndListenError::Open(ipv4::OpenError::UnknownRecipient(_)))) => 3,
                        Err(tcp::OpenError::Ipv4(ipv4::OpenAndListenError::Open(ipv4::OpenError::ArpFailure(_)))) => 4,
                    };
                    log(format!("O{}:{}", k, code));
                }
                Step::S { k: ko, len, seed } => {
                    log(format!("S{}", k));
                    if let (Some(s), Some((Step::O { m, .. }, _))) = (sessions.get(ko), case.steps.get(*ko)) {
                        let _ = s.send(Message::new(pattern(*seed, *len)), machines[*m].clone());
                    }
                }
                Step::I { m, to, seg, seed } => {
                    log(format!("I{}", k));
                    let pci = machines[*m].protocol::<Pci>().unwrap().open(0);
                    let r = pci.send_pci(Message::new(raw_frame(seg, *seed)), if *to < 0 { None } else { Some(*to as u64) }, TypeId::of::<Ipv4>());
                    if r.is_err() {
                        log("anom injection refused by the link".into());
                    }
                }
            }
            if *st {
                settle(paused, case.lat_us, factor).await;
            }
        }
        settle(paused, case.lat_us, factor).await;
        FROZEN.store(true, SeqCst);
        Vec::<String>::new()
    });
    child_finish(&out)
}

// ------------------------------------------------------------------ parent: trace, oracle

#[derive(Clone, Debug)]
enum Ev {
    L(usize, i64),
    O(usize, i64),
    S(usize),
    I(usize),
    F(usize, i64, Seg),
    A(usize, i64, Seg),
    N(usize, usize, Ep, Ep),
    B(usize, usize, Ep, Ep, usize),
}

fn parse_seg(p: &[&str]) -> Option<Seg> {
    if p.len() != 8 {
        return None;
    }
    Some(Seg { src: (p[0].parse().ok()?, p[1].parse().ok()?), dst: (p[2].parse().ok()?, p[3].parse().ok()?), flags: p[4].parse().ok()?, seq: p[5].parse().ok()?, ack: p[6].parse().ok()?, tlen: p[7].parse().ok()? })
}

fn parse_event(e: &str) -> Option<Ev> {
    let p: Vec<&str> = e.split(':').collect();
    let head = p[0];
    let n = |i: usize| -> Option<i64> { p.get(i)?.parse().ok() };
    match head.chars().next()? {
        'L' if head.len() > 1 => Some(Ev::L(head[1..].parse().ok()?, n(1)?)),
        'O' if head.len() > 1 => Some(Ev::O(head[1..].parse().ok()?, n(1)?)),
        'S' if head.len() > 1 => Some(Ev::S(head[1..].parse().ok()?)),
        'I' if head.len() > 1 => Some(Ev::I(head[1..].parse().ok()?)),
        'F' => Some(Ev::F(n(1)? as usize, n(2)?, parse_seg(&p[3..])?)),
        'A' if p.len() == 11 => Some(Ev::A(n(1)? as usize, n(2)?, parse_seg(&p[3..11])?)),
        'N' if p.len() == 7 => Some(Ev::N(n(1)? as usize, n(2)? as usize, (n(3)? as u32, n(4)? as u16), (n(5)? as u32, n(6)? as u16))),
        'B' if p.len() == 8 => Some(Ev::B(n(1)? as usize, n(2)? as usize, (n(3)? as u32, n(4)? as u16), (n(5)? as u32, n(6)? as u16), n(7)? as usize)),
        _ => None,
    }
}

fn ipstr(a: u32) -> String {
    let b = a.to_be_bytes();
    format!("{}.{}.{}.{}", b[0], b[1], b[2], b[3])
}
fn flagstr(f: u8) -> String {
    let mut s = String::new();
    for (b, n) in [(SYN, "SYN"), (ACK, "ACK"), (RST, "RST"), (FIN, "FIN"), (PSH, "PSH")] {
        if f & b != 0 {
            if !s.is_empty() {
                s.push('|');
            }
            s.push_str(n);
        }
    }
    if s.is_empty() {
        s.push_str("none");
    }
    s
}
fn segstr(s: &Seg) -> String {
    format!("[{}:{} -> {}:{} {} seq {} ack {} text {}]", ipstr(s.src.0), s.src.1, ipstr(s.dst.0), s.dst.1, flagstr(s.flags), s.seq, s.ack, s.tlen)
}

#[derive(Clone, Debug)]
struct SessInfo {
    app: usize,
    /// Some(irs) when created from a listen binding
    irs: Option<u32>,
    synack_seq: Option<u32>,
    notified: bool,
    /// a segment arrived for the pair after the session existed (it may have reset the session)
    disturbed: bool,
}

/// The property's own predicate, computed from the case and the trace only:
///  * a second open of a pair is refused; a first open with a route succeeds;
///  * a segment for a pair that has a session never provokes a demux-level reply and never a second session
///    (all SYN-ACKs of the pair carry one initial sequence number);
///  * a SYN (without ACK / RST) to a bound port - exact binding first, else 0.0.0.0 - creates the session of
///    (local = destination, remote = source): it answers SYN-ACK with ack = seq + 1, and its notifications and
///    bytes go to the application the binding named at that moment;
///  * RST segments are ignored, ACK segments to a listening port are answered by exactly one RST (seq = their ack);
///  * without a binding: no session; at most one reply, the text-free RST of RFC 9293 3.10.7.1 sent to the
///    interface the segment came from;
///  * machines emit nothing else.
fn oracle(case: &Case, evs: &[Ev]) -> Result<(), String> {
    let nm = case.machines.len();
    let mut listen: Vec<HashMap<Ep, usize>> = vec![HashMap::new(); nm];
    let mut sess: Vec<HashMap<(Ep, Ep), SessInfo>> = vec![HashMap::new(); nm];
    // replies owed: (machine, to, segment, mandatory)
    let mut owed: Vec<(usize, i64, Seg, bool)> = vec![];
    let mut injected: Vec<(usize, i64, Seg)> = vec![];
    for ev in evs {
        match ev {
            Ev::L(k, code) => {
                if let Some((Step::L { m, app, ep }, _)) = case.steps.get(*k) {
                    stat(&format!("listen code {}", code));
                    stat(if listen[*m].contains_key(ep) { "listen: endpoint bound before (overwritten)" } else if ep.0 == ANY { "listen: wildcard" } else { "listen: exact" });
                    if *code != 0 {
                        return Err(format!("step {}: Tcp::listen returned code {}", k, code));
                    }
                    listen[*m].insert(*ep, *app);
                }
            }
            Ev::O(k, code) => {
                if let Some((Step::O { m, app, local, remote }, _)) = case.steps.get(*k) {
                    stat(&format!("open code {}", code));
                    let pair = (*local, *remote);
                    let want = if sess[*m].contains_key(&pair) {
                        1
                    } else if case.route(*m, local.0).is_none() {
                        3
                    } else {
                        0
                    };
                    if *code != want {
                        return Err(format!("step {}: Tcp::open of {}:{} -> {}:{} on machine {} returned code {} (expected {})", k, ipstr(local.0), local.1, ipstr(remote.0), remote.1, m, code, want));
                    }
                    if *code == 0 {
                        sess[*m].insert(pair, SessInfo { app: *app, irs: None, synack_seq: None, notified: false, disturbed: false });
                    }
                }
            }
            Ev::S(_) => {}
            Ev::I(k) => {
                if let Some((Step::I { m, to, seg, .. }, _)) = case.steps.get(*k) {
                    injected.push((*m, if *to < 0 { -3 } else { *to }, seg.clone()));
                }
            }
            Ev::F(m, to, s) => {
                let pair = (s.src, s.dst);
                if let Some(i) = injected.iter().position(|x| x.0 == *m && x.1 == *to && x.2 == *s) {
                    injected.swap_remove(i);
                } else if let Some(info) = sess[*m].get_mut(&pair) {
                    stat("frame of a session");
                    if s.flags & (SYN | ACK) == (SYN | ACK) {
                        if let Some(q) = info.synack_seq {
                            if q != s.seq {
                                return Err(format!("machine {}: two SYN-ACKs with different initial sequence numbers ({} and {}) for one endpoint pair {}: a second session was created", m, q, s.seq, segstr(s)));
                            }
                        }
                        info.synack_seq = Some(s.seq);
                        if let Some(irs) = info.irs {
                            if s.ack != irs.wrapping_add(1) {
                                return Err(format!("machine {}: SYN-ACK {} does not acknowledge the SYN (seq {}) that created the session", m, segstr(s), irs));
                            }
                        }
                    }
                } else if let Some(i) = owed
                    .iter()
                    .position(|x| x.3 && x.0 == *m && x.1 == *to && x.2 == *s)
                    .or_else(|| owed.iter().position(|x| x.0 == *m && x.1 == *to && x.2 == *s))
                {
                    stat(if owed[i].3 { "reply: RST from a listening port" } else { "reply: RST from a closed port" });
                    owed.swap_remove(i);
                } else {
                    let near = owed.iter().find(|x| x.0 == *m && x.2.src == s.src && x.2.dst == s.dst);
                    return Err(match near {
                        Some(x) => format!("machine {} sent {} to MAC {}; RFC 9293 3.10.7.1/3.10.7.2 prescribes {} to MAC {}", m, segstr(s), to, segstr(&x.2), x.1),
                        None => format!("machine {} sent {} although it has neither a session for that pair nor owes a reply", m, segstr(s)),
                    });
                }
            }
            Ev::A(m, from, s) => {
                let pair = (s.dst, s.src);
                if let Some(info) = sess[*m].get_mut(&pair) {
                    stat("arrival: existing session");
                    info.disturbed = true;
                    continue;
                }
                let exact = listen[*m].get(&s.dst).copied();
                let wild = listen[*m].get(&(ANY, s.dst.1)).copied();
                let rst_to_ack = Seg { src: s.dst, dst: s.src, flags: RST, seq: s.ack, ack: 0, tlen: 0 };
                match exact.or(wild) {
                    Some(app) => {
                        if exact.is_some() && wild.is_some() && s.dst.0 != ANY {
                            stat("arrival: exact binding wins over wildcard");
                        }
                        if s.flags & RST != 0 {
                            stat("arrival: RST to a listening port (ignored)");
                        } else if s.flags & ACK != 0 {
                            stat("arrival: ACK to a listening port (reset)");
                            owed.push((*m, *from, rst_to_ack, true));
                        } else if s.flags & SYN != 0 {
                            stat(if exact.is_some() { "arrival: SYN creates a session (exact binding)" } else { "arrival: SYN creates a session (wildcard binding)" });
                            sess[*m].insert(pair, SessInfo { app, irs: Some(s.seq), synack_seq: None, notified: false, disturbed: false });
                        } else {
                            stat("arrival: other segment to a listening port (ignored)");
                        }
                    }
                    None => {
                        if s.flags & RST != 0 {
                            stat("arrival: RST to a closed port (ignored)");
                        } else if s.flags & ACK != 0 {
                            stat("arrival: ACK segment to a closed port");
                            owed.push((*m, *from, rst_to_ack, false));
                        } else {
                            stat(if s.flags & (SYN | FIN) != 0 { "arrival: SYN/FIN without ACK to a closed port" } else { "arrival: plain segment to a closed port" });
                            // SEG.LEN counts SYN and FIN (RFC 9293 3.4)
                            let seglen = s.tlen as u32 + (s.flags & SYN != 0) as u32 + (s.flags & FIN != 0) as u32;
                            owed.push((*m, *from, Seg { src: s.dst, dst: s.src, flags: RST | ACK, seq: 0, ack: s.seq.wrapping_add(seglen), tlen: 0 }, false));
                        }
                    }
                }
            }
            Ev::N(m, app, local, remote) => {
                stat("NewConnection notification");
                match sess[*m].get_mut(&(*local, *remote)) {
                    None => return Err(format!("machine {}: NewConnection for {}:{} <-> {}:{} without a session", m, ipstr(local.0), local.1, ipstr(remote.0), remote.1)),
                    Some(info) => {
                        if info.app != *app {
                            return Err(format!("machine {}: NewConnection for {}:{} <-> {}:{} went to app {} but the session belongs to app {}", m, ipstr(local.0), local.1, ipstr(remote.0), remote.1, app, info.app));
                        }
                        if info.notified {
                            return Err(format!("machine {}: second NewConnection for one endpoint pair", m));
                        }
                        info.notified = true;
                    }
                }
            }
            Ev::B(m, app, local, remote, _len) => {
                stat("bytes delivered");
                match sess[*m].get(&(*local, *remote)) {
                    None => return Err(format!("machine {}: bytes for {}:{} <-> {}:{} without a session", m, ipstr(local.0), local.1, ipstr(remote.0), remote.1)),
                    Some(info) if info.app != *app => return Err(format!("machine {}: bytes of {}:{} <-> {}:{} went to app {} but the session belongs to app {}", m, ipstr(local.0), local.1, ipstr(remote.0), remote.1, app, info.app)),
                    _ => {}
                }
            }
        }
    }
    if let Some(x) = owed.iter().find(|x| x.3) {
        return Err(format!("machine {} never sent the reset {} it owes for an ACK segment to a listening port", x.0, segstr(&x.2)));
    }
    for (m, t) in sess.iter().enumerate() {
        for (pair, info) in t {
            if info.irs.is_some() && info.synack_seq.is_none() && !info.disturbed {
                return Err(format!("machine {}: the session created for {}:{} <-> {}:{} never answered SYN-ACK", m, ipstr(pair.0 .0), pair.0 .1, ipstr(pair.1 .0), pair.1 .1));
            }
            if info.notified {
                stat(if info.irs.is_some() { "connection established (passive side)" } else { "connection established (active side)" });
            }
        }
    }
    Ok(())
}

// ------------------------------------------------------------------ generator

fn pick_w<T: Copy>(rng: &mut Rng, xs: &[(T, u64)]) -> T {
    let total: u64 = xs.iter().map(|x| x.1).sum();
    let mut r = rng.below(total);
    for (x, w) in xs {
        if r < *w {
            return *x;
        }
        r -= *w;
    }
    xs[0].0
}

fn gen_case(rng: &mut Rng, _idx: usize) -> Case {
    let nm = 2 + rng.below(3) as usize;
    let lat_us = pick_w(rng, &[(0u64, 3), (300, 1), (1500, 1)]);
    let mut machines: Vec<MCfg> = vec![];
    for i in 0..nm {
        let mut routes = vec![];
        for k in [1u8, 2] {
            let j = rng.below(nm as u64) as i64;
            routes.push((own(i, k), pick_w(rng, &[(-1i64, 5), (j, 4), (9, 1)])));
        }
        machines.push(MCfg { napps: 1 + rng.below(4) as usize, routes });
    }
    let port = |rng: &mut Rng| -> u16 {
        if rng.coin(3, 4) {
            *rng.pick(&[80u16, 443, 8080, 0, 65535])
        } else {
            rng.below(65536) as u16
        }
    };
    let u32v = |rng: &mut Rng| -> u32 { pick_w(rng, &[(0u32, 1), (u32::MAX, 1), (0x7fff_ffff, 1), (rng.clone().u32(), 6)]) };
    let flags = |rng: &mut Rng| -> u8 {
        pick_w(rng, &[(SYN, 40), (ACK, 14), (RST, 9), (SYN | ACK, 8), (FIN, 4), (0u8, 4), (RST | ACK, 5), (PSH | ACK, 6), (FIN | ACK, 3), (SYN | FIN, 2), (SYN | RST, 2), (SYN | PSH, 3)])
    };
    let nsteps = 4 + rng.below(11) as usize;
    let mut steps: Vec<(Step, bool)> = vec![];
    let mut bound: Vec<(usize, Ep)> = vec![]; // (machine, endpoint) of earlier listens
    let mut pairs: Vec<(usize, Ep, Ep)> = vec![]; // (machine, local, remote) that may have a session
    let mut opens: Vec<usize> = vec![];
    let mut next_port = 30000u16 + rng.below(20000) as u16;
    // Preamble (40% of the cases): the constellations the property is about, built on purpose.
    //  A: exact and wildcard binding of ONE port by two applications; two spoofed SYNs from one address (two remote
    //     ports) to the exact endpoint; a real client to the exact endpoint and one to another address of the
    //     machine (served by the wildcard), each sending bytes - the application that gets NewConnection / bytes tells
    //     which binding was used;
    //  B: an exact binding only, a second address of the machine accepted through a binding of another port, and a SYN
    //     to that second address with the bound port - it must meet a closed port.
    if nm >= 2 && rng.coin(2, 5) {
        let j = rng.below(nm as u64) as usize;
        let i = (j + 1 + rng.below(nm as u64 - 1) as usize) % nm;
        let p0 = port(rng);
        let (a, b) = (rng.below(machines[j].napps as u64) as usize, (machines[j].napps - 1).min(1 + rng.below(3) as usize));
        let exact: Ep = (own(j, 1), p0);
        let variant_a = rng.coin(3, 5);
        let mut ls = vec![Step::L { m: j, app: a, ep: exact }];
        if variant_a {
            ls.push(Step::L { m: j, app: b, ep: (ANY, p0) });
            if rng.coin(1, 2) {
                ls.swap(0, 1);
            }
        } else {
            let q = port(rng);
            ls.push(Step::L { m: j, app: b, ep: (own(j, 2), if q == p0 { q.wrapping_add(1) } else { q }) });
        }
        for l in ls {
            if let Step::L { m, ep, .. } = &l {
                bound.push((*m, *ep));
            }
            steps.push((l, true));
        }
        let to_j = j as i64;
        let sa = spoof(1);
        let (p1, p2) = (port(rng), port(rng).wrapping_add(17));
        for sp in [p1, p2] {
            let seg = Seg { src: (sa, sp), dst: exact, flags: SYN, seq: u32v(rng), ack: 0, tlen: 0 };
            pairs.push((j, exact, (sa, sp)));
            steps.push((Step::I { m: i, to: to_j, seg, seed: 0 }, rng.coin(1, 2)));
        }
        let other: Ep = (own(j, 2), p0);
        if !variant_a {
            let seg = Seg { src: (sa, port(rng)), dst: other, flags: SYN, seq: u32v(rng), ack: 0, tlen: 0 };
            steps.push((Step::I { m: i, to: to_j, seg, seed: 0 }, true));
        }
        // real clients on machine i; their frames must reach machine j
        for r in machines[i].routes.iter_mut() {
            if r.1 != to_j {
                r.1 = -1;
            }
        }
        let capp = rng.below(machines[i].napps as u64) as usize;
        for remote in [exact, other] {
            next_port = next_port.wrapping_add(1);
            let local = (own(i, 1 + rng.below(2) as u8), next_port);
            pairs.push((i, local, remote));
            opens.push(steps.len());
            steps.push((Step::O { m: i, app: capp, local, remote }, true));
            steps.push((Step::S { k: steps.len() - 1, len: 1 + rng.below(200) as usize, seed: rng.below(256) }, true));
        }
    }
    let base = steps.len();
    for k in base..base + nsteps {
        let kind = if k < base + 2 && rng.coin(1, 2) { 0 } else { pick_w(rng, &[(0u8, 20), (1, 20), (2, 50), (3, 10)]) };
        let settle = rng.coin(4, 5);
        match kind {
            0 => {
                let m = rng.below(nm as u64) as usize;
                let app = rng.below(machines[m].napps as u64) as usize;
                let again: Vec<Ep> = bound.iter().filter(|b| b.0 == m).map(|b| b.1).collect();
                let ep = if !again.is_empty() && rng.coin(15, 100) {
                    *rng.pick(&again)
                } else {
                    let other = rng.below(nm as u64) as usize;
                    (pick_w(rng, &[(own(m, 1), 40), (own(m, 2), 12), (ANY, 33), (own(other, 1), 5), (spoof(1), 10)]), port(rng))
                };
                bound.push((m, ep));
                steps.push((Step::L { m, app, ep }, settle));
            }
            1 => {
                if !opens.is_empty() && rng.coin(1, 5) {
                    // the same client again: Existing
                    let ko = *rng.pick(&opens);
                    if let Step::O { m, local, remote, .. } = steps[ko].0.clone() {
                        let app = rng.below(machines[m].napps as u64) as usize;
                        opens.push(k);
                        steps.push((Step::O { m, app, local, remote }, settle));
                        continue;
                    }
                }
                let m = rng.below(nm as u64) as usize;
                let app = rng.below(machines[m].napps as u64) as usize;
                let la = if rng.coin(9, 10) { own(m, 1 + rng.below(2) as u8) } else { u32::from_be_bytes([10, 0, 250, m as u8]) };
                next_port = next_port.wrapping_add(1);
                let remote: Ep = match pick_w(rng, &[(0u8, 70), (1, 15), (2, 15)]) {
                    0 if !bound.is_empty() => {
                        let (j, e) = *rng.pick(&bound);
                        (if e.0 == ANY { own(j, 1 + rng.below(2) as u8) } else { e.0 }, e.1)
                    }
                    1 if !bound.is_empty() => {
                        let (j, e) = *rng.pick(&bound);
                        (if e.0 == ANY { own(j, 1) } else { e.0 }, port(rng))
                    }
                    _ => (spoof(7), port(rng)),
                };
                pairs.push((m, (la, next_port), remote));
                opens.push(k);
                steps.push((Step::O { m, app, local: (la, next_port), remote }, settle));
            }
            2 => {
                let m = rng.below(nm as u64) as usize;
                let (tm, src, dst): (usize, Ep, Ep) = match pick_w(rng, &[(0u8, 34), (1, 14), (2, 8), (3, 22), (4, 14), (5, 8)]) {
                    // a new pair to a bound endpoint
                    0 if !bound.is_empty() => {
                        let (j, e) = *rng.pick(&bound);
                        (j, (spoof(rng.below(4) as u8), port(rng)), (if e.0 == ANY { pick_w(rng, &[(own(j, 1), 3), (own(j, 2), 2), (spoof(9), 1), (ANY, 1)]) } else { e.0 }, e.1))
                    }
                    // a bound address, any port
                    1 if !bound.is_empty() => {
                        let (j, e) = *rng.pick(&bound);
                        (j, (spoof(rng.below(4) as u8), port(rng)), (if e.0 == ANY { own(j, 1) } else { e.0 }, port(rng)))
                    }
                    // an address the machine may not accept at all
                    2 => {
                        let j = rng.below(nm as u64) as usize;
                        (j, (spoof(2), port(rng)), (pick_w(rng, &[(own(j, 2), 2), (spoof(8), 2), (own(j, 1), 1)]), port(rng)))
                    }
                    // a pair that may already have a session: later segments of a connection
                    3 if !pairs.is_empty() => {
                        let (j, local, remote) = *rng.pick(&pairs);
                        (j, remote, local)
                    }
                    // the reverse direction of a client's pair: a forged answer to a client
                    4 if !pairs.is_empty() => {
                        let (j, local, remote) = *rng.pick(&pairs);
                        if rng.coin(1, 2) {
                            (j, remote, local)
                        } else {
                            (j, (remote.0, port(rng)), local)
                        }
                    }
                    _ => {
                        let j = rng.below(nm as u64) as usize;
                        (j, (own(m, 1), port(rng)), (own(j, 1), port(rng)))
                    }
                };
                // not the LAND segment (source endpoint = destination endpoint): the session it creates talks to
                // itself in an endless ACK exchange at one virtual instant (TCB behaviour, reported separately)
                let src = if src == dst { (src.0, port(rng).wrapping_add(1)) } else { src };
                let src = if src == dst { (spoof(6), src.1) } else { src };
                let f = flags(rng);
                let tlen = if f & PSH != 0 || rng.coin(1, 8) { 1 + rng.below(20) as usize } else { 0 };
                let seg = Seg { src, dst, flags: f, seq: u32v(rng), ack: if f & ACK != 0 { u32v(rng) } else { 0 }, tlen };
                if f & SYN != 0 && f & (ACK | RST) == 0 {
                    pairs.push((tm, dst, src));
                }
                let to = pick_w(rng, &[(tm as i64, 80), (-1i64, 15), (rng.clone().below(nm as u64) as i64, 5)]);
                steps.push((Step::I { m, to, seg, seed: rng.below(256) }, settle));
            }
            _ => {
                if opens.is_empty() {
                    steps.push((Step::L { m: 0, app: 0, ep: (own(0, 1), port(rng)) }, settle));
                    bound.push((0, match &steps[k].0 { Step::L { ep, .. } => *ep, _ => unreachable!() }));
                } else {
                    steps.push((Step::S { k: *rng.pick(&opens), len: 1 + rng.below(300) as usize, seed: rng.below(256) }, settle));
                }
            }
        }
    }
    let mut flavor = if rng.coin(8, 100) { *rng.pick(&[2usize, 4]) } else { 0 };
    if rng.coin(8, 100) {
        // shard probe (regression of b7a73ede): a SYN whose destination endpoint shares a DashMap shard with
        // (0.0.0.0, port) and has no exact binding - the wildcard address itself (always) or an address/port pair
        // found by asking a real FxDashMap; it must be processed like any other segment
        if rng.coin(1, 2) {
            flavor = 0;
        }
        let (j, e) = if bound.is_empty() { (0, (own(0, 1), 80)) } else { *rng.pick(&bound) };
        let taken = |q: Ep| bound.iter().any(|b| b.0 == j && b.1 == q);
        let dst: Option<Ep> = if rng.coin(1, 2) {
            (1..2000u16).map(|d| (ANY, e.1.wrapping_add(d))).find(|q| !taken(*q))
        } else {
            let a = if e.0 == ANY { own(j, 1 + rng.below(2) as u8) } else { e.0 };
            let start = rng.below(65536) as u16;
            (0..=65535u16).map(|d| (a, start.wrapping_add(d))).find(|q| collides(*q) && !taken(*q))
        };
        if let Some(dst) = dst {
            let seg = Seg { src: (spoof(5), port(rng)), dst, flags: SYN, seq: u32v(rng), ack: 0, tlen: 0 };
            let at = rng.range(1, steps.len() as u64) as usize;
            // indices of earlier O steps referenced by S steps stay valid only if we append after them: append at the end
            let _ = at;
            steps.push((Step::I { m: rng.below(nm as u64) as usize, to: j as i64, seg, seed: 0 }, true));
        }
    }
    Case { flavor, lat_us, machines, steps }
}

struct C03c;
impl Family for C03c {
    fn gen(rng: &mut Rng, idx: usize) -> String {
        gen_case(rng, idx).render()
    }

    fn realtime(case: &str) -> bool {
        Case::parse(case).flavor != 0
    }

    fn run(case_line: &str) -> Outcome {
        let case = Case::parse(case_line);
        stat(if case.flavor == 0 { "runtime current_thread paused" } else { "runtime multi_thread" });
        stat(&format!("machines {}", case.machines.len()));
        for (s, _) in &case.steps {
            stat(match s {
                Step::L { .. } => "step listen",
                Step::O { .. } => "step open",
                Step::S { .. } => "step send",
                Step::I { seg, .. } => match seg.flags {
                    f if f & RST != 0 => "step inject RST*",
                    f if f == SYN => "step inject SYN",
                    f if f & SYN != 0 && f & ACK != 0 => "step inject SYN|ACK",
                    f if f & SYN != 0 => "step inject SYN+other",
                    f if f & ACK != 0 => "step inject ACK*",
                    _ => "step inject other",
                },
            });
        }
        let attempts = if case.flavor == 0 { 1 } else { 3 };
        let mut last: Option<Outcome> = None;
        for k in 0..attempts {
            std::env::set_var("C03_SETTLE", if k == 0 { "1" } else { "4" });
            let r = run_child(case_line, Duration::from_secs(if case.flavor == 0 { 12 } else { 40 }));
            let hung = r.timed_out;
            if !r.clean && !hung {
                let tail: String = r.stderr_tail.replace('\n', " ");
                let short: String = tail.chars().take(400).collect();
                stat("child crashed");
                return Outcome {
                    impl_line: format!("CRASH exit={:?}", r.exit_code),
                    oracle: Oracle::Fail(format!("the simulation crashed (exit {:?}) after {} events; stderr: {}", r.exit_code, r.events.len(), short)),
                };
            }
            if hung && r.events.len() <= 6000 {
                stat("child hung");
                let last: Vec<String> = r.events.iter().rev().take(3).map(|e| e.1.clone()).collect();
                return Outcome {
                    impl_line: "CRASH hang".into(),
                    oracle: Oracle::Fail(format!("the simulation hung (killed after the wall-clock limit of a virtual-time script); last events, newest first: {:?}", last)),
                };
            }
            let mut anomalies = 0usize;
            let mut evs = vec![];
            let mut toks: Vec<String> = vec![];
            let mut first_anom = String::new();
            if hung && r.events.len() > 6000 {
                stat("child spun (livelock)");
                return Outcome {
                    impl_line: format!("CRASH livelock events={}", r.events.len()),
                    oracle: Oracle::Fail(format!("the simulation did not advance: {} events in 12 s of wall time without reaching the end of a virtual-time script; last events: {:?}", r.events.len(), r.events.iter().rev().take(2).map(|e| e.1.clone()).collect::<Vec<_>>())),
                };
            }
            for (_, e) in &r.events {
                match parse_event(e) {
                    Some(ev) => {
                        evs.push(ev);
                        toks.push(e.clone());
                    }
                    None => {
                        if first_anom.is_empty() {
                            first_anom = e.clone();
                        }
                        anomalies += 1;
                    }
                }
            }
            toks.push(format!("X={}", anomalies));
            let line = toks.join(" ");
            let verdict = if anomalies > 0 { Err(format!("anomaly: {}", first_anom)) } else { oracle(&case, &evs) };
            match verdict {
                Ok(()) => return Outcome { impl_line: line, oracle: Oracle::Ok },
                Err(msg) => {
                    let o = Oracle::Fail(msg.clone());
                    if k + 1 < attempts {
                        stat("multi_thread run repeated after a failed oracle");
                        let short: String = msg.chars().filter(|c| !c.is_ascii_digit()).take(70).collect();
                        stat(&format!("multi_thread first failure: {}", short));
                    }
                    last = Some(Outcome { impl_line: line, oracle: o });
                }
            }
        }
        last.unwrap()
    }
}

fn main() {
    if let Some(case) = child_case() {
        child(&case);
    }
    main_loop::<C03c>();
}
