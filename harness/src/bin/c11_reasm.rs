//! C11: lock-step of `Reassembly::receive_packet` / `maybe_cull_segment` against the extracted
//! Coq model, plus the property oracle (an independent byte-map reference).
//!
//! case  = events separated by ';'
//!   R src dst proto id fo flags tl ihl ttl tos ck payloadhex
//!   C src dst proto id ref delta   cull with epoch = (epoch handed out by event #ref) + delta
//!                                  (ref = -1: epoch = delta; clamped at 0)
//! result = one item per event separated by ';'
//!   C ihl tos tl id fo flags ttl proto ck src dst payloadhex | I timeout epoch | c nbuffers present | PANIC
use elvis_core::protocols::ipv4::fragmentation::{fragment, Fragments};
use elvis_core::protocols::ipv4::ipv4_parsing::{ControlFlags, Ipv4Header, TypeOfService};
use elvis_core::protocols::ipv4::verif::{BufId, Epoch, Reassembly, ReceivePacketResult};
use elvis_core::protocols::ipv4::Ipv4Address;
use elvis_core::Message;
use elvis_verif_harness::*;
use std::collections::HashMap;
use std::panic::{catch_unwind, AssertUnwindSafe};

struct Reasm;

#[derive(Clone)]
struct Fr {
    h: Ipv4Header,
    body: Vec<u8>,
}

fn mk_header(src: u32, dst: u32, proto: u8, id: u16, fo: u16, flags: u8, tl: u16, ihl: u8, ttl: u8, tos: u8, ck: u16) -> Ipv4Header {
    Ipv4Header {
        ihl,
        type_of_service: TypeOfService::from(tos),
        total_length: tl,
        identification: id,
        fragment_offset: fo,
        flags: ControlFlags::from(flags),
        time_to_live: ttl,
        protocol: proto,
        checksum: ck,
        source: Ipv4Address::from(src),
        destination: Ipv4Address::from(dst),
    }
}

fn ev_of(f: &Fr) -> String {
    let h = &f.h;
    format!(
        "R {} {} {} {} {} {} {} {} {} {} {} {}",
        u32::from(h.source),
        u32::from(h.destination),
        h.protocol,
        h.identification,
        h.fragment_offset,
        h.flags.as_u8(),
        h.total_length,
        h.ihl,
        h.time_to_live,
        h.type_of_service.as_u8(),
        h.checksum,
        hex(&f.body)
    )
}

/// the real fragmentation procedure; a datagram that fits is passed through
fn real_fragment(f: &Fr, mtu: u16) -> Vec<Fr> {
    match fragment(f.h, Message::new(f.body.clone()), mtu) {
        Fragments::Fragmented(v) => v.into_iter().map(|(h, m)| Fr { h, body: m.to_vec() }).collect(),
        Fragments::DontFragment((h, m)) => vec![Fr { h, body: m.to_vec() }],
        Fragments::Discard => vec![f.clone()],
    }
}

/// one path through a chain of up to three decreasing MTUs >= 68; later hops refragment a
/// random subset of the pieces (pieces of one datagram may take different paths)
fn chain(rng: &mut Rng, dg: &Fr, max_frags: usize) -> Vec<Fr> {
    let len = dg.body.len();
    let lo_for = |len: usize| -> u64 {
        // keep the number of fragments bounded: (mtu-20)/8*8 * max_frags >= len
        let need = (len + max_frags - 1) / max_frags;
        (((need + 7) / 8 * 8 + 20) as u64).clamp(68, 65535)
    };
    let lo = lo_for(len);
    // mostly an MTU below the datagram's total length so that it is really fragmented
    let hi = ((len + 19) as u64).clamp(lo, 65535);
    let m1 = match rng.below(12) {
        0 | 1 => 68.max(lo),
        2 => 576.max(lo),
        3 => 1500.max(lo),
        4 => ((len + 20) as u64).clamp(lo, 65535), // fits exactly: not fragmented
        _ => rng.range(lo, hi),
    } as u16;
    stat(&format!("mtu_mod8_{}", (m1 - 20) % 8));
    let mut pieces = real_fragment(dg, m1);
    let mut m = m1;
    for _hop in 0..2 {
        if !rng.coin(1, 2) || m <= 68 {
            break;
        }
        let m2 = rng.range(68.max(lo_for(m as usize)), m as u64 - 1) as u16;
        let all = rng.coin(1, 2);
        let mut next = vec![];
        for p in &pieces {
            if all || rng.coin(1, 2) {
                next.extend(real_fragment(p, m2));
            } else {
                next.push(p.clone());
            }
        }
        pieces = next;
        m = m2;
        stat("refragmented_hop");
    }
    pieces
}

fn shuffle<T>(rng: &mut Rng, v: &mut Vec<T>) {
    for i in (1..v.len()).rev() {
        let j = rng.below(i as u64 + 1) as usize;
        v.swap(i, j);
    }
}

const LENS: [usize; 24] = [1, 8, 48, 49, 56, 57, 63, 64, 65, 96, 97, 100, 104, 144, 145, 480, 481, 556, 557, 1000, 1480, 1481, 2960, 2961];
const TTLS: [u8; 7] = [0, 1, 14, 15, 16, 64, 255];

fn structured(rng: &mut Rng) -> String {
    let nd = rng.range(1, 4) as usize;
    // 0: distinct keys, 1: colliding keys carry the same datagram again, 2: colliding keys one after
    // the other with different content, 3: colliding keys with different content interleaved
    let mode = match rng.below(8) { 0..=2 => 0, 3 | 4 => 1, 5 | 6 => 2, _ => 3 };
    let srcs = [0x0a00_0001u32, 0x0a00_0002];
    let dst = 0x0a00_00feu32;
    let mut seqs: Vec<Vec<Fr>> = vec![];
    let mut first: Option<Fr> = None;
    for d in 0..nd {
        let len = match rng.below(100) {
            0 => *rng.pick(&[65515usize, 65514, 65508, 20000]),
            1..=35 => *rng.pick(&LENS),
            36..=80 => rng.range(49, 600) as usize,
            _ => rng.range(1, 3000) as usize,
        };
        let big = len > 4000;
        let (src, proto, id) = if mode == 0 {
            (*rng.pick(&srcs), *rng.pick(&[6u8, 17]), d as u16)
        } else {
            (*rng.pick(&srcs), 17u8, 0u16) // the sender of elvis always uses identification 0
        };
        let h = mk_header(src, dst, proto, id, 0, 0, (20 + len) as u16, 5, *rng.pick(&TTLS), rng.below(256) as u8, rng.below(65536) as u16);
        let mut dg = Fr { h, body: rng.bytes(len) };
        if mode == 1 {
            if let Some(f) = &first {
                if rng.coin(2, 3) {
                    dg = f.clone();
                }
            }
        }
        if first.is_none() && !big {
            first = Some(dg.clone());
        }
        let max_frags = if big { 12 } else { 40 };
        let mut pieces = chain(rng, &dg, max_frags);
        // pieces of the same datagram that came through another chain (overlapping)
        if rng.coin(1, 3) && !big {
            let other = chain(rng, &dg, max_frags);
            let all = rng.coin(1, 2);
            for p in other {
                if all || rng.coin(1, 2) {
                    pieces.push(p);
                }
            }
            stat("overlapping_chain");
        }
        // lost fragments
        if rng.coin(1, 5) && pieces.len() > 1 {
            for _ in 0..rng.range(1, 2) {
                if pieces.len() > 1 {
                    let i = rng.below(pieces.len() as u64) as usize;
                    pieces.remove(i);
                }
            }
            stat("lost_fragment");
        }
        // order of arrival
        match rng.below(4) {
            0 => {}
            1 => pieces.reverse(),
            _ => shuffle(rng, &mut pieces),
        }
        // duplicated fragments
        let ndup = if big { 0 } else { rng.below(4) };
        for _ in 0..ndup {
            let i = rng.below(pieces.len() as u64) as usize;
            let p = pieces[i].clone();
            let at = rng.range(0, pieces.len() as u64) as usize;
            pieces.insert(at, p);
        }
        stat(&format!("dups_{}", ndup));
        stat(&format!("frags_{}", match pieces.len() { 1 => "1", 2..=3 => "2-3", 4..=10 => "4-10", _ => "11+" }));
        seqs.push(pieces);
    }
    stat(&format!("mode_{}", mode));
    // interleave; in mode 2 datagrams with the same key follow one another
    let mut events: Vec<Fr> = vec![];
    if mode == 2 {
        // group by key, concatenate inside a group, interleave groups
        let mut groups: Vec<(u32, Vec<Fr>)> = vec![];
        for s in seqs {
            let k = u32::from(s[0].h.source);
            if let Some(g) = groups.iter_mut().find(|g| g.0 == k) {
                g.1.extend(s);
            } else {
                groups.push((k, s));
            }
        }
        seqs = groups.into_iter().map(|g| g.1).collect();
    }
    let mut idx: Vec<usize> = vec![0; seqs.len()];
    loop {
        let live: Vec<usize> = (0..seqs.len()).filter(|&i| idx[i] < seqs[i].len()).collect();
        if live.is_empty() {
            break;
        }
        let i = *rng.pick(&live);
        // bursts keep some datagrams contiguous
        let burst = if rng.coin(1, 3) { seqs[i].len() } else { 1 };
        for _ in 0..burst {
            if idx[i] < seqs[i].len() {
                events.push(seqs[i][idx[i]].clone());
                idx[i] += 1;
            }
        }
    }
    // expiry callbacks
    let mut out: Vec<String> = events.iter().map(ev_of).collect();
    let ncull = rng.below(5);
    let mut culls: Vec<(usize, String)> = vec![]; // (insert after event index, text)
    for _ in 0..ncull {
        if events.is_empty() {
            break;
        }
        let r = rng.below(events.len() as u64) as usize;
        let h = &events[r].h;
        let (rf, delta) = match rng.below(10) {
            0 => (r as i64, 1i64),
            1 => (r as i64, -1),
            2 => (-1, rng.below(6) as i64),
            _ => (r as i64, 0),
        };
        let after = match rng.below(3) {
            0 => r,                                           // fires before anything else arrives
            _ => rng.range(r as u64, events.len() as u64 - 1) as usize, // some time later
        };
        culls.push((after, format!("C {} {} {} {} {} {}", u32::from(h.source), u32::from(h.destination), h.protocol, h.identification, rf, delta)));
    }
    // insert from the back so that indices of R events (used by ref) must be recomputed: instead of
    // shifting refs, culls are placed in a second pass with an index map
    culls.sort_by_key(|c| c.0);
    let mut merged: Vec<String> = vec![];
    let mut newidx: Vec<usize> = vec![0; out.len()];
    let mut ci = 0;
    let mut pending: Vec<String> = vec![];
    for (i, e) in out.drain(..).enumerate() {
        newidx[i] = merged.len();
        merged.push(e);
        while ci < culls.len() && culls[ci].0 == i {
            pending.push(culls[ci].1.clone());
            ci += 1;
        }
        for p in pending.drain(..) {
            merged.push(p);
        }
    }
    // rewrite refs to the merged numbering
    let merged: Vec<String> = merged
        .into_iter()
        .map(|e| {
            if e.starts_with("C ") {
                let mut t: Vec<String> = e.split(' ').map(|s| s.to_string()).collect();
                let rf: i64 = t[5].parse().unwrap();
                if rf >= 0 {
                    t[5] = newidx[rf as usize].to_string();
                }
                t.join(" ")
            } else {
                e
            }
        })
        .collect();
    merged.join(";")
}

/// malformed and contradictory fragments: every panic site of the model, ties in the heap with
/// different content, lengths that disagree with the header
fn hostile(rng: &mut Rng) -> String {
    let n = rng.range(1, 12) as usize;
    let mut evs: Vec<String> = vec![];
    let mut n_r = vec![];
    for i in 0..n {
        if rng.coin(1, 6) && !n_r.is_empty() {
            let r = *rng.pick(&n_r);
            let (rf, delta) = match rng.below(4) {
                0 => (-1i64, rng.below(4) as i64),
                1 => (r as i64, rng.range(0, 2) as i64 - 1),
                _ => (r as i64, 0),
            };
            evs.push(format!("C {} {} 17 {} {} {}", 0x0a00_0001u32, 0x0a00_00feu32, rng.below(2), rf, delta));
            continue;
        }
        n_r.push(i);
        let ihl = match rng.below(4) { 0 => rng.below(16) as u8, _ => 5 };
        let plen = match rng.below(4) { 0 => 0, 1 => 8 * rng.range(1, 4) as usize, _ => rng.range(0, 40) as usize };
        let fo = match rng.below(8) {
            0 => *rng.pick(&[8191u16, 8190, 8189, 57344, 65535, 8192]),
            1..=4 => rng.below(4) as u16,
            _ => rng.below(8) as u16,
        };
        let tl = match rng.below(8) {
            0 => rng.below(20) as u16,
            1 => *rng.pick(&[65535u16, 65534, 65529, 65528, 65527, 65521, 65520, 65516, 65515]),
            2 => (ihl as u16 * 4).wrapping_add(plen as u16).wrapping_add(rng.below(9) as u16),
            _ => ihl as u16 * 4 + plen as u16,
        };
        // total_length - ihl*4 + 7 beyond u16 (panic site 2) needs a header shorter than 8 octets
        let (ihl, tl) = if rng.coin(1, 16) { *rng.pick(&[(0u8, 65535u16), (1, 65535), (0, 65529), (0, 65528), (1, 65533), (1, 65532)]) } else { (ihl, tl) };
        let flags = match rng.below(6) { 0 => rng.below(8) as u8, 1 => 0, 2 => 2, 3 => 3, _ => 1 };
        let id = rng.below(2) as u16;
        let ttl = *rng.pick(&TTLS);
        evs.push(format!(
            "R {} {} 17 {} {} {} {} {} {} {} {} {}",
            0x0a00_0001u32, 0x0a00_00feu32, id, fo, flags, tl, ihl, ttl, rng.below(3), rng.below(3), hex(&rng.bytes(plen))
        ));
    }
    stat("stream_hostile");
    evs.join(";")
}

/// Key reuse: 2..3 keys whose buffers see different numbers of arrivals and are freed in a chosen
/// order (by completion, by an unfragmented datagram flushing them, or by their own expiry callback),
/// possibly twice; then a new datagram starts arriving under one or two of the keys, and after each
/// of its fragments EVERY callback armed so far (every epoch handed out for every key, all of them
/// stale by now) is fired.  A premature discard shows as a removed buffer and as a missed completion.
fn reuse(rng: &mut Rng) -> String {
    stat("stream_reuse");
    let nk = rng.range(2, 3) as usize;
    let dst = 0x0a00_00feu32;
    let srcs = [0x0a00_0001u32, 0x0a00_0002, 0x0a00_0003];
    let mut evs: Vec<String> = vec![];
    let mut recv_idx: Vec<usize> = vec![]; // event indices of all R events so far
    let cull = |f: &Fr, rf: usize| -> String {
        format!("C {} {} {} {} {} 0", u32::from(f.h.source), u32::from(f.h.destination), f.h.protocol, f.h.identification, rf)
    };
    let new_dgram = |rng: &mut Rng, k: usize| -> Fr {
        let len = rng.range(49, 240) as usize; // 2..5 fragments at MTU 68
        let h = mk_header(srcs[k], dst, 17, 0, 0, 0, (20 + len) as u16, 5, *rng.pick(&TTLS), rng.below(256) as u8, rng.below(65536) as u16);
        Fr { h, body: rng.bytes(len) }
    };
    let rounds = rng.range(1, 2);
    for _round in 0..rounds {
        // arrivals that do not free the buffer, and the event(s) that do
        let mut pre: Vec<Vec<Fr>> = vec![];
        let mut ending: Vec<(u64, Fr)> = vec![]; // (kind, packet)   kind 0 complete, 1 flush, 2 cull, 3 left
        // which key gets many arrivals
        let heavy = rng.below(nk as u64) as usize;
        for k in 0..nk {
            let dg = new_dgram(rng, k);
            let mut pieces = real_fragment(&dg, 68);
            shuffle(rng, &mut pieces);
            let last = pieces.pop().unwrap();
            if pieces.is_empty() {
                pieces.push(last.clone()); // cannot happen for len >= 49, kept for safety
            }
            // duplicates raise the epoch without completing
            let ndup = if k == heavy { rng.range(3, 7) } else { rng.below(2) };
            for _ in 0..ndup {
                let p = rng.pick(&pieces).clone();
                pieces.push(p);
            }
            let kind = match rng.below(10) { 0..=3 => 0, 4..=5 => 1, 6..=8 => 2, _ => 3 };
            let pkt = match kind {
                0 => last,
                1 => {
                    let blen = rng.range(1, 30) as usize;
                    let b = rng.bytes(blen);
                    Fr { h: mk_header(srcs[k], dst, 17, 0, 0, 0, (20 + b.len()) as u16, 5, 64, 0, 0), body: b }
                }
                _ => pieces[0].clone(),
            };
            stat(&format!("reuse_end_{}", ["complete", "flush", "cull", "left"][kind as usize]));
            pre.push(pieces);
            ending.push((kind, pkt));
        }
        // interleave the non-freeing arrivals
        let mut pos = vec![0usize; nk];
        let mut last_recv: Vec<Option<usize>> = vec![None; nk];
        loop {
            let live: Vec<usize> = (0..nk).filter(|&k| pos[k] < pre[k].len()).collect();
            if live.is_empty() {
                break;
            }
            let k = *rng.pick(&live);
            last_recv[k] = Some(evs.len());
            recv_idx.push(evs.len());
            evs.push(ev_of(&pre[k][pos[k]]));
            pos[k] += 1;
        }
        // free the buffers: the one with most arrivals first, last, or at random
        let mut order: Vec<usize> = (0..nk).collect();
        match rng.below(3) {
            0 => order.sort_by_key(|&k| std::cmp::Reverse(pre[k].len())),
            1 => order.sort_by_key(|&k| pre[k].len()),
            _ => shuffle(rng, &mut order),
        }
        stat(if order[0] == heavy { "reuse_heavy_freed_first" } else if order[nk - 1] == heavy { "reuse_heavy_freed_last" } else { "reuse_heavy_freed_mid" });
        for k in order {
            match ending[k].0 {
                0 | 1 => {
                    recv_idx.push(evs.len());
                    evs.push(ev_of(&ending[k].1));
                }
                2 => evs.push(cull(&ending[k].1, last_recv[k].unwrap())),
                _ => {}
            }
        }
    }
    // the keys come into use again
    let history: Vec<usize> = recv_idx.clone();
    let hist_keys: Vec<String> = history.iter().map(|&i| evs[i].clone()).collect();
    let mut reused: Vec<usize> = (0..nk).collect();
    shuffle(rng, &mut reused);
    reused.truncate(rng.range(1, 2) as usize);
    for &k in &reused {
        let dg = new_dgram(rng, k);
        let mut pieces = real_fragment(&dg, 68);
        shuffle(rng, &mut pieces);
        if rng.coin(1, 3) {
            let p = pieces[0].clone();
            pieces.insert(1, p);
        }
        let drop_last = rng.coin(1, 5);
        if drop_last {
            pieces.pop();
        }
        let mut mine: Vec<usize> = vec![];
        for p in &pieces {
            mine.push(evs.len());
            evs.push(ev_of(p));
            // every callback armed before the re-use, for every key, and the stale ones of this buffer
            for (hi, &rf) in history.iter().enumerate() {
                let t: Vec<&str> = hist_keys[hi].split(' ').collect();
                evs.push(format!("C {} {} {} {} {} 0", t[1], t[2], t[3], t[4], rf));
            }
            for &rf in &mine[..mine.len() - 1] {
                evs.push(cull(p, rf));
            }
        }
        if drop_last && rng.coin(1, 2) {
            // nothing more arrives: the genuine callback discards the buffer
            evs.push(cull(&pieces[0], *mine.last().unwrap()));
        }
        stat(if drop_last { "reuse_new_datagram_incomplete" } else { "reuse_new_datagram_completes" });
    }
    evs.join(";")
}

// ------------------------------------------------------------------ oracle

type Key = (u32, u32, u8, u16);

struct KeyState {
    /// octets received since the buffer was (re)started
    bytes: Vec<Option<u8>>,
    end: Option<usize>,
    max_extent: usize,
    mf_ends: Vec<usize>,
    /// fields every piece has to share: ihl tos id ttl proto ck src dst (flags & !1)
    fields: (u8, u8, u16, u8, u8, u16, u32, u32, u8),
    consistent: bool,
    max_ttl: u8,
    last_arrival: usize,
}

fn key_of(t: &[&str]) -> Key {
    (t[1].parse().unwrap(), t[2].parse().unwrap(), t[3].parse().unwrap(), t[4].parse().unwrap())
}

impl Family for Reasm {
    fn gen(rng: &mut Rng, idx: usize) -> String {
        match idx % 20 {
            4 | 9 | 14 | 19 => hostile(rng),
            1 | 5 | 8 | 12 | 16 => reuse(rng),
            _ => {
                stat("stream_structured");
                structured(rng)
            }
        }
    }

    fn run(case: &str) -> Outcome {
        let evs: Vec<&str> = case.split(';').collect();
        let mut reasm = Reassembly::new();
        let mut handed: Vec<Option<(BufId, Epoch)>> = vec![None; evs.len()];
        let mut items: Vec<String> = vec![];
        let mut oracle_state: HashMap<Key, KeyState> = HashMap::new();
        let mut fails: Vec<String> = vec![];
        let mut all_consistent = true;
        let mut panicked = false;
        for (idx, ev) in evs.iter().enumerate() {
            let t: Vec<&str> = ev.split_whitespace().collect();
            let key = key_of(&t);
            match t[0] {
                "R" => {
                    let p = |i: usize| -> u64 { t[i].parse().unwrap() };
                    let h = mk_header(key.0, key.1, key.2, key.3, p(5) as u16, p(6) as u8, p(7) as u16, p(8) as u8, p(9) as u8, p(10) as u8, p(11) as u16);
                    let body = unhex(t[12]);
                    let res = catch_unwind(AssertUnwindSafe(|| reasm.receive_packet(h, Message::new(body.clone()))));
                    let (fo, flags, tl, ihl, ttl) = (h.fragment_offset as usize, h.flags.as_u8(), h.total_length as usize, h.ihl as usize, h.time_to_live);
                    let mf = flags & 1 == 1;
                    // ---- oracle: what the property demands for this arrival
                    enum Expect {
                        Complete(Ipv4Header, Vec<u8>),
                        Incomplete(u8),
                        Unjudged,
                    }
                    let expect = if fo == 0 && !mf {
                        // an unfragmented datagram is handed up as it is and restarts its key
                        oracle_state.remove(&key);
                        stat("recv_whole_datagram");
                        Expect::Complete(h, body.clone())
                    } else {
                        let st = oracle_state.entry(key).or_insert_with(|| KeyState {
                            bytes: vec![],
                            end: None,
                            max_extent: 0,
                            mf_ends: vec![],
                            fields: (h.ihl, h.type_of_service.as_u8(), h.identification, ttl, h.protocol, h.checksum, key.0, key.1, flags & !1),
                            consistent: true,
                            max_ttl: 0,
                            last_arrival: idx,
                        });
                        st.last_arrival = idx;
                        st.max_ttl = st.max_ttl.max(ttl);
                        let start = fo * 8;
                        let fin = start + body.len();
                        let same = st.fields == (h.ihl, h.type_of_service.as_u8(), h.identification, ttl, h.protocol, h.checksum, key.0, key.1, flags & !1);
                        if !same || ihl < 5 || flags > 3 || tl != ihl * 4 + body.len() || body.is_empty() || (mf && body.len() % 8 != 0) || fin + ihl * 4 > 65535 {
                            st.consistent = false;
                        }
                        if st.consistent {
                            if st.bytes.len() < fin {
                                st.bytes.resize(fin, None);
                            }
                            for (i, b) in body.iter().enumerate() {
                                match st.bytes[start + i] {
                                    Some(x) if x != *b => st.consistent = false,
                                    _ => st.bytes[start + i] = Some(*b),
                                }
                            }
                            st.max_extent = st.max_extent.max(fin);
                            if mf {
                                st.mf_ends.push(fin);
                            } else {
                                match st.end {
                                    Some(e) if e != fin => st.consistent = false,
                                    _ => st.end = Some(fin),
                                }
                            }
                            if let Some(e) = st.end {
                                // nothing reaches past the end, and only the last piece ends there
                                if st.max_extent > e || st.mf_ends.iter().any(|&x| x >= e) {
                                    st.consistent = false;
                                }
                            }
                        }
                        if !st.consistent {
                            all_consistent = false;
                            stat("recv_unjudged_inconsistent_pieces");
                            Expect::Unjudged
                        } else {
                            let covered = match st.end {
                                Some(e) => st.bytes[..e].iter().all(|b| b.is_some()),
                                None => false,
                            };
                            if covered {
                                let e = st.end.unwrap();
                                let f = st.fields;
                                let hh = mk_header(f.6, f.7, f.4, f.2, 0, f.8, (f.0 as usize * 4 + e) as u16, f.0, f.3, f.1, f.5);
                                let payload: Vec<u8> = st.bytes[..e].iter().map(|b| b.unwrap()).collect();
                                oracle_state.remove(&key);
                                stat("recv_expect_complete");
                                Expect::Complete(hh, payload)
                            } else {
                                stat("recv_expect_incomplete");
                                Expect::Incomplete(st.max_ttl.max(15))
                            }
                        }
                    };
                    // ---- render and compare
                    match res {
                        Ok(ReceivePacketResult::Complete(hh, m)) => {
                            let bytes = m.to_vec();
                            items.push(format!(
                                "C {} {} {} {} {} {} {} {} {} {} {} {}",
                                hh.ihl, hh.type_of_service.as_u8(), hh.total_length, hh.identification, hh.fragment_offset,
                                hh.flags.as_u8(), hh.time_to_live, hh.protocol, hh.checksum, u32::from(hh.source),
                                u32::from(hh.destination), hex(&bytes)
                            ));
                            if m.len() != bytes.len() {
                                fails.push(format!("event {}: Message::len {} differs from its {} octets", idx, m.len(), bytes.len()));
                            }
                            match expect {
                                Expect::Complete(eh, eb) => {
                                    if eb != bytes {
                                        fails.push(format!("event {}: payload of the completed datagram differs from the original ({} octets returned, {} expected)", idx, bytes.len(), eb.len()));
                                    } else if eh != hh {
                                        fails.push(format!("event {}: header of the completed datagram differs: got {:?} expected {:?}", idx, hh, eh));
                                    }
                                }
                                Expect::Incomplete(_) => fails.push(format!("event {}: datagram returned although the pieces received do not cover it", idx)),
                                Expect::Unjudged => {
                                    oracle_state.remove(&key);
                                }
                            }
                        }
                        Ok(ReceivePacketResult::Incomplete(d, b, e)) => {
                            let good_key = b == BufId::from_header(&h);
                            handed[idx] = Some((b, e));
                            items.push(format!("I {} {}{}", d.as_secs(), e as u64, if good_key && d.subsec_nanos() == 0 { "" } else { " BADKEY" }));
                            match expect {
                                Expect::Complete(_, eb) => fails.push(format!("event {}: pieces cover the datagram ({} octets) but it was not returned", idx, eb.len())),
                                Expect::Incomplete(tmo) => {
                                    if d.as_secs() != tmo as u64 {
                                        fails.push(format!("event {}: timer {} s, expected max(15, ttl) = {}", idx, d.as_secs(), tmo));
                                    }
                                    if !good_key {
                                        fails.push(format!("event {}: Incomplete carries a foreign BufId", idx));
                                    }
                                }
                                Expect::Unjudged => {}
                            }
                        }
                        Err(_) => {
                            items.push("PANIC".into());
                            panicked = true;
                            stat("recv_panic");
                            if !matches!(expect, Expect::Unjudged) && all_consistent {
                                fails.push(format!("event {}: panic on a well-formed fragment", idx));
                            }
                        }
                    }
                }
                "C" => {
                    let rf: i64 = t[5].parse().unwrap();
                    let delta: i64 = t[6].parse().unwrap();
                    let base: i64 = if rf < 0 { 0 } else { handed[rf as usize].map(|x| x.1 as i64).unwrap_or(0) };
                    let e = (base + delta).max(0);
                    let probe = mk_header(key.0, key.1, key.2, key.3, 0, 0, 20, 5, 0, 0, 0);
                    let bid = BufId::from_header(&probe);
                    reasm.maybe_cull_segment(bid, e as Epoch);
                    let dbg = format!("{:?}", reasm);
                    let nbuf = dbg.matches("BufId {").count();
                    let present = dbg.contains(&format!("{:?}: Segment", bid));
                    items.push(format!("c {} {}", nbuf, present as u8));
                    // ---- oracle: only callbacks that were really handed out are judged
                    let genuine = rf >= 0 && delta == 0 && handed[rf as usize].is_some() && {
                        let rt: Vec<&str> = evs[rf as usize].split_whitespace().collect();
                        rt[0] == "R" && key_of(&rt) == key
                    };
                    if genuine {
                        let expect_present = match oracle_state.get(&key) {
                            None => {
                                stat("cull_buffer_already_gone");
                                false
                            }
                            Some(st) if st.last_arrival == rf as usize => {
                                stat("cull_expired_removes");
                                false
                            }
                            Some(_) => {
                                stat("cull_stale_keeps");
                                true
                            }
                        };
                        if !expect_present {
                            oracle_state.remove(&key);
                        }
                        if present != expect_present {
                            fails.push(if expect_present {
                                format!("event {}: expiry callback of event {} discarded a buffer that received fragments since", idx, rf)
                            } else {
                                format!("event {}: expiry callback of event {} left the buffer although nothing arrived since", idx, rf)
                            });
                        } else if nbuf != oracle_state.len() {
                            fails.push(format!("event {}: {} buffers held, expected {}", idx, nbuf, oracle_state.len()));
                        }
                    } else {
                        stat("cull_not_handed_out_unjudged");
                        if !present {
                            oracle_state.remove(&key);
                        }
                    }
                }
                _ => panic!("bad event"),
            }
            if panicked {
                break;
            }
        }
        stat(&format!("events_{}", match evs.len() { 1 => "1", 2..=5 => "2-5", 6..=20 => "6-20", 21..=60 => "21-60", _ => "61+" }));
        let oracle = if fails.is_empty() { Oracle::Ok } else { Oracle::Fail(fails.join(" | ")) };
        Outcome { impl_line: items.join(";"), oracle }
    }
}

fn main() {
    main_loop::<Reasm>();
}
