//! C09: lock-step of subnet arithmetic and the routing table against Model/Subnet.v, Model/IpTable.v.
//!
//! case grammar (one case per line, mirrored by ocaml/iptable_drv.ml):
//!   fb n                    Ipv4Mask::from_bitcount(n)            -> `mask count_ones ips_in_net usable_ips`
//!   mk m                    Ipv4Mask::try_from(m: u32)            -> `OK mask` | `ERR`
//!   net ip len a            Ipv4Net::new_short(ip, len)           -> `id mask broadcast range.start range.end contains(a)`
//!   ov ip1 l1 ip2 l2        n1.overlaps(n2) n2.overlaps(n1)       -> `0|1 0|1`
//!   rg lo hi                Ipv4Net::try_from(lo..=hi)            -> `OK id mask` | `ERR empty|size|start`
//!   ci hex                  cidr_to_ip / Ipv4Net::from_cidr       -> `OK ip mask id` | `ERR ipv4` | `ERR mask empty|digit|overflow`
//!   ad a b                  Ipv4Address bytes / Ord / to_u32      -> `b0.b1.b2.b3 lt|eq|gt u32`
//!   tbl op...               a table history; ops are comma separated:
//!        A,ip,len,v  add(new_short(ip,len), v)   -> old value | `-`
//!        R,ip,len    remove(new_short(ip,len))   -> old value | `-`
//!        D,ip,v      add_direct(ip, v)           -> `.`
//!        X,ip        remove_direct(ip)           -> old value | `-`
//!        C,hex,v     add_cidr(text, v)           -> `.`
//!        Y,hex       remove_cidr(text)           -> `.`   (panics on malformed text: whole line `PANIC`)
//!        G,v         table = default_gateway(v)  -> `.`
//!        L,a         get_recipient(a)            -> value | `-`
//!      followed by `| id/mask=v,...` (iter() order) or `| -`
//!
//! The property oracle never uses the implementation's own arithmetic: blocks are computed on
//! u64 by division, the table is mirrored by a plain BTreeMap keyed by (len, id), the lookup is
//! a brute-force maximum over all entries.
use elvis_core::protocols::ipv4::Ipv4Address;
use elvis_core::subnetting::*;
use elvis_core::IpTable;
use elvis_verif_harness::*;
use std::collections::BTreeMap;
use std::panic::{catch_unwind, AssertUnwindSafe};

struct C09;

// ------------------------------------------------------------------ independent arithmetic (u64)

/// (id, size) of the aligned block of prefix length `len` (clamped to 32) that contains `ip`
fn block(ip: u32, len: u32) -> (u64, u64) {
    let len = len.min(32);
    let size = 1u64 << (32 - len);
    let id = (ip as u64 / size) * size;
    (id, size)
}
fn prefix_mask(len: u32) -> u64 {
    (1u64 << 32) - (1u64 << (32 - len.min(32)))
}
/// prefix length of a mask value, None when it is not a prefix mask
fn mask_len(mask: u32) -> Option<u32> {
    (0..=32u32).find(|k| prefix_mask(*k) == mask as u64)
}

/// what a text denotes when read as strict CIDR `a.b.c.d/len` (canonical octets, len digits <= 32)
fn strict_cidr(s: &str) -> Option<(u32, u32)> {
    let (a, l) = lenient_cidr(s).ok()?;
    let parts: Vec<&str> = s.split('/').collect();
    if parts.len() != 2 {
        return None;
    }
    let m = parts[1];
    if m.is_empty() || !m.bytes().all(|c| c.is_ascii_digit()) {
        return None;
    }
    let v: u64 = m.trim_start_matches('0').parse().unwrap_or(0);
    if v > 32 || (m.len() > 1 && m.starts_with('0')) {
        return None;
    }
    Some((a, l))
}

fn ref_octet(p: &str) -> Option<u64> {
    if p.is_empty() || p.len() > 3 || !p.bytes().all(|c| c.is_ascii_digit()) {
        return None;
    }
    if p.len() > 1 && p.starts_with('0') {
        return None;
    }
    let v = p.bytes().fold(0u64, |a, c| a * 10 + (c - b'0') as u64);
    if v > 255 {
        None
    } else {
        Some(v)
    }
}

/// reference reading with the documented leniencies of cidr_to_ip: only the first two '/'-parts
/// are looked at, the length may carry a '+' and leading zeros, and is clamped to 32.
/// Err(0) = address part bad / missing length part, Err(1) = empty, Err(2) = bad digit, Err(3) = overflow
fn lenient_cidr(s: &str) -> Result<(u32, u32), u8> {
    let parts: Vec<&str> = s.split('/').collect();
    if parts.len() < 2 {
        return Err(0);
    }
    let octs: Vec<&str> = parts[0].split('.').collect();
    if octs.len() != 4 {
        return Err(0);
    }
    let mut ip = 0u64;
    for o in &octs {
        ip = ip * 256 + ref_octet(o).ok_or(0u8)?;
    }
    let m = parts[1];
    if m.is_empty() {
        return Err(1);
    }
    let digits = if m.len() > 1 && m.starts_with('+') { &m[1..] } else { m };
    let mut acc = 0u64;
    for c in digits.bytes() {
        if !c.is_ascii_digit() {
            return Err(2);
        }
        acc = acc * 10 + (c - b'0') as u64;
        if acc > u32::MAX as u64 {
            return Err(3);
        }
    }
    Ok((ip as u32, (acc as u32).min(32)))
}

// ------------------------------------------------------------------ generators

const EDGE_IP: [u32; 14] = [
    0, 1, 0x7fff_ffff, 0x8000_0000, 0xffff_ffff, 0xffff_fffe, 0x7f00_0001, 0x0a00_0000, 0xc0a8_0101,
    0x0101_0102, 0x00ff_ffff, 0x0100_0000, 0xff00_0000, 0xffff_ff00,
];

fn gen_ip(rng: &mut Rng) -> u32 {
    match rng.below(4) {
        0 => *rng.pick(&EDGE_IP),
        1 => {
            // one block boundary +-1
            let len = rng.range(0, 32) as u32;
            let (id, size) = block(rng.u32(), len);
            let d = rng.below(3) as u64;
            ((id + size + d).wrapping_sub(1) & 0xffff_ffff) as u32
        }
        _ => rng.u32(),
    }
}
fn gen_len(rng: &mut Rng) -> u32 {
    match rng.below(8) {
        0 => *rng.pick(&[0u32, 1, 2, 30, 31, 32]),
        1 => *rng.pick(&[7u32, 8, 9, 15, 16, 17, 23, 24, 25]),
        _ => rng.range(0, 32) as u32,
    }
}
/// a length the way a careless caller may pass it (clamped by the code)
fn gen_len_wild(rng: &mut Rng) -> u32 {
    match rng.below(12) {
        0 => *rng.pick(&[33u32, 34, 64, 255, 256, u32::MAX, u32::MAX - 1, 1 << 31]),
        1 => rng.u32(),
        _ => gen_len(rng),
    }
}
/// an address at or around the boundaries of the block (ip, len)
fn boundary(rng: &mut Rng, ip: u32, len: u32) -> u32 {
    let (id, size) = block(ip, len);
    let bc = id + size - 1;
    let v = match rng.below(8) {
        0 => id.wrapping_sub(1),
        1 => id,
        2 => bc,
        3 => bc + 1,
        4 => id + rng.below(size),
        5 => id + size / 2,
        6 => (id + size / 2).wrapping_sub(1),
        _ => ip as u64,
    };
    (v & 0xffff_ffff) as u32
}
/// a network related to (ip, len): nested inside, enclosing, sibling, adjacent, identical (other host bits)
fn related(rng: &mut Rng, ip: u32, len: u32) -> (u32, u32) {
    let (id, size) = block(ip, len);
    match rng.below(8) {
        0 => {
            // identical network, written with other host bits
            (((id + rng.below(size)) & 0xffff_ffff) as u32, len)
        }
        1 => {
            // enclosing
            let l2 = if len == 0 { 0 } else { rng.range(0, len as u64 - 0) as u32 };
            (ip, l2)
        }
        2 => {
            // nested inside: anywhere, or touching the first / last address of the enclosing block
            let l2 = rng.range(len as u64, 32) as u32;
            let at = match rng.below(4) {
                0 => id,
                1 => id + size - 1,
                _ => id + rng.below(size),
            };
            ((at & 0xffff_ffff) as u32, l2)
        }
        3 => {
            // sibling: flip the last prefix bit
            if len == 0 {
                (ip, 1)
            } else {
                (((id as u32) ^ (1u32 << (32 - len))), len)
            }
        }
        4 => (((id + size) & 0xffff_ffff) as u32, len), // next block
        5 => ((id.wrapping_sub(1) & 0xffff_ffff) as u32, len), // previous block
        6 => (ip, (len + 1).min(32)),
        _ => (gen_ip(rng), gen_len(rng)),
    }
}

fn dotted(ip: u32) -> String {
    let b = ip.to_be_bytes();
    format!("{}.{}.{}.{}", b[0], b[1], b[2], b[3])
}

/// CIDR text: mostly valid, otherwise one of the malformations
fn gen_cidr_text(rng: &mut Rng, ip: u32, len: u32) -> String {
    let good = format!("{}/{}", dotted(ip), len);
    match rng.below(40) {
        0..=19 => good,
        20 => dotted(ip),                                   // no length part
        21 => format!("{}/", dotted(ip)),                   // empty length
        22 => format!("/{}", len),                          // empty address
        23 => String::new(),
        24 => format!("{}/{}", dotted(ip), rng.range(33, 300)), // > 32: clamped
        25 => format!("{}/{}", dotted(ip), *rng.pick(&["4294967295", "4294967296", "42949672950", "99999999999999999999", "4294967295x", "9999999999x"])),
        26 => format!("{}/+{}", dotted(ip), len),
        27 => format!("{}/-{}", dotted(ip), len),
        28 => format!("{}/{}x", dotted(ip), len),
        29 => format!("{}/ {}", dotted(ip), len),
        30 => format!("{}/{}/{}", dotted(ip), len, rng.pick(&["", "7", "x", "1.2.3.4/5"])),
        31 => format!("{}/0{}", dotted(ip), len),
        32 => {
            // three or five octets
            let b = ip.to_be_bytes();
            if rng.coin(1, 2) { format!("{}.{}.{}/{}", b[0], b[1], b[2], len) } else { format!("{}.{}/{}", dotted(ip), b[0], len) }
        }
        33 => {
            // octet out of range / leading zero / four digits
            let b = ip.to_be_bytes();
            let bad = match rng.below(4) { 0 => "256".to_string(), 1 => format!("0{}", b[1]), 2 => "1000".to_string(), _ => "999".to_string() };
            let pos = rng.below(4) as usize;
            let mut parts: Vec<String> = b.iter().map(|x| x.to_string()).collect();
            parts[pos] = bad;
            format!("{}/{}", parts.join("."), len)
        }
        34 => format!("{}/{}", dotted(ip).replace('.', *rng.pick(&[",", "..", " ", ":"])), len),
        35 => format!("{}.", dotted(ip)) + &format!("/{}", len),
        36 => format!("{}/{}", dotted(ip), *rng.pick(&["+", "-", "x", "é", "３２", "1_0", "0x10", "1e1"])),
        37 => {
            // random printable garbage with the right separators
            let n = rng.range(1, 18) as usize;
            (0..n).map(|_| *rng.pick(&['0', '1', '2', '5', '9', '.', '.', '/', '+', 'a', ' '])).collect()
        }
        38 => format!(" {}", good),
        _ => format!("{}/{}", dotted(ip), *rng.pick(&["0", "00", "000032", "32", "032", "31", "1"])),
    }
}

fn gen_tbl(rng: &mut Rng) -> String {
    // a pool of related networks: a nested chain on one base address, their siblings and
    // neighbours, a few unrelated ones
    let base = gen_ip(rng);
    let mut pool: Vec<(u32, u32)> = Vec::new();
    let chain = rng.range(1, 8);
    for _ in 0..chain {
        pool.push((base, gen_len(rng)));
    }
    if rng.coin(1, 3) {
        // adjacent lengths, including the extremes
        let l = rng.range(0, 31) as u32;
        pool.push((base, l));
        pool.push((base, l + 1));
    }
    let extra = rng.range(0, 6);
    for _ in 0..extra {
        let (ip, len) = *rng.pick(&pool);
        pool.push(related(rng, ip, len));
    }
    if rng.coin(1, 4) {
        pool.push((gen_ip(rng), gen_len(rng)));
    }
    if rng.coin(1, 6) {
        pool.push((0, 0));
    }
    let mut toks: Vec<String> = vec!["tbl".into()];
    let mut val = 1u32;
    let mut added: Vec<(u32, u32)> = Vec::new();
    let mut direct: Vec<u32> = Vec::new();
    if rng.coin(1, 12) {
        toks.push(format!("G,{}", val));
        val += 1;
        added.push((0, 0));
    }
    let nops = rng.range(3, 28);
    for _ in 0..nops {
        let (ip, len) = *rng.pick(&pool);
        // the same network is usually written with fresh host bits
        let (id, size) = block(ip, len);
        let ip2 = if rng.coin(1, 2) { ip } else { ((id + rng.below(size)) & 0xffff_ffff) as u32 };
        match rng.below(100) {
            0..=44 => {
                let l = if rng.coin(1, 25) { *rng.pick(&[33u32, 40, u32::MAX]) } else { len };
                toks.push(format!("A,{},{},{}", ip2, l, val));
                added.push((ip2, l.min(32)));
            }
            45..=59 => {
                // remove: mostly something that was added
                if !added.is_empty() && rng.coin(3, 4) {
                    let (i, l) = *rng.pick(&added);
                    toks.push(format!("R,{},{}", i, l));
                } else {
                    toks.push(format!("R,{},{}", ip2, len));
                }
            }
            60..=67 => {
                toks.push(format!("D,{},{}", ip2, val));
                added.push((ip2, 32));
                direct.push(ip2);
            }
            68..=71 => {
                let a = if !direct.is_empty() && rng.coin(2, 3) {
                    *rng.pick(&direct)
                } else if !added.is_empty() && rng.coin(1, 2) {
                    rng.pick(&added).0
                } else {
                    ip2
                };
                toks.push(format!("X,{}", a));
            }
            72..=81 => {
                let text = gen_cidr_text(rng, ip2, len);
                toks.push(format!("C,{},{}", hex(text.as_bytes()), val));
                added.push((ip2, len));
            }
            82..=84 => {
                // remove_cidr: well-formed except rarely (malformed text panics by contract)
                let text = if rng.coin(1, 12) { gen_cidr_text(rng, ip2, len) } else { format!("{}/{}", dotted(ip2), len) };
                toks.push(format!("Y,{}", hex(text.as_bytes())));
            }
            _ => {
                let a = if !added.is_empty() && rng.coin(2, 3) {
                    let (i, l) = *rng.pick(&added);
                    boundary(rng, i, l)
                } else {
                    gen_ip(rng)
                };
                toks.push(format!("L,{}", a));
            }
        }
        val += 1;
    }
    // final lookups: every boundary address of every network that was ever added
    added.sort();
    added.dedup();
    for (i, l) in &added {
        let (id, size) = block(*i, *l);
        for a in [id.wrapping_sub(1), id, id + size - 1, id + size] {
            toks.push(format!("L,{}", (a & 0xffff_ffff) as u32));
        }
    }
    for _ in 0..rng.range(1, 4) {
        toks.push(format!("L,{}", rng.u32()));
    }
    toks.join(" ")
}

impl Family for C09 {
    fn gen(rng: &mut Rng, _idx: usize) -> String {
        match rng.below(100) {
            0..=31 => gen_tbl(rng),
            32..=47 => {
                let (ip, len) = (gen_ip(rng), gen_len_wild(rng));
                let a = if rng.coin(5, 6) { boundary(rng, ip, len.min(32)) } else { gen_ip(rng) };
                format!("net {} {} {}", ip, len, a)
            }
            48..=60 => {
                let (ip, len) = (gen_ip(rng), gen_len(rng));
                let (ip2, len2) = related(rng, ip, len);
                format!("ov {} {} {} {}", ip, len, ip2, len2)
            }
            61..=73 => {
                // ranges: aligned blocks, shifted blocks, sizes off by one, full, inverted, random
                let len = gen_len(rng);
                let (id, size) = block(gen_ip(rng), len);
                let (lo, hi): (u64, u64) = match rng.below(12) {
                    0..=3 => (id, id + size - 1),
                    4 => {
                        // right size, wrong start
                        let sh = if rng.coin(1, 2) { size / 2 } else { rng.below(size) };
                        let lo = id + sh;
                        (lo, lo + size - 1)
                    }
                    5 => (id, id + size),             // size + 1
                    6 => (id, (id + size).saturating_sub(2).max(id)), // size - 1
                    7 => (0, 0xffff_ffff),
                    8 => (id + size - 1, id),         // inverted unless size == 1
                    9 => {
                        let a = rng.u32() as u64;
                        (a, a)
                    }
                    10 => (rng.u32() as u64, rng.u32() as u64),
                    _ => {
                        // power-of-two size anywhere
                        let lo = rng.u32() as u64;
                        (lo, lo + size - 1)
                    }
                };
                let clip = |x: u64| x.min(0xffff_ffff);
                format!("rg {} {}", clip(lo), clip(hi))
            }
            74..=87 => {
                let (ip, len) = (gen_ip(rng), gen_len(rng));
                format!("ci {}", hex(gen_cidr_text(rng, ip, len).as_bytes()))
            }
            88..=93 => {
                let k = gen_len(rng);
                let m = prefix_mask(k) as u32;
                let v = match rng.below(8) {
                    0..=2 => m,
                    3 => m ^ (1u32 << rng.below(32)),
                    4 => !m,                          // ones at the bottom
                    5 => m | (1u32 << rng.below(32)),
                    6 => *rng.pick(&[0u32, 1, 0x8000_0000, 0xffff_ffff, 0xffff_fffe, 0x7fff_ffff, 0xff00_ff00, 0xc000_0001]),
                    _ => rng.u32(),
                };
                format!("mk {}", v)
            }
            94..=96 => format!("fb {}", gen_len_wild(rng)),
            _ => {
                let a = gen_ip(rng);
                let b = match rng.below(4) {
                    0 => a,
                    1 => a ^ (1u32 << rng.below(32)),
                    2 => a.wrapping_add(*rng.pick(&[1u32, 255, 256, 65536, 0xffff_ffff])),
                    _ => gen_ip(rng),
                };
                format!("ad {} {}", a, b)
            }
        }
    }

    fn run(case: &str) -> Outcome {
        let t: Vec<&str> = case.split_whitespace().collect();
        let p = |i: usize| -> u32 { t[i].parse().unwrap() };
        stat(&format!("kind_{}", t[0]));
        let r = catch_unwind(AssertUnwindSafe(|| match t[0] {
            "fb" => run_fb(p(1)),
            "mk" => run_mk(p(1)),
            "net" => run_net(p(1), p(2), p(3)),
            "ov" => run_ov(p(1), p(2), p(3), p(4)),
            "rg" => run_rg(p(1), p(2)),
            "ci" => run_ci(t[1]),
            "ad" => run_ad(p(1), p(2)),
            "tbl" => run_tbl(&t[1..]),
            _ => panic!("bad case kind"),
        }));
        match r {
            Ok(o) => o,
            Err(e) => {
                let msg = panic_message(e);
                // the only documented panic: remove_cidr on malformed text
                let expected = t[0] == "tbl"
                    && msg.contains("CIDR string formatted incorrectly")
                    && t[1..].iter().any(|tok| {
                        let f: Vec<&str> = tok.split(',').collect();
                        f[0] == "Y" && lenient_cidr(&String::from_utf8_lossy(&unhex(f[1]))).is_err()
                    });
                stat(if expected { "panic_remove_cidr_malformed" } else { "panic_unexpected" });
                Outcome {
                    impl_line: "PANIC".into(),
                    oracle: if expected { Oracle::Ok } else { Oracle::Fail(format!("unexpected panic: {}", msg)) },
                }
            }
        }
    }
}

fn fail_if(errs: Vec<String>) -> Oracle {
    if errs.is_empty() {
        Oracle::Ok
    } else {
        Oracle::Fail(errs.join("; "))
    }
}

fn run_fb(n: u32) -> Outcome {
    let m = Ipv4Mask::from_bitcount(n);
    let k = n.min(32);
    stat(if n > 32 { "fb_clamped" } else if n == 0 || n == 32 { "fb_extreme" } else { "fb_mid" });
    let mut errs = vec![];
    if m.to_u32() as u64 != prefix_mask(k) {
        errs.push(format!("from_bitcount({}) = {:#x}", n, m.to_u32()));
    }
    if m.count_ones() != k {
        errs.push(format!("count_ones {} != {}", m.count_ones(), k));
    }
    let size = 1u64 << (32 - k);
    if m.ips_in_net() != size {
        errs.push(format!("ips_in_net {} != {}", m.ips_in_net(), size));
    }
    if m.usable_ips() as u64 != size.saturating_sub(2) {
        errs.push(format!("usable_ips {} != {}", m.usable_ips(), size.saturating_sub(2)));
    }
    if u32::from(m) != m.to_u32() || Ipv4Address::from(m).to_u32() != m.to_u32() || m.to_ipv4_address().to_u32() != m.to_u32() {
        errs.push("mask conversions disagree".into());
    }
    Outcome {
        impl_line: format!("{} {} {} {}", m.to_u32(), m.count_ones(), m.ips_in_net(), m.usable_ips()),
        oracle: fail_if(errs),
    }
}

fn run_mk(v: u32) -> Outcome {
    let r = Ipv4Mask::try_from(v);
    let valid = mask_len(v);
    stat(if valid.is_some() { "mk_valid" } else { "mk_invalid" });
    let mut errs = vec![];
    match (&r, valid) {
        (Ok(m), Some(k)) => {
            if m.to_u32() != v || m.count_ones() != k {
                errs.push(format!("try_from({:#x}) gave {:#x}/{}", v, m.to_u32(), m.count_ones()));
            }
        }
        (Err(e), None) => {
            if *e != v {
                errs.push("error does not return the number".into());
            }
        }
        (Ok(_), None) => errs.push(format!("{:#x} accepted but has a 0 between its 1s", v)),
        (Err(_), Some(k)) => errs.push(format!("{:#x} rejected but is the /{} mask", v, k)),
    }
    // the Ipv4Address flavour must agree
    let r2 = Ipv4Mask::try_from(Ipv4Address::from(v));
    if r2.is_ok() != r.is_ok() {
        errs.push("TryFrom<Ipv4Address> disagrees with TryFrom<u32>".into());
    }
    Outcome {
        impl_line: match r {
            Ok(m) => format!("OK {}", m.to_u32()),
            Err(_) => "ERR".into(),
        },
        oracle: fail_if(errs),
    }
}

fn run_net(ip: u32, len: u32, a: u32) -> Outcome {
    let n = Ipv4Net::new_short(Ipv4Address::from(ip), len);
    let (id, size) = block(ip, len);
    let bc = id + size - 1;
    let got_id = n.id().to_u32();
    let got_bc = n.broadcast().to_u32();
    let range = n.range();
    let c = n.contains(Ipv4Address::from(a));
    let k = len.min(32);
    stat(&format!("net_len_{:02}", k));
    let rel = if (a as u64) < id { "below" } else if (a as u64) > bc { "above" } else if a as u64 == id { "at_id" } else if a as u64 == bc { "at_bc" } else { "inside" };
    stat(&format!("net_addr_{}", rel));
    let mut errs = vec![];
    if got_id as u64 != id {
        errs.push(format!("id {} != {}", got_id, id));
    }
    if got_bc as u64 != bc {
        errs.push(format!("broadcast {} != {}", got_bc, bc));
    }
    if n.mask().to_u32() as u64 != prefix_mask(k) || n.mask().count_ones() != k {
        errs.push("mask".into());
    }
    let expect = id <= a as u64 && a as u64 <= bc;
    if c != expect {
        errs.push(format!("contains({}) = {} but range is {}..={}", a, c, id, bc));
    }
    if range.start().to_u32() as u64 != id || range.end().to_u32() as u64 != bc {
        errs.push("range() is not id..=broadcast".into());
    }
    // contains agrees with membership in range()
    if range.contains(&Ipv4Address::from(a)) != c {
        errs.push("contains differs from range().contains".into());
    }
    // the other constructors build the same value
    if Ipv4Net::new(Ipv4Address::from(ip), Ipv4Mask::from_bitcount(len)) != n
        || Ipv4Net::from((Ipv4Address::from(ip), Ipv4Mask::from_bitcount(len))) != n
        || (k == 32 && Ipv4Net::new_1(Ipv4Address::from(ip)) != n)
    {
        errs.push("constructors disagree".into());
    }
    let back: (Ipv4Address, Ipv4Mask) = n.into();
    if back.0 != n.id() || back.1 != n.mask() {
        errs.push("into pair".into());
    }
    Outcome {
        impl_line: format!(
            "{} {} {} {} {} {}",
            got_id,
            n.mask().to_u32(),
            got_bc,
            range.start().to_u32(),
            range.end().to_u32(),
            c as u8
        ),
        oracle: fail_if(errs),
    }
}

fn run_ov(ip1: u32, l1: u32, ip2: u32, l2: u32) -> Outcome {
    let n1 = Ipv4Net::new_short(Ipv4Address::from(ip1), l1);
    let n2 = Ipv4Net::new_short(Ipv4Address::from(ip2), l2);
    let o12 = n1.overlaps(n2);
    let o21 = n2.overlaps(n1);
    let (a, sa) = block(ip1, l1);
    let (b, sb) = block(ip2, l2);
    let expect = a <= b + sb - 1 && b <= a + sa - 1;
    let rel = if a == b && sa == sb { "same" } else if expect { "nested" } else if a + sa == b || b + sb == a { "adjacent" } else { "apart" };
    stat(&format!("ov_{}", rel));
    let mut errs = vec![];
    if o12 != expect || o21 != expect {
        errs.push(format!("overlaps {} / {} but ranges {}..{} and {}..{} intersect = {}", o12, o21, a, a + sa - 1, b, b + sb - 1, expect));
    }
    // two prefix blocks intersect exactly when one holds the other's id
    let via_contains = n1.contains(n2.id()) || n2.contains(n1.id());
    if via_contains != expect {
        errs.push("contains-based intersection differs".into());
    }
    Outcome { impl_line: format!("{} {}", o12 as u8, o21 as u8), oracle: fail_if(errs) }
}

fn run_rg(lo: u32, hi: u32) -> Outcome {
    let r = Ipv4Net::try_from(Ipv4Address::from(lo)..=Ipv4Address::from(hi));
    let mut errs = vec![];
    let (l, h) = (lo as u64, hi as u64);
    let expect: Result<(u64, u64), &str> = if l > h {
        Err("empty")
    } else {
        let size = h - l + 1;
        if !size.is_power_of_two() {
            Err("size")
        } else if l % size != 0 {
            Err("start")
        } else {
            Ok((l, (1u64 << 32) - size))
        }
    };
    stat(&format!("rg_{}", match expect { Ok(_) => "block", Err(e) => e }));
    let line = match &r {
        Ok(n) => format!("OK {} {}", n.id().to_u32(), n.mask().to_u32()),
        Err(TryFromRangeError::Empty) => "ERR empty".to_string(),
        Err(TryFromRangeError::Size) => "ERR size".to_string(),
        Err(TryFromRangeError::Start) => "ERR start".to_string(),
    };
    match (&r, expect) {
        (Ok(n), Ok((id, mask))) => {
            if n.id().to_u32() as u64 != id || n.mask().to_u32() as u64 != mask {
                errs.push(format!("{}..={} converted to {}", lo, hi, line));
            }
            if n.range() != (Ipv4Address::from(lo)..=Ipv4Address::from(hi)) {
                errs.push("range() of the result is not the input".into());
            }
        }
        (Ok(_), Err(why)) => errs.push(format!("{}..={} accepted ({}) but is not an aligned power-of-two block: {}", lo, hi, line, why)),
        (Err(_), Ok(_)) => errs.push(format!("{}..={} rejected ({}) but is an aligned power-of-two block", lo, hi, line)),
        (Err(_), Err(why)) => {
            if line != format!("ERR {}", why) {
                errs.push(format!("{}..={}: {} but expected ERR {}", lo, hi, line, why));
            }
        }
    }
    Outcome { impl_line: line, oracle: fail_if(errs) }
}

fn run_ci(hexs: &str) -> Outcome {
    let bytes = unhex(hexs);
    let s = String::from_utf8(bytes).expect("generator emits utf-8");
    let r = cidr_to_ip(&s);
    let n = Ipv4Net::from_cidr(&s);
    let mut errs = vec![];
    let line = match &r {
        Ok((ip, m)) => {
            let id = match &n {
                Ok(n) => {
                    if n.mask() != *m {
                        errs.push("from_cidr mask differs from cidr_to_ip".into());
                    }
                    n.id().to_u32()
                }
                Err(_) => {
                    errs.push("from_cidr fails where cidr_to_ip succeeds".into());
                    0
                }
            };
            format!("OK {} {} {}", ip.to_u32(), m.to_u32(), id)
        }
        Err(CidrParseError::Ipv4) => "ERR ipv4".to_string(),
        Err(CidrParseError::Mask(e)) => {
            use std::num::IntErrorKind::*;
            match e.kind() {
                Empty => "ERR mask empty".to_string(),
                InvalidDigit => "ERR mask digit".to_string(),
                PosOverflow => "ERR mask overflow".to_string(),
                k => format!("ERR mask {:?}", k),
            }
        }
    };
    if r.is_err() && n.is_ok() {
        errs.push("from_cidr succeeds where cidr_to_ip fails".into());
    }
    // the property: strict CIDR text parses to the network it denotes
    if let Some((ip, len)) = strict_cidr(&s) {
        stat("ci_strict_valid");
        let (id, _) = block(ip, len);
        match (&r, &n) {
            (Ok((gip, gm)), Ok(net)) => {
                if gip.to_u32() != ip || gm.to_u32() as u64 != prefix_mask(len) || net.id().to_u32() as u64 != id {
                    errs.push(format!("{:?} denotes {}/{} but parsed to {}", s, dotted(ip), len, line));
                }
            }
            _ => errs.push(format!("{:?} is valid CIDR text but was rejected: {}", s, line)),
        }
    } else {
        // outside the property: compare with the reference reading and count the leniencies
        match (lenient_cidr(&s), &r) {
            (Ok((ip, len)), Ok((gip, gm))) => {
                let parts = s.split('/').count();
                let m = s.split('/').nth(1).unwrap_or("");
                stat(if parts > 2 { "ci_lenient_extra_parts" } else if m.starts_with('+') { "ci_lenient_plus_sign" } else if m.len() > 1 && m.starts_with('0') { "ci_lenient_leading_zero" } else { "ci_lenient_len_above_32_clamped" });
                if gip.to_u32() != ip || gm.to_u32() as u64 != prefix_mask(len) {
                    errs.push(format!("{:?}: parsed to {} but the reference reading is {}/{}", s, line, dotted(ip), len));
                }
            }
            (Err(code), Err(_)) => {
                let want = ["ERR ipv4", "ERR mask empty", "ERR mask digit", "ERR mask overflow"][code as usize];
                stat(&format!("ci_rejected_{}", want.replace(' ', "_")));
                if line != want {
                    errs.push(format!("{:?}: {} but the reference reading gives {}", s, line, want));
                }
            }
            (Ok(_), Err(_)) => errs.push(format!("{:?}: rejected ({}) but the reference reading accepts", s, line)),
            (Err(_), Ok(_)) => errs.push(format!("{:?}: accepted ({}) but is not of the form address/length", s, line)),
        }
    }
    Outcome { impl_line: line, oracle: fail_if(errs) }
}

fn run_ad(a: u32, b: u32) -> Outcome {
    let (x, y) = (Ipv4Address::from(a), Ipv4Address::from(b));
    let by = x.to_bytes();
    let c = x.cmp(&y);
    let mut errs = vec![];
    if by != a.to_be_bytes() || x.to_u32() != a || Ipv4Address::new(by) != x {
        errs.push("byte view".into());
    }
    if c != a.cmp(&b) {
        errs.push(format!("order of {} and {} is {:?}", a, b, c));
    }
    let cs = match c {
        std::cmp::Ordering::Less => "lt",
        std::cmp::Ordering::Equal => "eq",
        std::cmp::Ordering::Greater => "gt",
    };
    stat(&format!("ad_{}", cs));
    Outcome { impl_line: format!("{}.{}.{}.{} {} {}", by[0], by[1], by[2], by[3], cs, x.to_u32()), oracle: fail_if(errs) }
}

/// brute-force longest-prefix match over (id, len, value) triples; Err when the winner is not unique
fn brute_lpm(entries: &[(u64, u32, u32)], a: u32) -> Result<Option<u32>, String> {
    let mut best: Option<(u32, u32)> = None;
    let mut ties = 0;
    for (id, len, v) in entries {
        let size = 1u64 << (32 - len);
        if *id <= a as u64 && (a as u64) < id + size {
            match best {
                Some((bl, _)) if bl > *len => {}
                Some((bl, _)) if bl == *len => ties += 1,
                _ => {
                    best = Some((*len, *v));
                    ties = 0;
                }
            }
        }
    }
    if ties > 0 {
        return Err("two networks of the same length contain the address".into());
    }
    Ok(best.map(|x| x.1))
}

fn run_tbl(ops: &[&str]) -> Outcome {
    let mut table: IpTable<u32> = IpTable::new();
    // reference finite map keyed by (len, id)
    let mut refmap: BTreeMap<(u32, u64), u32> = BTreeMap::new();
    let mut out: Vec<String> = Vec::new();
    let mut errs: Vec<String> = Vec::new();
    let show = |o: Option<u32>| o.map(|v| v.to_string()).unwrap_or_else(|| "-".into());
    let mut nlook = 0;
    for tok in ops {
        let f: Vec<&str> = tok.split(',').collect();
        let u = |i: usize| -> u32 { f[i].parse().unwrap() };
        let text = |i: usize| String::from_utf8(unhex(f[i])).expect("utf-8");
        stat(&format!("tblop_{}", f[0]));
        match f[0] {
            "A" => {
                let (ip, len, v) = (u(1), u(2), u(3));
                let old = table.add(Ipv4Net::new_short(Ipv4Address::from(ip), len), v);
                let (id, _) = block(ip, len);
                let want = refmap.insert((len.min(32), id), v);
                stat(if want.is_some() { "tbl_add_replaces" } else { "tbl_add_new" });
                if old != want {
                    errs.push(format!("{}: add returned {:?}, finite map had {:?}", tok, old, want));
                }
                out.push(show(old));
            }
            "R" => {
                let (ip, len) = (u(1), u(2));
                let old = table.remove(Ipv4Net::new_short(Ipv4Address::from(ip), len));
                let (id, _) = block(ip, len);
                let want = refmap.remove(&(len.min(32), id));
                stat(if want.is_some() { "tbl_remove_present" } else { "tbl_remove_absent" });
                if old != want {
                    errs.push(format!("{}: remove returned {:?}, finite map had {:?}", tok, old, want));
                }
                out.push(show(old));
            }
            "D" => {
                table.add_direct(Ipv4Address::from(u(1)), u(2));
                refmap.insert((32, u(1) as u64), u(2));
                out.push(".".into());
            }
            "X" => {
                let old = table.remove_direct(Ipv4Address::from(u(1)));
                let want = refmap.remove(&(32, u(1) as u64));
                stat(if want.is_some() { "tbl_remove_direct_present" } else { "tbl_remove_direct_absent" });
                if old != want {
                    errs.push(format!("{}: remove_direct returned {:?}, finite map had {:?}", tok, old, want));
                }
                out.push(show(old));
            }
            "C" => {
                let s = text(1);
                table.add_cidr(&s, u(2));
                match lenient_cidr(&s) {
                    Ok((ip, len)) => {
                        stat(if strict_cidr(&s).is_some() { "tbl_cidr_valid" } else { "tbl_cidr_lenient" });
                        refmap.insert((len, block(ip, len).0), u(2));
                    }
                    Err(_) => stat("tbl_cidr_malformed_ignored"),
                }
                out.push(".".into());
            }
            "Y" => {
                let s = text(1);
                table.remove_cidr(&s); // panics on malformed text (documented)
                if let Ok((ip, len)) = lenient_cidr(&s) {
                    refmap.remove(&(len, block(ip, len).0));
                }
                out.push(".".into());
            }
            "G" => {
                table = IpTable::default_gateway(u(1));
                refmap.clear();
                refmap.insert((0, 0), u(1));
                out.push(".".into());
            }
            "L" => {
                let a = u(1);
                let got = table.get_recipient(Ipv4Address::from(a));
                nlook += 1;
                // brute force over the table's own iteration (ids and masks read back, lengths recomputed)
                let mut ents: Vec<(u64, u32, u32)> = Vec::new();
                for (net, v) in table.iter() {
                    match mask_len(net.mask().to_u32()) {
                        Some(k) => ents.push((net.id().to_u32() as u64, k, v)),
                        None => errs.push(format!("table holds an invalid mask {:#x}", net.mask().to_u32())),
                    }
                }
                match brute_lpm(&ents, a) {
                    Ok(want) => {
                        if want != got {
                            errs.push(format!("get_recipient({}) = {:?}, longest containing entry of iter() gives {:?}", a, got, want));
                        }
                    }
                    Err(e) => errs.push(format!("lookup {}: {}", a, e)),
                }
                // and over the reference finite map (independent of insertion order by construction)
                let rents: Vec<(u64, u32, u32)> = refmap.iter().map(|((l, id), v)| (*id, *l, *v)).collect();
                let want = brute_lpm(&rents, a).unwrap_or(None);
                if want != got {
                    errs.push(format!("get_recipient({}) = {:?}, finite map of the history gives {:?}", a, got, want));
                }
                let depth = rents.iter().filter(|(id, l, _)| *id <= a as u64 && (a as u64) < id + (1u64 << (32 - l))).count();
                stat(&format!("lookup_containing_{}", depth.min(4)));
                stat(if got.is_some() { "lookup_hit" } else { "lookup_miss" });
                out.push(show(got));
            }
            _ => panic!("bad table op"),
        }
        // after every step the table is exactly the finite map
        let have: BTreeMap<(u32, u64), u32> = table
            .iter()
            .map(|(n, v)| ((mask_len(n.mask().to_u32()).unwrap_or(99), n.id().to_u32() as u64), v))
            .collect();
        if have != refmap || table.iter().count() != refmap.len() {
            errs.push(format!("after {}: table {:?} differs from the finite map {:?}", tok, have, refmap));
        }
    }
    let _ = nlook;
    stat(&format!("tbl_size_{}", match refmap.len() { 0 => "0", 1 => "1", 2..=4 => "2-4", 5..=9 => "5-9", _ => "10+" }));
    // iteration order: mask length descending, then id ascending
    let keys: Vec<(u32, u32)> = table.iter().map(|(n, _)| (n.mask().count_ones(), n.id().to_u32())).collect();
    for w in keys.windows(2) {
        if !(w[0].0 > w[1].0 || (w[0].0 == w[1].0 && w[0].1 < w[1].1)) {
            errs.push(format!("iter() not ordered longest mask first: {:?} before {:?}", w[0], w[1]));
        }
    }
    let dump: Vec<String> = table.iter().map(|(n, v)| format!("{}/{}={}", n.id().to_u32(), n.mask().to_u32(), v)).collect();
    let mut line = out.join(" ");
    if !line.is_empty() {
        line.push(' ');
    }
    line.push_str("| ");
    line.push_str(&if dump.is_empty() { "-".to_string() } else { dump.join(",") });
    Outcome { impl_line: line, oracle: fail_if(errs) }
}

fn main() {
    main_loop::<C09>();
}
