//! C12 (primitives): lock-step of the circular comparison primitives.
//! case: `lt a b` | `leq a b` | `gt a b` | `geq a b` | `bnd a c1 b c2 c` (c1,c2: 0 = Lt, 1 = Leq)
use elvis_core::protocols::tcp::verif::verif_cmp::*;
use elvis_verif_harness::*;

struct Cmp;

const EDGE: [u32; 12] = [
    0, 1, 2, 0x7fff_fffe, 0x7fff_ffff, 0x8000_0000, 0x8000_0001, 0xffff_fffe, 0xffff_ffff, 65535,
    65536, 0x1_0000 - 2,
];
const DIST: [u32; 10] = [0, 1, 2, 0x7fff_fffe, 0x7fff_ffff, 0x8000_0000, 0x8000_0001, 0xffff_ffff, 0xffff_fffe, 65535];

fn val(rng: &mut Rng) -> u32 {
    match rng.below(3) {
        0 => *rng.pick(&EDGE),
        1 => rng.pick(&EDGE).wrapping_add(rng.below(5) as u32).wrapping_sub(2),
        _ => rng.u32(),
    }
}
fn near(rng: &mut Rng, a: u32) -> u32 {
    match rng.below(3) {
        0 => a.wrapping_add(*rng.pick(&DIST)),
        1 => a.wrapping_add(rng.below(70000) as u32).wrapping_sub(35000),
        _ => rng.u32(),
    }
}

impl Family for Cmp {
    fn gen(rng: &mut Rng, _idx: usize) -> String {
        let a = val(rng);
        let b = near(rng, a);
        match rng.below(5) {
            0 => format!("lt {} {}", a, b),
            1 => format!("leq {} {}", a, b),
            2 => format!("gt {} {}", a, b),
            3 => format!("geq {} {}", a, b),
            _ => {
                let base = if rng.coin(1, 2) { a } else { b };
                let c = near(rng, base);
                {
                    let (c1, c2) = (rng.below(2), rng.below(2));
                    format!("bnd {} {} {} {} {}", a, c1, b, c2, c)
                }
            }
        }
    }

    fn run(case: &str) -> Outcome {
        let t: Vec<&str> = case.split_whitespace().collect();
        let p = |i: usize| -> u32 { t[i].parse().unwrap() };
        stat(&format!("op_{}", t[0]));
        let (res, oracle) = match t[0] {
            "lt" | "leq" | "gt" | "geq" => {
                let (a, b) = (p(1), p(2));
                let d = b.wrapping_sub(a); // b = a + d
                let r = match t[0] {
                    "lt" => mod_lt(a, b),
                    "leq" => mod_leq(a, b),
                    "gt" => mod_gt(a, b),
                    _ => mod_geq(a, b),
                };
                // mathematical circular order, defined for pairs less than 2^31 apart
                let e = a.wrapping_sub(b);
                let expect: Option<bool> = if d == 0 {
                    Some(matches!(t[0], "leq" | "geq"))
                } else if d < (1 << 31) {
                    Some(matches!(t[0], "lt" | "leq")) // a before b
                } else if e < (1 << 31) {
                    Some(matches!(t[0], "gt" | "geq")) // b before a
                } else {
                    None // exactly 2^31 apart: outside the property's quantifier
                };
                stat(if expect.is_some() { "dist_lt_2^31" } else { "dist_eq_2^31" });
                let o = match expect {
                    Some(x) if x != r => Oracle::Fail(format!("{} expected {} got {}", case, x, r)),
                    _ => Oracle::Ok,
                };
                (r, o)
            }
            "bnd" => {
                let (a, c1, b, c2, c) = (p(1), p(2), p(3), p(4), p(5));
                let k = |x: u32| if x == 0 { ModCmp::Lt } else { ModCmp::Leq };
                let r = mod_bounded(a, k(c1), b, k(c2), c);
                // arc semantics whenever the arc a..c is shorter than 2^31 and non-degenerate
                let len = c.wrapping_sub(a);
                let off = b.wrapping_sub(a);
                let o = if len != 0 && len < (1 << 31) {
                    let lo_ok = if c1 == 0 { off > 0 } else { true };
                    let hi_ok = if c2 == 0 { off < len } else { off <= len };
                    let expect = lo_ok && hi_ok;
                    stat("bnd_arc_checked");
                    if expect != r {
                        Oracle::Fail(format!("{} expected {} got {}", case, expect, r))
                    } else {
                        Oracle::Ok
                    }
                } else {
                    stat("bnd_degenerate_or_long");
                    Oracle::Ok
                };
                (r, o)
            }
            _ => panic!("bad case"),
        };
        Outcome { impl_line: (res as u8).to_string(), oracle }
    }
}

fn main() {
    main_loop::<Cmp>();
}
